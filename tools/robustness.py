#!/usr/bin/env python3
"""False-alarm test: behaviour-preserving whole-tree edits must leave every registered check silent.

Edit 1 (line shift): three comment/blank lines are inserted at the top of every Rust source of the workspace, so
every line number changes.  Each accepted check is run against the scratch worktree with VERIF_REPO and must exit 0
with the same KNOWN-FINDING keys as on /repo.  usage: robustness.py [Cxx ...]
"""
import os, subprocess, sys, tempfile
VERIF = os.path.dirname(os.path.dirname(os.path.abspath(__file__)))

def sh(cmd, **kw):
    return subprocess.run(cmd, shell=isinstance(cmd, str), capture_output=True, text=True, **kw)

def main():
    pids = [a for a in sys.argv[1:]] or open(os.path.join(VERIF, "rules/ACCEPTED")).read().split()
    tmp = tempfile.mkdtemp(prefix="vrobust_")
    wt = os.path.join(tmp, "wt")
    sh(["git", "-C", "/repo", "worktree", "add", "-q", "--detach", wt])
    bad = 0
    try:
        files = sh(["git", "-C", wt, "ls-files", "*.rs"]).stdout.split()
        for rel in files:
            if not (rel.startswith("crates/") or rel.startswith("src/")) or "/tests/" in rel:
                continue
            p = os.path.join(wt, rel)
            lines = open(p).read().split("\n")
            i = 0
            while i < len(lines) and (lines[i].startswith("//!") or lines[i].startswith("#![") or lines[i] == ""):
                i += 1
            lines[i:i] = ["// shifted", "// lines", ""]
            open(p, "w").write("\n".join(lines))
        for pid in pids:
            env = dict(os.environ, VERIF_REPO=wt)
            r = sh([sys.executable, os.path.join(VERIF, "check.py"), pid], env=env)
            ok = r.returncode == 0
            print(f"{pid}: {'silent' if ok else 'FALSE ALARM'} :: {r.stdout.strip().splitlines()[-1] if r.stdout.strip() else r.stderr[-200:]}")
            if not ok:
                bad += 1
                print(r.stdout[-1500:])
    finally:
        sh(["git", "-C", "/repo", "worktree", "remove", "--force", wt]); sh(["git", "-C", "/repo", "worktree", "prune"]); sh(["rm", "-rf", tmp])
    return 1 if bad else 0

if __name__ == "__main__":
    sys.exit(main())
