"""C23 — cross-task wakeups are neither lost nor duplicated (structural clauses)."""
import json
import os
import re

from lib import facts, mir
from .rtcommon import (configs, rt, every_return_passes, bool_switches_on_call, ind_calls)

CLAIM = dict(
    level="other", engine="mirfacts+synfacts", design="DESIGN.md §5 C23",
    technique="MIR value-feasibility pruning on the sleep-state swap, dominator / must-pass-through / who-may-write "
              "rules, assert_eq! operands joined from the syntax tree by span",
    text="Static path rules on the runtime crate's MIR: wake_by_ref swaps in WOKEN once and writes the wakeup stream "
         "exactly when the previous state was SLEEPING; the sleep state only ever holds the three distinct constants; "
         "the pending read is started once per sleep (count 1, asserted BLOCKED, then joined to the set), consumed on "
         "its own event, cancelled after leaving the set before any further poll and first thing on destruction; a "
         "wake that arrived during the poll prevents going to sleep. Partial: schedules and the host are not explored.",
    note="mir+syn")

FEATURE_CFG = {"full"}          # configurations compiled with the cargo feature `inter-task-wakeup`

A_NEW = ["Atomic::new", "AtomicU32::new"]
A_ANY = re.compile(r"core::sync::atomic::Atomic(U32)?(::<[^>]*>)?::(\w+)$")

START_READ = re.compile(r"UnitStreamOps as .*StreamOps>::start_read$")
START_WRITE = re.compile(r"UnitStreamOps as .*StreamOps>::start_write$")
CANCEL_READ = re.compile(r"UnitStreamOps as .*StreamOps>::cancel_read$")
UNIT_OPS_ANY = re.compile(r"UnitStreamOps as .*StreamOps>::(start_read|start_write|cancel_read|cancel_write)$")
UNIT_BUILTIN = re.compile(r"unit_stream::unit_(\w+)$")
RM_SETS = "WaitableSet::remove_waitable_from_all_sets"
CANCEL_FN = "cancel_inter_task_stream_read"
READ_FN = "read_inter_task_stream"
ASSERT_MACROS = {"assert_eq", "debug_assert_eq", "assert_ne", "debug_assert_ne"}


# ----------------------------------------------------------------------------------------------------------------
# helpers local to this module (lib gaps: tuple-field tracing, promoted constants, field-guarded switches)
# ----------------------------------------------------------------------------------------------------------------
def _cancel_ref_deref(proj):
    p = list(proj)
    i = 0
    while i + 1 < len(p):
        if p[i] == "&" and p[i + 1] == "*":
            del p[i:i + 2]
            i = max(i - 1, 0)
        else:
            i += 1
    return p


def trace(f, op, depth=24):
    """Like Fn.origin, but additionally walks through tuple aggregates (`(&a, &b)` of assert_eq!), cancels `&`/`*`
    pairs and reports promoted constants together with the span of the statement that reads them."""
    if "c" in op:
        o = {"kind": "const"}
        for k in ("v", "def", "ty", "s"):
            if k in op:
                o[k] = op[k]
        if "v" in o:
            o["v"] = int(o["v"])
        return o
    p = op.get("cp") or op.get("mv")
    if p is None:
        return {"kind": "unknown"}
    return _trace_place(f, p["l"], list(p.get("p", [])), depth, {})


def _trace_place(f, l, proj, depth, ctx):
    proj = _cancel_ref_deref(proj)
    if depth <= 0:
        return {"kind": "unknown"}
    if 1 <= l <= f.argc:
        return dict(ctx, kind="arg", n=l, proj=proj)
    ds = [x for x in f.defs.get(l, []) if x[2] != "partial"]
    if len(ds) != 1:
        return dict(ctx, kind="place", local=l, proj=proj, ndefs=len(ds))
    b, i, kind, payload = ds[0]
    if kind == "call":
        return dict(ctx, kind="call", call=mir.Call(b, payload), proj=proj)
    rv = payload
    k = rv["k"]
    if k == "use":
        o = rv["o"]
        if "c" in o:
            r = dict(ctx, kind="const", proj=proj, sp=f.stmts(b)[i]["sp"])
            for kk in ("v", "def", "ty", "s"):
                if kk in o:
                    r[kk] = o[kk]
            if "v" in r:
                r["v"] = int(r["v"])
            return r
        p = o.get("cp") or o.get("mv")
        return _trace_place(f, p["l"], list(p.get("p", [])) + proj, depth - 1, ctx)
    if k in ("ref", "rawptr"):
        inner = rv["p"]
        return _trace_place(f, inner["l"], list(inner.get("p", [])) + ["&"] + proj, depth - 1, ctx)
    if k == "cast":
        return trace_with(f, rv["o"], proj, depth - 1, ctx)
    if k == "agg" and "tuple" in rv and proj and re.fullmatch(r"\.\d+", proj[0]):
        idx = int(proj[0][1:])
        if idx < len(rv["ops"]):
            return trace_with(f, rv["ops"][idx], proj[1:], depth - 1, dict(ctx, tuple_idx=idx))
    if k == "bin":
        return dict(ctx, kind="bin", op=rv["op"], a=trace(f, rv["a"], depth - 1), b=trace(f, rv["b"], depth - 1),
                    bb=b)
    if k == "un":
        return dict(ctx, kind="un", op=rv["op"], a=trace(f, rv["a"], depth - 1))
    if k == "agg":
        return dict(ctx, kind="agg", rv=rv, proj=proj)
    return {"kind": "unknown", "rv": k}


def trace_with(f, op, proj, depth, ctx):
    if "c" in op:
        return dict(trace(f, op), **ctx)
    p = op.get("cp") or op.get("mv")
    if p is None:
        return {"kind": "unknown"}
    return _trace_place(f, p["l"], list(p.get("p", [])) + list(proj), depth, ctx)


class Syn:
    """assert_eq!/assert_ne! operands, looked up in the syntax tree by (file, span)."""

    def __init__(self, crate):
        self.crate = crate
        self.cache = {}

    def _macros(self, relfile):
        if relfile not in self.cache:
            p = os.path.join(facts.syn_dir(), relfile.replace("/", "__") + ".json")
            out = []
            if os.path.exists(p):
                def walk(n):
                    if isinstance(n, dict):
                        if n.get("k") == "macro" and n.get("name") in ASSERT_MACROS:
                            out.append(n)
                        for v in n.values():
                            walk(v)
                    elif isinstance(n, list):
                        for v in n:
                            walk(v)
                walk(json.load(open(p)))
            self.cache[relfile] = out
        return self.cache[relfile]

    def eval(self, e):
        """Constant value of a syntax-tree expression built from crate constants, integer literals and | & << >> + -."""
        k = e.get("k")
        if k == "int":
            try:
                return int(str(e["v"]).replace("_", ""), 0)
            except ValueError:
                return None
        if k == "path":
            name = e["path"].split("::")[-1].strip()
            try:
                return self.crate.const(name)
            except mir.AnchorMissing:
                return None
        if k == "binary":
            a, b = self.eval(e["l"]), self.eval(e["r"])
            if a is None or b is None:
                return None
            op = e["op"]
            try:
                return {"|": a | b, "&": a & b, "<<": (a << b) & 0xffffffff, ">>": a >> b, "+": a + b, "-": a - b,
                        "^": a ^ b}.get(op)
            except Exception:
                return None
        if k in ("paren", "group") and "e" in e:
            return self.eval(e["e"])
        if k == "cast" and "e" in e:
            return self.eval(e["e"])
        return None

    def promoted_value(self, o):
        """Value of a promoted constant operand of an assert_eq!-style macro (o: trace() result)."""
        sp = o.get("sp")
        if not sp:
            return None
        want = [sp["l"], sp["c"], sp["el"], sp["ec"]]
        ms = [m for m in self._macros(sp["f"]) if m.get("sp") == want]
        if len(ms) != 1:
            return None
        args = ms[0].get("args", [])
        idx = o.get("tuple_idx")
        if idx is not None and idx < len(args):
            return self.eval(args[idx])
        vals = [v for v in (self.eval(a) for a in args[:2]) if v is not None]
        return vals[0] if len(vals) == 1 else None


def const_value(o, syn):
    """integer a traced operand is known to hold: MIR constant, or promoted constant resolved via the syntax tree."""
    if o.get("kind") != "const":
        return None
    if "v" in o and not [x for x in o.get("proj", []) if x not in ("*", "&")]:
        return o["v"]
    if "def" in o:
        return syn.promoted_value(o)
    return None


def is_call(o, call):
    return o.get("kind") == "call" and o["call"].bb == call.bb


def eq_tests(f):
    """switches deciding `a == b` / `a != b`: list of dict(bb, a, b, eq, ne) with the targets of both outcomes."""
    out = []
    for b, t in f.switches():
        o = trace(f, t["d"])
        neg = False
        while o.get("kind") == "un" and o.get("op") == "Not":
            o = o["a"]
            neg = not neg
        if o.get("kind") == "bin" and o.get("op") in ("Eq", "Ne"):
            tg = f.switch_targets(b)
            ft, tt = tg.get(0), tg["else"]
            if ft is None:
                continue
            if (o["op"] == "Eq") != neg:
                out.append(dict(bb=b, a=o["a"], b=o["b"], eq=tt, ne=ft))
            else:
                out.append(dict(bb=b, a=o["a"], b=o["b"], eq=ft, ne=tt))
    return out


def eq_tests_on_call(f, call, syn):
    """eq tests one side of which is the result of `call`; adds `k` = constant on the other side (None if unknown)."""
    out = []
    for e in eq_tests(f):
        for x, y in ((e["a"], e["b"]), (e["b"], e["a"])):
            if is_call(x, call) and not [p for p in x.get("proj", []) if p not in ("*", "&")]:
                out.append(dict(e, k=const_value(y, syn), other=y))
                break
    return out


def field_bool_switches(f, field):
    """switches on a bool read from a place ending in `.field`: list of (bb, false_target, true_target)."""
    out = []
    for b, t in f.switches():
        o = trace(f, t["d"])
        neg = False
        while o.get("kind") == "un" and o.get("op") == "Not":
            o = o["a"]
            neg = not neg
        pr = [x for x in o.get("proj", []) if x not in ("&", "*")]
        if o.get("kind") in ("arg", "place", "call") and pr and pr[-1] == "." + field:
            tg = f.switch_targets(b)
            ft, tt = tg.get(0), tg["else"]
            if ft is None:
                continue
            if neg:
                ft, tt = tt, ft
            out.append((b, ft, tt))
    return out


def on_field(f, operand, field):
    o = f.origin(operand)
    return ("." + field) in o.get("proj", []) or ("." + field) in o.get("place", "")


def _direct_sleep_ops(f):
    """atomic calls whose receiver is `.sleep_state`: list of (method, Call, constant-argument-or-None)."""
    out = []
    for call in f.calls():
        m = None
        for n in call.names():
            mm = A_ANY.search(n)
            if mm:
                m = mm.group(3)
        if m is None or not call.args or m == "new":
            continue
        if not on_field(f, call.args[0], "sleep_state"):
            continue
        v = None
        if len(call.args) > 1:
            o = f.origin(call.args[1])
            if o.get("kind") == "const" and "v" in o:
                v = o["v"]
        out.append((m, call, v))
    return out


def sleep_setters(c):
    """INLINE VIEW, part 1: same-crate accessor functions that do nothing to sleep_state but store one of their own
    parameters into it, on every path to their return.  {npath: (Fn, parameter number)}.  A call to such a function
    is treated by sleep_ops() as `store(<origin of that argument at the call site>)` in the calling block."""
    cached = getattr(c, "_c23_setters", None)
    if cached is not None:
        return cached
    out = {}
    for h in c.fns.values():
        ops = _direct_sleep_ops(h)
        if not ops or any(m != "store" for m, _, _ in ops):
            continue
        params = set()
        for m, call, v in ops:
            o = h.origin(call.args[1]) if len(call.args) > 1 else {}
            if o.get("kind") == "arg" and not o.get("proj"):
                params.add(o["n"])
            else:
                params.add(None)
        if len(params) != 1 or None in params:
            continue
        blocks = [call.bb for _, call, _ in ops]
        if not h.returns() or not every_return_passes(h, blocks) or any(h.in_cycle(b) for b in blocks):
            continue
        # the receiver must be the sleep_state reached from the function's own `self`
        if not all(h.origin(call.args[0]).get("kind") in ("arg", "call") for _, call, _ in ops):
            continue
        out[h.npath] = (h, params.pop())
    c._c23_setters = out
    return out


def setter_of(c, call):
    st = sleep_setters(c)
    for n in call.names():
        hit = st.get(mir.norm(n))
        if hit:
            return hit
    return None


def sleep_ops(f):
    """operations on `.sleep_state` in f: the direct atomic calls plus, through the inline view, calls to a setter
    accessor (reported as a `store` of the argument's constant at the call block)."""
    out = _direct_sleep_ops(f)
    c = f.crate
    for call in f.calls():
        hit = setter_of(c, call)
        if not hit or hit[0].path == f.path:
            continue
        h, n = hit
        v = None
        if len(call.args) >= n:
            o = f.origin(call.args[n - 1])
            if o.get("kind") == "const" and "v" in o:
                v = o["v"]
        out.append(("store", call, v))
    out.sort(key=lambda t: t[1].bb)
    return out


def code_builders(c):
    """INLINE VIEW, part 2: same-crate functions that on every path return one and the same CallbackCode variant
    built by themselves.  {npath: variant}."""
    cached = getattr(c, "_c23_builders", None)
    if cached is not None:
        return cached
    out = {}
    for h in c.fns.values():
        ags = h.aggregates("CallbackCode")
        if not ags or not h.returns():
            continue
        vs = {rv["var"] for _, _, rv, _ in ags}
        if len(vs) != 1:
            continue
        if any(st["p"]["l"] != 0 or st["p"].get("p") for _, _, _, st in ags):
            continue
        if not every_return_passes(h, [b for b, _, _, _ in ags]):
            continue
        # nobody else writes the return place
        others = [1 for b in h.live for st in h.stmts(b) if st["k"] == "=" and st["p"]["l"] == 0 and
                  st["rv"]["k"] != "agg"]
        others += [1 for x in h.calls() if x.dest.get("l") == 0]
        if others:
            continue
        out[h.npath] = vs.pop()
    c._c23_builders = out
    return out


def codes_built(f):
    """[(bb, variant)] CallbackCode values built in f: aggregates, plus calls to a one-variant builder."""
    out = [(b, rv["var"]) for b, i, rv, s in f.aggregates("CallbackCode")]
    bl = code_builders(f.crate)
    for call in f.calls():
        for n in call.names():
            v = bl.get(mir.norm(n))
            if v and mir.norm(n) != f.npath:
                out.append((call.bb, v))
                break
    return out


def sleep_refs(f):
    """statements taking the address of a `.sleep_state` field."""
    n = 0
    for b in sorted(f.live):
        for s in f.stmts(b):
            if s["k"] == "=" and s["rv"]["k"] in ("ref", "rawptr"):
                pr = s["rv"]["p"].get("p", [])
                if pr and pr[-1] == ".sleep_state":
                    n += 1
    return n


def ret_consts(f):
    """[(bb, value)] for assignments of a MIR constant to the return place; value None when not a constant."""
    out = []
    for b in sorted(f.live):
        for s in f.stmts(b):
            if s["k"] == "=" and s["p"]["l"] == 0 and not s["p"].get("p"):
                rv = s["rv"]
                v = None
                if rv["k"] == "use" and "c" in rv["o"] and "v" in rv["o"]:
                    v = int(rv["o"]["v"])
                out.append((b, v))
    return out


def between(f, a, b):
    """blocks strictly after `a` on some path a -> b that does not come back to `a`."""
    fr = set()
    for s in f.succ[a]:
        fr |= f.reachable(s, avoid=[a])
    return {x for x in fr if b in f.reachable(x, avoid=[a])}


def handle_accessors(c, pat):
    """INLINE VIEW, part 3: same-crate accessors that on every path return `self.<field>...handle()`, i.e. exactly one
    call matching `pat` whose result is the return value and whose receiver is a field path of the first parameter.
    {npath: (Fn, inner handle Call)}."""
    key = "_c23_hacc_" + pat
    cached = getattr(c, key, None)
    if cached is not None:
        return cached
    out = {}
    for h in c.fns.values():
        if h.argc != 1:
            continue
        hs = h.calls(pat)
        if len(hs) != 1 or not h.returns() or not every_return_passes(h, [hs[0].bb]) or h.in_cycle(hs[0].bb):
            continue
        rv = h.place_origin({"l": 0})
        if not (hs[0].dest.get("l") == 0 or (rv.get("kind") == "call" and rv["call"].bb == hs[0].bb
                                             and not rv.get("proj"))):
            continue
        if [1 for b in h.live for st in h.stmts(b) if st["k"] == "=" and st["p"]["l"] == 0]:
            continue
        out[h.npath] = (h, hs[0])
    setattr(c, key, out)
    return out


def _accessor_of(f, call, pat):
    for n in call.names():
        hit = handle_accessors(f.crate, pat).get(mir.norm(n))
        if hit and hit[0].path != f.path:
            return hit
    return None


def handle_site(f, operand, pat):
    """bb of the `handle()` call an operand's value comes from, directly or through a one-line accessor of the same
    crate (None if it is something else).  One call site = one handle value."""
    o = f.origin(operand)
    if o.get("kind") == "call" and not [x for x in o.get("proj", []) if x not in ("&", "*")]:
        if o["call"].matches(pat) or _accessor_of(f, o["call"], pat):
            return o["call"].bb
    return None


def handle_on_field(f, bb, pat, field, via=None):
    """the handle obtained at block bb is that of `<...>.field` (directly, or through an accessor called on a receiver
    reached through `.via` whose body reads `self.field`)."""
    for y in f.calls():
        if y.bb != bb or not y.args:
            continue
        if y.matches(pat):
            return _via_option_of_field(f, y.args[0], field)
        acc = _accessor_of(f, y, pat)
        if acc:
            h, inner = acc
            o = trace(h, inner.args[0])
            seen = 0
            while o.get("kind") == "call" and seen < 6 and o["call"].args and \
                    o["call"].matches(["Option::as_mut", "Option::as_ref", "Option::unwrap", "Option::as_deref_mut"]):
                o = trace(h, o["call"].args[0])
                seen += 1
            pr = [x for x in o.get("proj", []) if x not in ("&", "*")]
            ok = o.get("kind") == "arg" and o.get("n") == 1 and pr == ["." + field]
            return ok and (via is None or _from_field(f, y.args[0], via))
    return False


def short(f):
    return re.sub(r"<[^<>]*>", "", f.npath).split("::")[-1] if not f.npath.endswith("}") else \
        "::".join(f.npath.split("::")[-2:])


RULES = {
    "R23.1": "wake_by_ref: one swap(WOKEN); previous POLLING/WOKEN => no stream write and a normal return; previous "
             "SLEEPING => WakerState::wake on every path (one site, no loop); SLEEP_STATE_* distinct; sleep_state only "
             "receives these constants, only from callback / Drop for TaskState / wake_by_ref, SLEEPING only from "
             "callback's closure; Wake::wake forwards to wake_by_ref.",
    "R23.2": "cancel_inter_task_stream_read: no pending read => no effect; otherwise stream_reading := false, "
             "remove_waitable_from_all_sets (= waitable.join(w, 0)) dominates the single cancel_read, same handle.",
    "R23.3": "read_inter_task_stream: start_read only under !stream_reading, one item, result asserted BLOCKED, then "
             "stream_reading := true and add_waitable(same handle); the stream pair is created once, both ends kept.",
    "R23.4": "TaskState::callback: cancel dominates every poll_next; no poll after the read; store(SLEEPING) is guarded "
             "by load() != WOKEN taken after the poll, is the last store before the read and always leads to read + "
             "Wait; a wake seen after the poll leads to Yield / re-poll; deliver / cancel run under a non-SLEEPING "
             "state; Drop for TaskState cancels before the futures are dropped.",
    "R23.5": "consume_waitable_event clears stream_reading and returns true exactly on a handle match; "
             "deliver_waitable_event removes the waitable from the sets first and does not forward a consumed event; "
             "WakerState::wake writes one item to the stored writer and asserts COMPLETED | (1 << 4).",
    "R23.6": "a task is never destroyed while sleep_state still says SLEEPING (Drop resets the state before cancelling "
             "the read, or every Exit path of callback does).",
    "R23.7": "UnitStreamOps::{start_read,start_write,cancel_read} forward unchanged to the matching built-ins; the "
             "built-ins, the three operations and the stream_reading flag have no other users.",
    "R23.8": "the futures are polled with a Context made from the task's own waker, itself a clone of its "
             "SharedTaskState.",
    "R23.D": "without the cargo feature: the stubs are inert, consume returns false, WakerState::wake never returns, "
             "sleeping on Rust-only events traps.",
}


# ----------------------------------------------------------------------------------------------------------------
def run(rep, tier):
    rep.describe(
        "other",
        "Decides structural necessary conditions of C23 on the MIR of the runtime crate. wake_by_ref: a single "
        "swap(WOKEN) on sleep_state; with the swap result assumed POLLING or WOKEN the wakeup-stream write is "
        "unreachable and the function returns, with SLEEPING every path writes (WakerState::wake, one site, no loop); "
        "sleep_state is only touched by load/store/swap in callback's closure and wake_by_ref and only ever receives "
        "the three pairwise-distinct SLEEP_STATE constants. read_inter_task_stream starts the read only when none is "
        "pending (count 1), asserts BLOCKED, records stream_reading and joins the set with the same handle; "
        "cancel_inter_task_stream_read is a no-op without a pending read, else clears the flag, leaves every set and "
        "only then cancels (same handle); consume_waitable_event clears the flag exactly on a handle match; "
        "WakerState::wake writes one item and asserts COMPLETED|(1<<4); UnitStreamOps forwards to the matching "
        "built-ins, which nobody else calls. In TaskState::callback the cancel dominates every poll, nothing polls "
        "after the read was started, the SLEEPING store is guarded by `load() != WOKEN` taken after the poll, is the "
        "last store before the read and always leads to read + Wait, a wake seen after the poll leads to Yield / "
        "re-poll; Drop for TaskState cancels first; a task is not destroyed while its state still says SLEEPING. "
        "Without the cargo feature the stubs are inert and WakerState::wake never returns. NOT decided: behaviour "
        "under a concrete interleaving, the host's stream semantics, wakers used after their task is gone beyond "
        "R23.6, third-party use of the public UnitStreamOps type.",
        trusted_base=["rustc nightly MIR (opt-level 0) of crates/guest-rust", "unwind edges ignored (panic = trap)",
                      "tools/mirfacts", "tools/synfacts (operands of assert_eq!, joined by exact span)"],
        assumptions=["native (x86_64) build of the runtime: extern_wasm! built-ins appear as shim functions",
                     "the constant names inside assert_eq! resolve to the crate-level constants of the same name"],
    )
    for rid, text in RULES.items():
        rep.rule(rid, text)
    for cfg in configs(tier):
        rep.guard("R23", f"config:{cfg}", lambda cfg=cfg: one(rep, rt(cfg), cfg))


def one(rep, c, cfg):
    tag = f"[{cfg}]"
    feature = cfg in FEATURE_CFG
    syn = Syn(c)

    def K(name):
        return c.const(name)

    # ------------------------------------------------------------------ R23.1 wake_by_ref + state domain
    def r1():
        POLLING, WOKEN, SLEEPING = K("SLEEP_STATE_POLLING"), K("SLEEP_STATE_WOKEN"), K("SLEEP_STATE_SLEEPING")
        rep.ob("R23.1", f"SLEEP_STATE_* constants pairwise distinct {tag}", len({POLLING, WOKEN, SLEEPING}) == 3,
               f"POLLING={POLLING} WOKEN={WOKEN} SLEEPING={SLEEPING}")
        names = {POLLING: "POLLING", WOKEN: "WOKEN", SLEEPING: "SLEEPING"}
        f = c.method("SharedTaskState", "wake_by_ref", trait="Wake")
        rep.saw(f)
        ops = sleep_ops(f)
        swaps = [(call, v) for m, call, v in ops if m == "swap"]
        rep.floor("R23.1", f"sleep_state.swap sites in wake_by_ref {tag}", len(swaps), 1)
        rep.ob("R23.1", f"wake_by_ref: exactly one atomic operation on sleep_state, a swap {tag}",
               len(ops) == 1 and len(swaps) == 1, f"{[(m, v) for m, _, v in ops]}", f.loc())
        wakes = f.calls("WakerState::wake")
        rep.floor("R23.1", f"WakerState::wake sites in wake_by_ref {tag}", len(wakes), 1)
        rep.ob("R23.1", f"wake_by_ref: exactly one WakerState::wake site {tag}", len(wakes) == 1, f"{len(wakes)} sites",
               f.loc())
        if len(swaps) != 1 or len(wakes) != 1:
            return
        sw, v = swaps[0]
        w = wakes[0]
        rep.ob("R23.1", f"wake_by_ref: swaps in SLEEP_STATE_WOKEN {tag}", v == WOKEN, f"swaps in {v}", f.loc(sw.bb))
        rep.ob("R23.1", f"wake_by_ref: swap and stream write are not in a loop {tag}",
               not f.in_cycle(sw.bb) and not f.in_cycle(w.bb), "", f.loc(w.bb))
        rep.ob("R23.1", f"wake_by_ref: the swap precedes the stream write {tag}", f.dominates(sw.bb, w.bb), "",
               f.loc(w.bb))
        tests = eq_tests_on_call(f, sw, syn)
        unresolved = [e for e in tests if e["k"] is None]
        rep.ob("R23.1", f"wake_by_ref: every comparison of the previous state is against a known constant {tag}",
               not unresolved, "an ==/!= test of the swap result has an operand that could not be resolved",
               f.loc(unresolved[0]["bb"]) if unresolved else f.loc())

        def infeasible(val):
            bad = []
            for b, t in f.switches():
                o = trace(f, t["d"])
                if is_call(o, sw) and not [p for p in o.get("proj", []) if p not in ("*", "&")]:
                    tg = f.switch_targets(b)
                    taken = tg.get(val, tg["else"])
                    bad += [(b, s) for s in f.succ[b] if s != taken]
            for e in tests:
                if e["k"] is None:
                    continue
                taken = e["eq"] if val == e["k"] else e["ne"]
                bad += [(e["bb"], s) for s in f.succ[e["bb"]] if s != taken]
            return bad

        rets = set(f.returns())
        for val in (POLLING, WOKEN):
            r = f.reachable(sw.bb, avoid_edges=infeasible(val))
            rep.ob("R23.1", f"wake_by_ref: previous state {names[val]} => no wakeup-stream write {tag}",
                   w.bb not in r, "WakerState::wake is reachable although the task is being polled / already woken "
                   "(a duplicate item would be written)", f.loc(w.bb))
            rep.ob("R23.1", f"wake_by_ref: previous state {names[val]} => returns normally {tag}", bool(r & rets),
                   "waking a task that is polled / already woken traps", f.loc(sw.bb))
        bad = infeasible(SLEEPING)
        r = f.reachable(sw.bb, avoid_edges=bad)
        rep.ob("R23.1", f"wake_by_ref: previous state SLEEPING => reaches WakerState::wake {tag}", w.bb in r,
               "the wakeup of a sleeping task is dropped (or trapped) before the stream write", f.loc(w.bb))
        r2 = f.reachable(sw.bb, avoid=[w.bb], avoid_edges=bad)
        rep.ob("R23.1", f"wake_by_ref: previous state SLEEPING => no return without WakerState::wake {tag}",
               not (r2 & rets), "a path returns without signalling the sleeping task", f.loc(sw.bb))
        # Wake::wake (by value) forwards
        g = c.method("SharedTaskState", "wake", trait="Wake")
        rep.saw(g)
        fw = g.call_blocks("wake_by_ref")
        rep.ob("R23.1", f"Wake::wake forwards to wake_by_ref on every path {tag}",
               bool(fw) and every_return_passes(g, fw), "", g.loc())

        # state domain / who may touch sleep_state
        # the task's own code runs only inside callback (and its closure) or while it is destroyed
        allowed_fns = {f.path}
        owners = [c.method("TaskState", "callback"), c.fn("TaskState as core::ops::Drop>::drop")]
        for own in owners:
            allowed_fns.add(own.path)
            for cl in c.closures_of(own):
                allowed_fns.add(cl.path)
        sleepers = {cl.path for cl in c.closures_of(owners[0])}
        nsites = 0
        for h in c.fns.values():
            hops = sleep_ops(h)
            nref = sleep_refs(h)
            if not hops and not nref:
                continue
            nm = short(h)
            if h.npath in sleep_setters(c):
                # an accessor that only stores its parameter: judged at its call sites (inline view); every caller
                # must itself be allowed to touch the state
                rep.saw(h)
                callers = [g for g in c.fns.values() if g.path != h.path and
                           any(setter_of(c, x) and setter_of(c, x)[0].path == h.path for x in g.calls())]
                outside = [short(g) for g in callers if g.path not in allowed_fns]
                rep.ob("R23.1", f"sleep_state accessor {nm} is called only by callback, Drop for TaskState and "
                       f"wake_by_ref {tag}", bool(callers) and not outside,
                       f"called from {outside}" if outside else "no caller found", h.loc())
                rep.ob("R23.1", f"every reference to sleep_state in {nm} feeds a recognised atomic operation {tag}",
                       nref == len(_direct_sleep_ops(h)), "", h.loc())
                continue
            rep.ob("R23.1", f"sleep_state touched only by callback, Drop for TaskState and wake_by_ref: {nm} {tag}",
                   h.path in allowed_fns, "another function reads or writes the sleep state", h.loc())
            rep.ob("R23.1", f"every reference to sleep_state in {nm} feeds a recognised atomic operation {tag}",
                   nref == len(_direct_sleep_ops(h)),
                   f"{nref} reference(s), {len(_direct_sleep_ops(h))} atomic operation(s)", h.loc())
            for m, call, val in hops:
                nsites += 1
                if m == "load":
                    continue
                rep.ob("R23.1", f"sleep_state.{m}({names.get(val, 'other')}) in {nm} writes a SLEEP_STATE constant {tag}",
                       m in ("store", "swap") and val in names and (val != SLEEPING or h.path in sleepers),
                       f"{m}({val}) is not a store/swap of POLLING/WOKEN (or of SLEEPING inside callback's closure)",
                       h.loc(call.bb))
        rep.floor("R23.1", f"atomic operations on sleep_state {tag}", nsites, 5)
        # initial value
        nw = c.method("TaskState", "new")
        rep.saw(nw)
        ags = nw.aggregates("SharedTaskState")
        rep.floor("R23.1", f"SharedTaskState construction sites in TaskState::new {tag}", len(ags), 1)
        for b, i, rv, s in ags:
            idx = rv.get("fields", []).index("sleep_state") if "sleep_state" in rv.get("fields", []) else None
            o = nw.origin(rv["ops"][idx]) if idx is not None else {}
            iv = None
            if o.get("kind") == "call" and o["call"].matches(A_NEW):
                a0 = nw.origin(o["call"].args[0])
                iv = a0.get("v") if a0.get("kind") == "const" else None
            rep.ob("R23.1", f"TaskState::new initialises sleep_state with a non-SLEEPING SLEEP_STATE constant {tag}",
                   iv in (POLLING, WOKEN), f"initial value {iv}", nw.loc(b))
    rep.guard("R23.1", f"wake_by_ref {tag}", r1)

    # ------------------------------------------------------------------ R23.4 callback closure / Drop
    def closure():
        cb = c.method("TaskState", "callback")
        rep.saw(cb)
        cls = [g for g in c.closures_of(cb) if g.calls("Tasks::poll_next")]
        if len(cls) != 1:
            raise mir.AnchorMissing(f"closure of TaskState::callback that polls: {len(cls)} matches")
        return cb, cls[0]

    def r4():
        POLLING, WOKEN, SLEEPING = K("SLEEP_STATE_POLLING"), K("SLEEP_STATE_WOKEN"), K("SLEEP_STATE_SLEEPING")
        cb, f = closure()
        rep.saw(f)
        polls = f.call_blocks("Tasks::poll_next")
        cancels = f.call_blocks(CANCEL_FN)
        reads = f.call_blocks(READ_FN)
        delivers = f.call_blocks("TaskState::deliver_waitable_event")
        ops = sleep_ops(f)
        st_sleep = [call.bb for m, call, v in ops if m in ("store", "swap") and v == SLEEPING]
        st_other = [call.bb for m, call, v in ops if m in ("store", "swap") and v != SLEEPING]
        loads = [call for m, call, v in ops if m == "load"]
        rets = set(f.returns())
        rep.floor("R23.4", f"poll_next sites in callback {tag}", len(polls), 1)
        rep.floor("R23.4", f"cancel_inter_task_stream_read sites in callback {tag}", len(cancels), 1)
        rep.floor("R23.4", f"read_inter_task_stream sites in callback {tag}", len(reads), 1)
        rep.floor("R23.4", f"deliver_waitable_event sites in callback {tag}", len(delivers), 2)
        rep.floor("R23.4", f"store(SLEEPING) sites in callback {tag}", len(st_sleep), 1)
        rep.floor("R23.4", f"non-SLEEPING stores in callback {tag}", len(st_other), 2)
        for p in polls:
            rep.ob("R23.4", f"callback: cancel_inter_task_stream_read dominates poll_next {tag}",
                   f.set_dominates(set(cancels), p), "the task can be polled while the wakeup read is still pending",
                   f.loc(p))
        for r in reads:
            rep.ob("R23.4", f"callback: no poll after read_inter_task_stream without a cancel {tag}",
                   not (set(polls) & f.reachable(r, avoid=cancels)),
                   "the task is polled again while the freshly started read is pending", f.loc(r))
            rep.ob("R23.4", f"callback: store(SLEEPING) dominates read_inter_task_stream {tag}",
                   f.set_dominates(set(st_sleep), r), "a read is started although the state does not say SLEEPING: "
                   "wake_by_ref would not write to the stream", f.loc(r))
            bad = [x for x in st_other if r in f.reachable(x, avoid=st_sleep)]
            rep.ob("R23.4", f"callback: SLEEPING is the last state stored before read_inter_task_stream {tag}", not bad,
                   "another state is stored between store(SLEEPING) and the read", f.loc(bad[0]) if bad else f.loc(r))
            ag = [(b, v) for b, v in codes_built(f) if b in f.reachable(r)]
            rep.ob("R23.4", f"callback: after read_inter_task_stream the task returns Wait {tag}",
                   bool(ag) and all(v == "Wait" for _, v in ag), f"codes built after the read: {sorted({v for _, v in ag})}",
                   f.loc(r))
        for s in st_sleep:
            rep.ob("R23.4", f"callback: store(SLEEPING) always leads to read_inter_task_stream {tag}",
                   bool(reads) and f.all_paths_pass(s, rets, reads) and bool(f.reachable(s) & rets),
                   "the task can go to sleep in state SLEEPING with no read pending: the waker's write would block",
                   f.loc(s))
            user = set(polls) | set(delivers) | {x.bb for x in ind_calls(f)}
            rep.ob("R23.4", f"callback: nothing is polled or delivered in state SLEEPING {tag}",
                   not (user & f.reachable(s)), "user code runs after store(SLEEPING)", f.loc(s))
            # guarded by load() != WOKEN taken after the poll
            ok = False
            why = "store(SLEEPING) is not guarded by `sleep_state.load() != SLEEP_STATE_WOKEN`"
            for ld in loads:
                for e in eq_tests_on_call(f, ld, syn):
                    if e["k"] == WOKEN and s in f.edge_region(e["bb"], e["ne"]):
                        mid = between(f, ld.bb, s)
                        if (set(polls) | set(delivers) | {y.bb for y in ind_calls(f)}) & mid:
                            why = "user code runs between the load and store(SLEEPING): a wake in between is overwritten"
                            continue
                        if not f.set_dominates(set(polls), ld.bb):
                            why = "the load is not preceded by the poll"
                            continue
                        ok = True
                        # wake seen after the poll: Yield or poll again, never sleep / exit
                        reg = f.reachable(e["eq"], avoid=polls)
                        ag = [v for b, v in codes_built(f) if b in reg]
                        rep.ob("R23.4", f"callback: woken during the poll => Yield or poll again, never Wait/Exit {tag}",
                               all(v == "Yield" for v in ag) and not (set(reads) & reg),
                               f"codes built on the woken path: {sorted(set(ag))}", f.loc(e["bb"]))
            rep.ob("R23.4", f"callback: store(SLEEPING) only when no wake arrived during the poll {tag}", ok, why, f.loc(s))
        rep.floor("R23.4", f"sleep_state.load sites in callback {tag}", len(loads), 1)
        for x in delivers + cancels:
            kind = ("deliver_waitable_event " + ("(in the poll loop)" if f.in_cycle(x) else "(before the poll loop)")) \
                if x in delivers else CANCEL_FN
            rep.ob("R23.4", f"callback: {kind} runs under a non-SLEEPING state {tag}",
                   f.set_dominates(set(st_other), x) and not any(x in f.reachable(s) for s in st_sleep),
                   "the pending read can be consumed / cancelled while wake_by_ref would still write to the stream",
                   f.loc(x))
        # outer function: only the closure decides Wait / Yield
        ag = [v for b, v in codes_built(cb)]
        rep.ob("R23.4", f"callback: outside the polling closure only Exit is returned {tag}",
               all(v == "Exit" for v in ag), f"{sorted(set(ag))}", cb.loc())
        # Drop for TaskState
        d = c.fn("TaskState as core::ops::Drop>::drop")
        rep.saw(d)
        dc = d.call_blocks(CANCEL_FN)
        rep.floor("R23.4", f"cancel_inter_task_stream_read sites in Drop for TaskState {tag}", len(dc), 1)
        # everything that can run the task's futures / destructors: the p3-task scope, indirect calls, explicit drops
        sinks = [(x.bb, mir.norm(x.callee).split("::")[-1]) for x in d.calls()
                 if x.ind is not None or x.matches(["TaskState::with_p3_task_set", "mem::drop", "mem::take", "mem::replace",
                                                    "ptr::drop_in_place", "ManuallyDrop::drop"])]
        sinks += [(b, "drop " + t["ty"].split("<")[0].split("::")[-1]) for b, t in d.drops()]
        for cl in c.closures_of(d):
            rep.saw(cl)
            rep.ob("R23.4", f"Drop for TaskState: closures do not start or cancel reads themselves {tag}",
                   not cl.calls([READ_FN]), "", cl.loc())
        late = [(b, n) for b, n in sinks if not d.set_dominates(set(dc), b)]
        rep.floor("R23.4", f"points in Drop for TaskState that run destructors {tag}", len(sinks), 1)
        rep.ob("R23.4", f"Drop for TaskState: the cancel comes before the futures are dropped and on every path {tag}",
               bool(dc) and not late and every_return_passes(d, dc),
               f"not preceded by the cancel: {[n for _, n in late]}", d.loc(late[0][0]) if late else d.loc())
    rep.guard("R23.4", f"callback/drop {tag}", r4)

    # ------------------------------------------------------------------ R23.5a deliver_waitable_event (all configs)
    def r5a():
        f = c.method("TaskState", "deliver_waitable_event")
        rep.saw(f)
        cons = f.calls("State::consume_waitable_event")
        rep.floor("R23.5", f"consume_waitable_event sites in deliver_waitable_event {tag}", len(cons), 1)
        rm = f.call_blocks(RM_SETS)
        for x in cons:
            rep.ob("R23.5", f"deliver: the waitable leaves every set before consume_waitable_event {tag}",
                   f.set_dominates(set(rm), x.bb), "", f.loc(x.bb))
            rep.ob("R23.5", f"deliver: consume_waitable_event receives the delivered waitable {tag}",
                   len(x.args) >= 2 and f.origin(x.args[1]).get("kind") == "arg" and f.origin(x.args[1]).get("n") == 2,
                   "", f.loc(x.bb))
        sws = bool_switches_on_call(f, "State::consume_waitable_event")
        rep.floor("R23.5", f"tests of consume_waitable_event's result {tag}", len(sws), 1)
        cbs = {x.bb for x in ind_calls(f)} | set(f.call_blocks("BTreeMap::remove"))
        for b, ft, tt in sws:
            reg = f.reachable(tt)
            rep.ob("R23.5", f"deliver: a consumed wakeup event is not forwarded to a registered callback {tag}",
                   not (cbs & reg) and bool(reg & set(f.returns())), "", f.loc(b))
        # the closure hands (waitable, code) = (event1, event2) to deliver_waitable_event, in this order
        cb, g = closure()
        caps = [rv for b in sorted(cb.live) for st in cb.stmts(b) if st["k"] == "=" and st["rv"]["k"] == "agg"
                for rv in [st["rv"]] if rv.get("closure") == g.path]

        def outer_arg(o):
            """callback's parameter a captured-by-reference upvar of the closure stands for"""
            pr = o.get("proj", [])
            if o.get("kind") != "arg" or o.get("n") != 1 or not pr or not re.fullmatch(r"\.\d+", pr[0]) or len(caps) != 1:
                return None
            k = int(pr[0][1:])
            if k >= len(caps[0]["ops"]):
                return None
            oo = cb.origin(caps[0]["ops"][k])
            return oo.get("n") if oo.get("kind") == "arg" else None
        dl = g.calls("TaskState::deliver_waitable_event")
        for x in dl:
            a1, a2 = (g.origin(x.args[1]), g.origin(x.args[2])) if len(x.args) > 2 else ({}, {})
            if a1.get("kind") == "call":
                ok = a1["call"].matches(["WaitableSet::poll", "WaitableSet::wait"]) and a2.get("kind") == "call" and \
                    a2["call"].bb == a1["call"].bb and a1.get("proj") == [".1"] and a2.get("proj") == [".2"]
                src = "the waitable set's poll result"
            else:
                ok = outer_arg(a1) == 3 and outer_arg(a2) == 4
                src = "callback's event1/event2"
            rep.ob("R23.5", f"callback: deliver_waitable_event gets (waitable, code) from {src} in order {tag}", ok,
                   "the wakeup stream's event would not be recognised by its handle", g.loc(x.bb))
    rep.guard("R23.5", f"deliver {tag}", r5a)

    # ------------------------------------------------------------------ R23.8 the poll sees the task's own waker
    def r8():
        nw = c.method("TaskState", "new")
        rep.saw(nw)
        ags = nw.aggregates("TaskState")
        rep.floor("R23.8", f"TaskState construction sites in TaskState::new {tag}", len(ags), 1)
        for b, i, rv, s in ags:
            fl = rv.get("fields", [])
            ok = False
            if "waker" in fl and "shared" in fl:
                w = nw.origin(rv["ops"][fl.index("waker")])
                sh = nw.origin(rv["ops"][fl.index("shared")])
                if w.get("kind") == "call" and w["call"].matches(["Into::into", "From::from"]) and w["call"].args:
                    a = nw.origin(w["call"].args[0])
                    if a.get("kind") == "call" and a["call"].matches(["Clone::clone", "Arc::clone"]) and a["call"].args:
                        src = nw.origin(a["call"].args[0])
                        ok = src.get("kind") == "call" and sh.get("kind") == "call" and \
                            src["call"].bb == sh["call"].bb and src["call"].matches("Arc::new")
            rep.ob("R23.8", f"TaskState::new: the waker is a clone of the task's own SharedTaskState {tag}", ok,
                   "wakeups through the task's waker would not reach its sleep state", nw.loc(b))
        cb, f = closure()
        polls = f.calls("Tasks::poll_next")
        for x in polls:
            ok = False
            if len(x.args) > 1:
                o = f.origin(x.args[1])
                if o.get("kind") == "call" and o["call"].matches("Context::from_waker") and o["call"].args:
                    ok = on_field(f, o["call"].args[0], "waker")
            rep.ob("R23.8", f"callback: poll_next is given a Context made from the task's waker {tag}", ok, "",
                   f.loc(x.bb))
        tk = c.method("Tasks", "poll_next")
        rep.saw(tk)
        inner = tk.calls(["StreamExt::poll_next_unpin", "Future::poll", "Stream::poll_next"])
        rep.floor("R23.8", f"polls of the task's futures in Tasks::poll_next {tag}", len(inner), 1)
        for x in inner:
            o = tk.origin(x.args[1]) if len(x.args) > 1 else {}
            rep.ob("R23.8", f"Tasks::poll_next polls the futures with the Context it was given {tag}",
                   o.get("kind") == "arg" and o.get("n") == 2, "the futures would register a foreign waker",
                   tk.loc(x.bb))
    rep.guard("R23.8", f"own waker {tag}", r8)

    if feature:
        feature_rules(rep, c, cfg, tag, syn, closure)
    else:
        disabled_rules(rep, c, cfg, tag)


def feature_rules(rep, c, cfg, tag, syn, closure):
    def K(name):
        return c.const(name)

    HANDLE_R = "RawStreamReader::handle"
    HANDLE_W = "RawStreamWriter::handle"

    def real(f):
        if "inter_task_wakeup_disabled" in f.path:
            raise mir.AnchorMissing(f"{f.path}: the disabled stub is compiled in a configuration with the feature")
        return f

    # ------------------------------------------------------------------ R23.2 cancel_inter_task_stream_read
    def r2():
        f = real(c.method("TaskState", CANCEL_FN))
        rep.saw(f)
        sws = field_bool_switches(f, "stream_reading")
        rep.floor("R23.2", f"tests of stream_reading in cancel_inter_task_stream_read {tag}", len(sws), 1)
        cr = f.calls(CANCEL_READ)
        rm = f.calls(RM_SETS)
        rep.floor("R23.2", f"cancel_read sites {tag}", len(cr), 1)
        rep.floor("R23.2", f"remove_waitable_from_all_sets sites in cancel_inter_task_stream_read {tag}", len(rm), 1)
        rep.ob("R23.2", f"cancel: exactly one cancel_read site, not in a loop {tag}",
               len(cr) == 1 and not f.in_cycle(cr[0].bb), f"{len(cr)} sites", f.loc())
        rets = set(f.returns())
        effects = [x.bb for x in f.calls() if x.matches([RM_SETS, "SharedTaskState::add_waitable", "WaitableSet::join"])
                   or UNIT_OPS_ANY.search(x.callee) or UNIT_BUILTIN.search(x.callee)]
        stores = f.field_stores("stream_reading")
        for b, ft, tt in sws:
            reg = f.reachable(ft)
            rep.ob("R23.2", f"cancel: no pending read => returns without touching stream or set {tag}",
                   bool(reg & rets) and not (set(effects) & reg) and not [s for sb, _, s in stores if sb in reg],
                   "", f.loc(b))
            rep.ob("R23.2", f"cancel: pending read => cancel_read on every path {tag}",
                   bool(cr) and f.all_paths_pass(tt, rets, [x.bb for x in cr]) and bool(f.reachable(tt) & rets),
                   "a pending read can survive the cancel function", f.loc(b))
            clr = [sb for sb, _, s in stores if f.stores_const(s, 0)]
            rep.ob("R23.2", f"cancel: pending read => stream_reading := false on every path {tag}",
                   bool(clr) and f.all_paths_pass(tt, rets, clr), "", f.loc(b))
        rep.ob("R23.2", f"cancel: every return passes the stream_reading test {tag}",
               bool(sws) and every_return_passes(f, [b for b, _, _ in sws]), "", f.loc())
        rep.ob("R23.2", f"cancel: stream_reading is only ever cleared here {tag}",
               all(f.stores_const(s, 0) for _, _, s in stores) and bool(stores), "", f.loc())
        for x in cr:
            rep.ob("R23.2", f"cancel: remove_waitable_from_all_sets dominates cancel_read {tag}",
                   f.set_dominates({y.bb for y in rm}, x.bb),
                   "stream.cancel-read is reachable while the stream is still a member of a waitable set (traps)",
                   f.loc(x.bb))
            rejoin = [y for y in f.calls(["SharedTaskState::add_waitable", "WaitableSet::join"])]
            rep.ob("R23.2", f"cancel: the stream is not re-joined to a set {tag}", not rejoin, "", f.loc(x.bb))
            h = handle_site(f, x.args[1], HANDLE_R) if len(x.args) > 1 else None
            same = h is not None and any(handle_site(f, y.args[0], HANDLE_R) == h for y in rm if y.args)
            rep.ob("R23.2", f"cancel: set removal and cancel_read use the same reader handle {tag}", same,
                   "the handle removed from the sets is not the handle whose read is cancelled", f.loc(x.bb))
            rep.ob("R23.2", f"cancel: the handle is the inter-task stream's {tag}",
                   h is not None and handle_on_field(f, h, HANDLE_R, "stream", via="inter_task_wakeup"), "", f.loc(x.bb))
        # the helpers really are `waitable.join(w, 0)` / `waitable.join(w, set)`
        h = c.method("WaitableSet", "remove_waitable_from_all_sets")
        rep.saw(h)
        js = h.calls("waitable_set::join")
        ok = len(js) == 1 and every_return_passes(h, [js[0].bb]) and len(js[0].args) == 2
        if ok:
            a0, a1 = h.origin(js[0].args[0]), h.origin(js[0].args[1])
            ok = a0.get("kind") == "arg" and a0.get("n") == 1 and not a0.get("proj") and \
                a1.get("kind") == "const" and a1.get("v") == 0
        rep.ob("R23.2", f"remove_waitable_from_all_sets is waitable.join(waitable, 0) on every path {tag}", ok, "",
               h.loc())
        j = c.method("WaitableSet", "join")
        rep.saw(j)
        js = j.calls("waitable_set::join")
        ok = len(js) == 1 and every_return_passes(j, [js[0].bb]) and len(js[0].args) == 2
        if ok:
            a0 = j.origin(js[0].args[0])
            a1 = j.origin(js[0].args[1])
            ok = a0.get("kind") == "arg" and a0.get("n") == 2 and not a0.get("proj") and \
                not (a1.get("kind") == "const")
        rep.ob("R23.3", f"WaitableSet::join is waitable.join(waitable, this set) on every path {tag}", ok, "", j.loc())
        aw = c.method("SharedTaskState", "add_waitable")
        rep.saw(aw)
        js = aw.calls("WaitableSet::join")
        ok = len(js) == 1 and every_return_passes(aw, [js[0].bb]) and len(js[0].args) == 2
        if ok:
            a1 = aw.origin(js[0].args[1])
            ok = a1.get("kind") == "arg" and a1.get("n") == 2 and not a1.get("proj")
            lk = [y for y in aw.calls("TryLock::try_lock") if _from_field(aw, y.args[0], "waitable_set")]
            ok = ok and bool(lk)
        rep.ob("R23.3", f"add_waitable joins the given waitable to the task's own waitable_set {tag}", ok, "", aw.loc())
    rep.guard("R23.2", f"cancel {tag}", r2)

    # ------------------------------------------------------------------ R23.3 read_inter_task_stream
    def r3():
        BLOCKED = K("BLOCKED")
        f = real(c.method("TaskState", READ_FN))
        rep.saw(f)
        sr = f.calls(START_READ)
        rep.floor("R23.3", f"start_read sites {tag}", len(sr), 1)
        rep.ob("R23.3", f"read: exactly one start_read site, not in a loop {tag}",
               len(sr) == 1 and not f.in_cycle(sr[0].bb), f"{len(sr)} sites", f.loc())
        sws = field_bool_switches(f, "stream_reading")
        rets = set(f.returns())
        stores = f.field_stores("stream_reading")
        sets = [sb for sb, _, s in stores if f.stores_const(s, 1)]
        addw = f.calls("SharedTaskState::add_waitable")
        rep.floor("R23.3", f"add_waitable sites in read_inter_task_stream {tag}", len(addw), 1)
        rep.floor("R23.3", f"stream_reading := true sites {tag}", len(sets), 1)
        for x in sr:
            g = [(b, ft, tt) for b, ft, tt in sws if x.bb in f.edge_region(b, ft)]
            rep.ob("R23.3", f"read: start_read only when no read is pending (stream_reading = false) {tag}", bool(g),
                   "a second read could be started on the wakeup stream", f.loc(x.bb))
            cnt = f.origin(x.args[3]) if len(x.args) > 3 else {}
            rep.ob("R23.3", f"read: start_read asks for exactly one item {tag}",
                   cnt.get("kind") == "const" and cnt.get("v") == 1, f"count operand {cnt.get('v')}", f.loc(x.bb))
            h = handle_site(f, x.args[1], HANDLE_R) if len(x.args) > 1 else None
            rep.ob("R23.3", f"read: start_read is on the inter-task stream's reader handle {tag}",
                   h is not None and handle_on_field(f, h, HANDLE_R, "stream", via="inter_task_wakeup"), "", f.loc(x.bb))
            tests = [e for e in eq_tests_on_call(f, x, syn)]
            good = [e for e in tests if e["k"] == BLOCKED and not (f.reachable(e["ne"]) & rets)]
            rep.ob("R23.3", f"read: the result of start_read is asserted to be BLOCKED {tag}",
                   bool(good) and all(f.all_paths_pass(x.bb, rets, [e["bb"]]) for e in good),
                   f"comparisons found: {[e['k'] for e in tests]}", f.loc(x.bb))
            rep.ob("R23.3", f"read: stream_reading := true on every path after start_read {tag}",
                   bool(sets) and f.all_paths_pass(x.bb, rets, sets) and bool(f.reachable(x.bb) & rets),
                   "the pending read is not recorded: it would never be cancelled", f.loc(x.bb))
            clr = [sb for sb, _, s in stores if not f.stores_const(s, 1) and sb in f.reachable(x.bb)]
            rep.ob("R23.3", f"read: stream_reading is not cleared after start_read {tag}", not clr, "", f.loc(x.bb))
            ab = [y.bb for y in addw if len(y.args) > 1 and handle_site(f, y.args[1], HANDLE_R) == h and h is not None]
            rep.ob("R23.3", f"read: add_waitable(same handle) on every path after start_read {tag}",
                   bool(ab) and f.all_paths_pass(x.bb, rets, ab),
                   "the stream with the pending read does not join the task's waitable set: its event is never delivered",
                   f.loc(x.bb))
            for y in addw:
                rep.ob("R23.3", f"read: add_waitable only after start_read {tag}", f.dominates(x.bb, y.bb), "",
                       f.loc(y.bb))
        # lazily allocated once
        news = f.calls("UnitStreamOps::new")
        rep.floor("R23.3", f"UnitStreamOps::new sites in read_inter_task_stream {tag}", len(news), 1)
        nones = [(b, ft, tt) for b, ft, tt in bool_switches_on_call(f, "Option::is_none")]
        st = [sb for sb, _, s in f.field_stores("stream") if f.stores_variant(s, "Some")]
        for n in news:
            g = []
            for b, ft, tt in nones:
                o = f.switch_origin(b)
                while o.get("kind") == "un":
                    o = o["a"]
                if o.get("kind") == "call" and _from_field(f, o["call"].args[0], "stream") and \
                        not _from_field(f, o["call"].args[0], "inter_task_stream") and \
                        n.bb in f.edge_region(b, tt):
                    g.append(b)
            rep.ob("R23.3", f"read: a stream pair is created only while `stream` is None {tag}", bool(g),
                   "the stream the waker writes to could be replaced while a read is pending", f.loc(n.bb))
            rep.ob("R23.3", f"read: the new reader is stored in `stream` on every path {tag}",
                   bool(st) and f.all_paths_pass(n.bb, rets, st), "", f.loc(n.bb))
            wr = []
            for b in sorted(f.live):
                for s in f.stmts(b):
                    if s["k"] == "=" and s["p"].get("p") == ["*"] and f.stores_variant(s, "Some"):
                        o = f.place_origin({"l": s["p"]["l"]})
                        if o.get("kind") == "call" and o["call"].matches("DerefMut::deref_mut"):
                            wr.append(b)
            rep.ob("R23.3", f"read: the new writer is published to the waker state on every path {tag}",
                   bool(wr) and f.all_paths_pass(n.bb, rets, wr), "", f.loc(n.bb))
            def payload_from_new(stmts, field):
                for st_ in stmts:
                    o = f.stored(st_)
                    if o.get("kind") == "agg" and o["rv"].get("ops"):
                        t = trace(f, o["rv"]["ops"][0])
                        if is_call(t, n) and t.get("proj") == [field]:
                            return True
                return False
            rd_st = [s for sb, _, s in f.field_stores("stream") if f.stores_variant(s, "Some")]
            wr_st = [s for b in sorted(f.live) for s in f.stmts(b)
                     if s["k"] == "=" and s["p"].get("p") == ["*"] and f.stores_variant(s, "Some")]
            rep.ob("R23.3", f"read: reader kept and writer published are the two ends of the same new stream {tag}",
                   len(news) == 1 and payload_from_new(rd_st, ".1") and payload_from_new(wr_st, ".0"),
                   "the waker would write to a stream the task does not read", f.loc(n.bb))
            rep.ob("R23.3", f"read: the waker state's lock is the inter_task_stream lock {tag}",
                   any(_from_field(f, y.args[0], "inter_task_stream") for y in f.calls("TryLock::try_lock")), "",
                   f.loc(n.bb))
    rep.guard("R23.3", f"read {tag}", r3)

    # ------------------------------------------------------------------ R23.5 consume_waitable_event / WakerState::wake
    def r5():
        f = real(c.method("State", "consume_waitable_event"))
        rep.saw(f)
        stores = f.field_stores("stream_reading")
        rep.floor("R23.5", f"stream_reading stores in consume_waitable_event {tag}", len(stores), 1)
        rep.ob("R23.5", f"consume: stream_reading is only ever cleared {tag}",
               bool(stores) and all(f.stores_const(s, 0) for _, _, s in stores), "", f.loc())
        hs = f.calls(HANDLE_R)
        match = []
        for h in hs:
            for e in eq_tests_on_call(f, h, syn):
                o = e["other"]
                if o.get("kind") == "arg" and o.get("n") == 2 and not o.get("proj"):
                    match.append(e)
        rep.floor("R23.5", f"handle == waitable tests in consume_waitable_event {tag}", len(match), 1)
        rc = ret_consts(f)
        for e in match:
            reg = f.edge_region(e["bb"], e["eq"])
            inreg = [sb for sb, _, s in stores if sb in reg]
            rep.ob("R23.5", f"consume: handle match => stream_reading := false {tag}",
                   bool(inreg) and f.all_paths_pass(e["eq"], f.returns(), inreg),
                   "the consumed read stays recorded as pending: the next sleep starts no read", f.loc(e["bb"]))
            rep.ob("R23.5", f"consume: no match => stream_reading untouched {tag}",
                   not [sb for sb, _, s in stores if sb not in reg], "", f.loc(e["bb"]))
            vin = [v for b, v in rc if b in reg]
            vout = [v for b, v in rc if b not in reg]
            rep.ob("R23.5", f"consume: returns true exactly on a handle match {tag}",
                   bool(vin) and all(v == 1 for v in vin) and bool(vout) and all(v == 0 for v in vout),
                   f"match returns {vin}, otherwise {vout}", f.loc(e["bb"]))
        for h in hs:
            rep.ob("R23.5", f"consume: the compared handle is the inter-task stream's {tag}",
                   _from_field(f, h.args[0], "stream") or _via_option_of_field(f, h.args[0], "stream"), "",
                   f.loc(h.bb))
        # WakerState::wake
        g = real(c.method("WakerState", "wake"))
        rep.saw(g)
        swr = g.calls(START_WRITE)
        rep.floor("R23.5", f"start_write sites in WakerState::wake {tag}", len(swr), 1)
        rep.ob("R23.5", f"WakerState::wake: exactly one start_write site, not in a loop {tag}",
               len(swr) == 1 and not g.in_cycle(swr[0].bb), f"{len(swr)} sites", g.loc())
        rets = set(g.returns())
        want = K("COMPLETED") | (1 << 4)
        for x in swr:
            cnt = g.origin(x.args[3]) if len(x.args) > 3 else {}
            rep.ob("R23.5", f"WakerState::wake: writes exactly one item {tag}",
                   cnt.get("kind") == "const" and cnt.get("v") == 1, f"count operand {cnt.get('v')}", g.loc(x.bb))
            rep.ob("R23.5", f"WakerState::wake: writes to the stored writer's handle {tag}",
                   len(x.args) > 1 and handle_site(g, x.args[1], HANDLE_W) is not None, "", g.loc(x.bb))
            rep.ob("R23.5", f"WakerState::wake: every return passes start_write {tag}",
                   every_return_passes(g, [x.bb]) and bool(rets), "", g.loc(x.bb))
            tests = eq_tests_on_call(g, x, syn)
            good = [e for e in tests if e["k"] == want and not (g.reachable(e["ne"]) & rets)]
            rep.ob("R23.5", f"WakerState::wake: the result is asserted to be COMPLETED | (1 << 4) {tag}",
                   bool(good) and all(g.all_paths_pass(x.bb, rets, [e["bb"]]) for e in good),
                   f"comparisons found: {[e['k'] for e in tests]}, expected {want}", g.loc(x.bb))
        rep.ob("R23.5", f"WakerState::wake: the writer comes from its own lock {tag}",
               any(_from_field(g, y.args[0], "lock") for y in g.calls("TryLock::try_lock")), "", g.loc())
    rep.guard("R23.5", f"consume/wake {tag}", r5)

    # ------------------------------------------------------------------ R23.7 UnitStreamOps forwards; who may call
    def r7():
        pairs = (("start_read", "unit_read", 3), ("start_write", "unit_write", 3), ("cancel_read", "unit_cancel_read", 1))
        impl_paths = set()
        for m, builtin, nargs in pairs:
            g = c.method("UnitStreamOps", m, trait="StreamOps")
            rep.saw(g)
            impl_paths.add(g.path)
            bs = [x for x in g.calls() if UNIT_BUILTIN.search(x.callee)]
            good = [x for x in bs if UNIT_BUILTIN.search(x.callee).group(1) == builtin[len("unit_"):]]
            rep.ob("R23.7", f"UnitStreamOps::{m} calls only the built-in {builtin}, once, on every path {tag}",
                   len(bs) == 1 and len(good) == 1 and every_return_passes(g, [good[0].bb]) and not g.in_cycle(good[0].bb),
                   f"built-ins called: {[UNIT_BUILTIN.search(x.callee).group(0) for x in bs]}", g.loc())
            if good:
                x = good[0]
                ok = len(x.args) == nargs and all(
                    g.origin(a).get("kind") == "arg" and g.origin(a).get("n") == i + 2 and not g.origin(a).get("proj")
                    for i, a in enumerate(x.args))
                rep.ob("R23.7", f"UnitStreamOps::{m} passes its arguments through unchanged {tag}", ok, "", g.loc(x.bb))
                rv = g.place_origin({"l": 0})
                rep.ob("R23.7", f"UnitStreamOps::{m} returns the built-in's result {tag}",
                       x.dest.get("l") == 0 or (rv.get("kind") == "call" and rv["call"].bb == x.bb), "", g.loc(x.bb))
        allowed = {READ_FN: "start_read", CANCEL_FN: "cancel_read", "wake": "start_write"}
        nb = nops = 0
        for h in c.fns.values():
            for x in h.calls():
                mb = UNIT_BUILTIN.search(x.callee)
                if mb and mb.group(1) in ("read", "write", "cancel_read"):
                    nb += 1
                    rep.ob("R23.7", f"built-in unit_{mb.group(1)} called only by UnitStreamOps: {short(h)} {tag}",
                           h.path in impl_paths, "", h.loc(x.bb))
                mo = None
                for n in x.names():
                    mo = mo or UNIT_OPS_ANY.search(n)
                if mo and mo.group(1) in ("start_read", "start_write", "cancel_read"):
                    nops += 1
                    nm = h.npath.split("::")[-1]
                    rep.ob("R23.7", f"wakeup-stream {mo.group(1)} issued only by its owner: {nm} {tag}",
                           allowed.get(nm) == mo.group(1) and ("inter_task_wakeup" in h.path),
                           "another function reads / writes / cancels on a unit stream", h.loc(x.bb))
        rep.floor("R23.7", f"call sites of unit_read/unit_write/unit_cancel_read {tag}", nb, 3)
        rep.floor("R23.7", f"call sites of UnitStreamOps start_read/start_write/cancel_read {tag}", nops, 3)
        # stream_reading writers
        nw = 0
        for h in c.fns.values():
            for sb, _, s in h.field_stores("stream_reading"):
                nw += 1
                nm = h.npath.split("::")[-1]
                rep.ob("R23.7", f"stream_reading written only by read / cancel / consume: {nm} {tag}",
                       nm in (READ_FN, CANCEL_FN, "consume_waitable_event") and "inter_task_wakeup" in h.path, "",
                       h.loc(sb))
        rep.floor("R23.7", f"stores to stream_reading {tag}", nw, 3)
    rep.guard("R23.7", f"unit-stream {tag}", r7)

    # ------------------------------------------------------------------ R23.6 never destroyed while SLEEPING
    def r6():
        SLEEPING = K("SLEEP_STATE_SLEEPING")
        d = c.fn("TaskState as core::ops::Drop>::drop")
        dc = d.call_blocks(CANCEL_FN)
        dst = [call.bb for m, call, v in sleep_ops(d) if m in ("store", "swap") and v is not None and v != SLEEPING]
        in_drop = bool(dc) and bool(dst) and all(d.set_dominates(set(dst), x) for x in dc)
        cb, f = closure()
        in_cb = True
        why = []
        for g in (cb, f):
            ops = sleep_ops(g)
            other = [call.bb for m, call, v in ops if m in ("store", "swap") and v is not None and v != SLEEPING]
            slp = [call.bb for m, call, v in ops if m in ("store", "swap") and v == SLEEPING]
            for b, i, rv, s in g.aggregates("CallbackCode", "Exit"):
                ok = g.set_dominates(set(other), b) and not any(b in g.reachable(x) for x in slp)
                if not ok:
                    in_cb = False
                    why.append(f"{short(g)} builds Exit with the state left as it was")
        rep.floor("R23.6", f"CallbackCode::Exit sites in callback {tag}",
                  len(cb.aggregates("CallbackCode", "Exit")) + len(f.aggregates("CallbackCode", "Exit")), 2)
        rep.ob("R23.6", f"a task is never destroyed while sleep_state says SLEEPING {tag}", in_drop or in_cb,
               "Drop for TaskState cancels the pending read without first storing a non-SLEEPING state, and "
               f"{'; '.join(sorted(set(why)))}: a waker used afterwards (by a destructor of the task's own futures or "
               "by another task) takes the SLEEPING arm of wake_by_ref and writes to a stream nobody reads "
               "(start_write returns BLOCKED / DROPPED, the assert in WakerState::wake traps)", d.loc())
    rep.guard("R23.6", f"destroy {tag}", r6)


def _from_field(f, operand, field):
    o = trace(f, operand)
    return ("." + field) in o.get("proj", [])


def _via_option_of_field(f, operand, field):
    """operand derives from `x.field.as_mut()` / `.as_ref()` / `.unwrap()` chains or the Some payload of such."""
    o = trace(f, operand)
    seen = 0
    while o.get("kind") == "call" and seen < 6:
        if ("." + field) in o.get("proj", []):
            return True
        call = o["call"]
        if not call.matches(["Option::as_mut", "Option::as_ref", "Option::unwrap", "Option::as_deref_mut"]) or not call.args:
            return False
        o = trace(f, call.args[0])
        seen += 1
    return ("." + field) in o.get("proj", [])


# ----------------------------------------------------------------------------------------------------------------
def disabled_rules(rep, c, cfg, tag):
    """Configurations without `inter-task-wakeup`: the stubs must be inert and wake must not return."""
    def rd():
        allowed_crate_calls = {"remaining_work"}

        def inert(f):
            bad = []
            for x in f.calls():
                if x.ind is not None:
                    bad.append("<indirect>")
                    continue
                n = mir.norm(x.callee)
                if n.startswith("crate::") and n.split("::")[-1] not in allowed_crate_calls:
                    bad.append(n.split("::")[-1])
                elif not n.startswith(("crate::", "core::", "std::", "alloc::", "<")):
                    bad.append(n)
            return bad

        stubs = [("TaskState", READ_FN), ("TaskState", CANCEL_FN), ("State", "consume_waitable_event"),
                 ("WakerState", "wake")]
        n = 0
        for ty, m in stubs:
            f = c.method(ty, m)
            rep.saw(f)
            rep.ob("R23.D", f"{ty}::{m} is the disabled stub {tag}", "inter_task_wakeup_disabled" in f.path,
                   f"resolved to {f.npath}", f.loc())
            bad = inert(f)
            n += 1
            rep.ob("R23.D", f"stub {ty}::{m} is inert: no built-in, set or stream call {tag}", not bad,
                   f"calls {bad}", f.loc())
            rep.ob("R23.D", f"stub {ty}::{m} writes no state {tag}",
                   not [1 for b in f.live for s in f.stmts(b) if s["k"] == "=" and s["p"]["l"] != 0 and
                        1 <= s["p"]["l"] <= f.argc], "", f.loc())
        rep.floor("R23.D", f"disabled stubs checked {tag}", n, 4)
        w = c.method("WakerState", "wake")
        rep.ob("R23.D", f"stub WakerState::wake never returns normally {tag}", not w.returns(),
               "a cross-task wakeup would be silently dropped", w.loc())
        cw = c.method("State", "consume_waitable_event")
        rc = ret_consts(cw)
        rep.ob("R23.D", f"stub consume_waitable_event always returns false {tag}",
               bool(rc) and all(v == 0 for _, v in rc), f"{rc}", cw.loc())
        cn = c.method("TaskState", CANCEL_FN)
        rep.ob("R23.D", f"stub cancel_inter_task_stream_read returns {tag}", bool(cn.returns()), "", cn.loc())
        rd_ = c.method("TaskState", READ_FN)
        sws = bool_switches_on_call(rd_, "TaskState::remaining_work")
        rep.floor("R23.D", f"remaining_work tests in the stub read_inter_task_stream {tag}", len(sws), 1)
        for b, ft, tt in sws:
            rep.ob("R23.D", f"stub read_inter_task_stream: sleeping on Rust-only events traps instead of hanging {tag}",
                   not (rd_.reachable(ft) & set(rd_.returns())) and every_return_passes(rd_, [b]),
                   "the task could wait forever on an empty waitable set", rd_.loc(b))
    rep.guard("R23.D", f"disabled stubs {tag}", rd)
