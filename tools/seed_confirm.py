#!/usr/bin/env python3
"""Confirm a seeded change and run the checks against it.

usage: seed_confirm.py <src_dir> <seed_id> [--checks C01,C13] [--skip-tests]
  <src_dir> holds patch.diff, run_demo.sh (+ demo files) and meta.json as delivered by a seeding agent.
Steps (all in scratch worktrees under a fresh temp dir, removed afterwards):
  1. the patch applies to /repo HEAD and the tree still builds and passes the pinned test suite
     (cargo test --workspace --no-fail-fast --offline, target dir /verif/.cache/test-target);
  2. run_demo.sh exits non-zero on the patched tree and 0 on the unpatched tree;
  3. every listed check (default: the check of the seed's property + all accepted checks) is run with VERIF_REPO set
     to the patched tree; which ones report a VIOLATION is recorded.
On success the seed is stored as /verif/seeded/<seed_id>/ with an updated meta.json.
"""
import json
import os
import shutil
import subprocess
import sys
import tempfile

VERIF = os.path.dirname(os.path.dirname(os.path.abspath(__file__)))


def sh(cmd, **kw):
    return subprocess.run(cmd, shell=isinstance(cmd, str), capture_output=True, text=True, **kw)


def main():
    args = sys.argv[1:]
    src, sid = args[0], args[1]
    checks = None
    if "--checks" in args:
        checks = args[args.index("--checks") + 1].split(",")
    skip_tests = "--skip-tests" in args
    meta = json.load(open(os.path.join(src, "meta.json")))
    pid = meta.get("property")
    # fixed paths so that cargo fingerprints in the per-tree target dirs are reused from one seed to the next
    slot = os.environ.get("VSEED_SLOT", "")
    tmp = "/tmp/vseed" + slot
    if os.path.exists(tmp):
        for d in ("patched", "clean"):
            sh(["git", "-C", "/repo", "worktree", "remove", "--force", os.path.join(tmp, d)])
        sh(["git", "-C", "/repo", "worktree", "prune"])
        shutil.rmtree(tmp, ignore_errors=True)
    os.makedirs(tmp)
    wt, clean = os.path.join(tmp, "patched"), os.path.join(tmp, "clean")
    out = {"patch_applies": False}
    try:
        for d in (wt, clean):
            r = sh(["git", "-C", "/repo", "worktree", "add", "-q", "--detach", d])
            assert r.returncode == 0, r.stderr
        a = sh(["git", "-C", wt, "apply", "--whitespace=nowarn", os.path.join(os.path.abspath(src), "patch.diff")])
        out["patch_applies"] = a.returncode == 0
        if a.returncode != 0:
            print("PATCH DOES NOT APPLY", a.stderr)
            return 2
        env = dict(os.environ, CARGO_NET_OFFLINE="true", CARGO_TARGET_DIR=os.path.join(VERIF, ".cache", "seed-target-patched" + slot))
        if not skip_tests:
            t = sh(["cargo", "test", "--workspace", "--no-fail-fast", "--offline"], cwd=wt, env=env)
            sh(["git", "-C", wt, "checkout", "Cargo.lock"])
            res = [l for l in t.stdout.splitlines() if l.startswith("test result")]
            passed = sum(int(l.split(" passed")[0].split()[-1]) for l in res)
            failed = sum(int(l.split(" failed")[0].split()[-1]) for l in res)
            out["suite"] = {"exit": t.returncode, "passed": passed, "failed": failed}
            print("suite on patched tree:", out["suite"])
            if t.returncode != 0 or failed:
                print(t.stdout[-2000:], t.stderr[-2000:])
                print("REJECT: the existing suite fails with the patch")
                return 3
        demo = os.path.join(os.path.abspath(src), "run_demo.sh")
        denv = dict(os.environ, CARGO_NET_OFFLINE="true", CARGO_TARGET_DIR=os.path.join(VERIF, ".cache", "seed-target-patched" + slot))
        dp = sh(["bash", demo, wt], env=denv, cwd=os.path.abspath(src))
        sh(["git", "-C", wt, "checkout", "Cargo.lock"])
        denv["CARGO_TARGET_DIR"] = os.path.join(VERIF, ".cache", "seed-target-clean" + slot)
        dc = sh(["bash", demo, clean], env=denv, cwd=os.path.abspath(src))
        sh(["git", "-C", clean, "checkout", "Cargo.lock"])
        out["demo"] = {"patched_exit": dp.returncode, "clean_exit": dc.returncode,
                       "patched_tail": (dp.stdout + dp.stderr)[-600:], "clean_tail": (dc.stdout + dc.stderr)[-300:]}
        print("demo: patched exit", dp.returncode, "clean exit", dc.returncode)
        if dp.returncode == 0 or dc.returncode != 0:
            print(out["demo"])
            print("REJECT: demonstration does not discriminate")
            return 4
        # the demo may have left untracked files in the worktrees; the checks only read tracked sources + new files,
        # so clean them to analyse exactly the patched tree
        sh(["git", "-C", wt, "clean", "-fdq"])
        accepted = open(os.path.join(VERIF, "rules", "ACCEPTED")).read().split()
        todo = checks or ([pid] if pid in accepted else []) + [c for c in accepted if c != pid]
        det = {}
        for c in todo:
            r = sh([sys.executable, os.path.join(VERIF, "check.py"), c, "--tier", "thorough"], env=dict(os.environ, VERIF_REPO=wt))
            fired = r.returncode == 1 and ("VIOLATION property=" + c) in r.stdout
            fails = [l for l in r.stdout.splitlines() if l.startswith("[FAIL]")]
            det[c] = {"fired": fired, "exit": r.returncode, "fails": fails[:5]}
            print(f"check {c}: {'VIOLATION' if fired else 'silent'} (exit {r.returncode})")
            for l in fails[:3]:
                print("   ", l[:260])
        out["checks"] = det
        dst = os.path.join(VERIF, "seeded", sid)
        os.makedirs(dst, exist_ok=True)
        for fn in os.listdir(src):
            if fn in ("PROPERTY.md",) or fn.endswith("_target"):
                continue
            s = os.path.join(src, fn)
            if os.path.isdir(s):
                shutil.copytree(s, os.path.join(dst, fn), dirs_exist_ok=True)
            else:
                shutil.copy2(s, os.path.join(dst, fn))
        meta["breaks_property"] = pid
        meta["confirmed"] = out
        # only checks that are registered (green on the unchanged tree) count as detections
        meta["detected_by"] = sorted(c for c, v in det.items() if v["fired"] and c in accepted)
        meta["what_was_run"] = ("tools/seed_confirm.py: patch applied to a scratch worktree of /repo HEAD; "
                                "cargo test --workspace --no-fail-fast --offline; run_demo.sh on patched and clean tree; "
                                "check.py <id> with VERIF_REPO=<patched tree> for: " + ", ".join(todo))
        json.dump(meta, open(os.path.join(dst, "meta.json"), "w"), indent=1)
        print("stored", dst, "detected by", meta["detected_by"])
        return 0
    finally:
        for d in (wt, clean):
            sh(["git", "-C", "/repo", "worktree", "remove", "--force", d])
        sh(["git", "-C", "/repo", "worktree", "prune"])
        shutil.rmtree(tmp, ignore_errors=True)


if __name__ == "__main__":
    sys.exit(main())
