#!/usr/bin/env bash
# accept.sh Cxx...: run quick + thorough on /repo and the line-shift false-alarm test; on success register the module.
cd /verif
for p in "$@"; do
  python3 check.py $p > .cache/accept_$p.log 2>&1; q=$?
  python3 check.py $p --tier thorough >> .cache/accept_$p.log 2>&1; t=$?
  python3 check.py $p >> .cache/accept_$p.log 2>&1   # leave quick-tier evidence on disk
  if [ $q -ne 0 ] || [ $t -ne 0 ]; then echo "$p: NOT GREEN (quick=$q thorough=$t)"; grep -E "^\[FAIL\]|^C[0-9]+ \[" .cache/accept_$p.log | head -20; continue; fi
  python3 tools/robustness.py $p > .cache/robust_$p.log 2>&1; r=$?
  if [ $r -ne 0 ]; then echo "$p: FALSE ALARM under line shift"; tail -20 .cache/robust_$p.log; continue; fi
  grep -qx $p rules/ACCEPTED || echo $p >> rules/ACCEPTED
  sort -o rules/ACCEPTED rules/ACCEPTED
  echo "$p: accepted ($(grep -E "^$p \[" .cache/accept_$p.log | head -2 | tr '\n' ' '))"
done
python3 tools/gen_manifest.py && python3-vt tools/validate.py
