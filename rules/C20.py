"""C20 — futures deliver exactly one value and never strand a writer (structural clauses)."""
import re

from lib import mir
from .rtcommon import (configs, rt, every_return_passes, bool_switches_on_call, calls_in, ind_calls)

CLAIM = dict(
    level="other", engine="mirfacts+witness", design="DESIGN.md §5 C20",
    technique="MIR scenario slicing (return code / enum variant fixed), value-flow of operands, must-pass-through and "
              "who-may-drop rules + compile_fail witnesses (E0382 / E0599)",
    text="Static rules on the runtime crate's MIR: the writer's Drop writes the default value iff its flag is set and "
         "the flag is `true` at every construction; dropping an unfinished write cancels and rebuilds a FutureWriter; "
         "per return code the write/read operations lift / deallocate exactly once and build the matching outcome; the "
         "cancel tables map each outcome to the reported result and hand back the same value and writer; the deferred "
         "default write is polled under its lock with its own Arc as waker; only two places may drop a raw writable "
         "end. Partial: no schedule is explored, the host side is assumed to follow the canonical ABI.",
    note="mir")

# ------------------------------------------------------------------------------------------------ local helpers
# (the lib API has no scenario slicing / transitive value-flow query; they live here)


def _fp(proj):
    """projection without reference / dereference steps"""
    return [p for p in proj if p not in ("&", "*")]


def is_arg(n, proj=None, exact=False):
    """origin predicate: the value is (a projection of) argument n; proj is a prefix unless exact."""
    def pred(o):
        if o.get("kind") != "arg" or o.get("n") != n:
            return False
        p = _fp(o.get("proj", []))
        if proj is None:
            return True
        want = list(proj)
        return p == want if exact else p[:len(want)] == want
    return pred


def is_call(pat, proj=None):
    """origin predicate: the value is (the projection `proj` of) the result of a call matching pat."""
    def pred(o):
        if o.get("kind") != "call" or not o["call"].matches(pat):
            return False
        return proj is None or _fp(o.get("proj", [])) == list(proj)
    return pred


def flows_from(f, o, pred, depth=10):
    """True if the origin `o` satisfies pred, or is computed (call arguments, binary / unary operands, aggregate
    fields) from a value that does."""
    if pred(o):
        return True
    if depth <= 0:
        return False
    k = o.get("kind")
    if k == "call":
        return any(flows_from(f, f.origin(a), pred, depth - 1) for a in o["call"].args)
    if k == "bin":
        return flows_from(f, o["a"], pred, depth - 1) or flows_from(f, o["b"], pred, depth - 1)
    if k == "un":
        return flows_from(f, o["a"], pred, depth - 1)
    if k == "agg":
        return any(flows_from(f, f.origin(x), pred, depth - 1) for x in o["rv"]["ops"])
    return False


PTR_ARITH = re.compile(r"::(wrapping_)?(byte_)?(add|sub|offset)$|::(map_addr|with_addr|offset_from|cast_mut)$")


def calls_on_flow(f, o, depth=10, acc=None):
    """all calls a value is computed through"""
    acc = [] if acc is None else acc
    if depth <= 0:
        return acc
    k = o.get("kind")
    if k == "call":
        acc.append(o["call"])
        for a in o["call"].args:
            calls_on_flow(f, f.origin(a), depth - 1, acc)
    elif k == "bin":
        calls_on_flow(f, o["a"], depth - 1, acc)
        calls_on_flow(f, o["b"], depth - 1, acc)
    elif k == "un":
        calls_on_flow(f, o["a"], depth - 1, acc)
    elif k == "agg":
        for x in o["rv"]["ops"]:
            calls_on_flow(f, f.origin(x), depth - 1, acc)
    return acc


def plain_ptr(f, operand):
    """the pointer is not displaced: no pointer arithmetic (call or binary Offset) on its way"""
    o = f.origin(operand)

    def has_bin(o, d=10):
        if d <= 0:
            return False
        k = o.get("kind")
        if k == "bin":
            return True
        if k == "call":
            return any(has_bin(f.origin(a), d - 1) for a in o["call"].args)
        if k == "un":
            return has_bin(o["a"], d - 1)
        return False
    return not has_bin(o) and not any(PTR_ARITH.search(mir.norm(n)) for c_ in calls_on_flow(f, o) for n in c_.names())


def op_flows(f, operand, pred):
    return flows_from(f, f.origin(operand), pred)


_BIN = {
    "Eq": lambda a, b: int(a == b), "Ne": lambda a, b: int(a != b), "Lt": lambda a, b: int(a < b),
    "Le": lambda a, b: int(a <= b), "Gt": lambda a, b: int(a > b), "Ge": lambda a, b: int(a >= b),
    "BitAnd": lambda a, b: a & b, "BitOr": lambda a, b: a | b, "Shr": lambda a, b: a >> b,
}


def const_eval(o, env=None):
    """Concrete value of an origin when `env(o)` fixes some leaves (an argument's value); None if unknown."""
    if o.get("casts"):
        return None
    if env is not None:
        v = env(o)
        if v is not None:
            return v
    k = o.get("kind")
    if k == "const" and "v" in o:
        return o["v"]
    if k == "bin" and o["op"] in _BIN:
        a, b = const_eval(o["a"], env), const_eval(o["b"], env)
        if a is None or b is None:
            return None
        return _BIN[o["op"]](a, b)
    if k == "un" and o.get("op") == "Not":
        a = const_eval(o["a"], env)
        return None if a is None else int(not a)
    return None


def arg_value(n, v):
    """scenario: integer argument n has the value v"""
    def env(o):
        if o.get("kind") == "arg" and o.get("n") == n and not _fp(o.get("proj", [])) and "&" not in o.get("proj", []):
            return v
        return None

    def decide(f, b, o):
        return const_eval(o, env)
    return decide


def variant_of(of_pred, variant, payload=None, payload_pred=None):
    """scenario: the enum value selected by of_pred has the given variant (and integer payload `.0`)."""
    def decide(f, b, o):
        if o.get("kind") == "discr" and of_pred(o["of"]):
            for val, name in o["vars"].items():
                if name == variant:
                    return val
            return None
        if payload is not None and payload_pred is not None and payload_pred(o):
            return payload
        return const_eval(o)
    return decide


def sliced(f, decide, start=0, avoid=()):
    """Blocks reachable from `start` when every switch whose discriminant the scenario decides follows only the
    edge of that value (all other switches follow every edge); never enters `avoid`."""
    avoid = set(avoid)
    if start in avoid:
        return set()
    seen = {start}
    st = [start]
    while st:
        a = st.pop()
        nxt = f.succ[a]
        t = f.term(a)
        if t["k"] == "switch":
            v = decide(f, a, f.switch_origin(a))
            if v is not None:
                tg = f.switch_targets(a)
                one = tg.get(v, tg["else"])
                nxt = [one] if one in f.succ[a] else []
        for b in nxt:
            if b not in seen and b not in avoid:
                seen.add(b)
                st.append(b)
    return seen


def returns_in(f, blocks):
    return [b for b in f.returns() if b in blocks]


def always(f, decide, blocks):
    """in the scenario a return is reachable and every path to a return passes one of `blocks`"""
    return bool(returns_in(f, sliced(f, decide))) and not returns_in(f, sliced(f, decide, avoid=blocks))


def aggs_in(f, blocks, adt, variant=None):
    return [(b, rv) for b, i, rv, s in f.aggregates(adt, variant) if b in blocks]


def variants_in(f, blocks, adt):
    return {rv["var"] for b, rv in aggs_in(f, blocks, adt)}


def field_op(rv, name):
    return rv["ops"][rv["fields"].index(name)]


def ret_consts(f, blocks):
    """constant values assigned to the return place in `blocks` (None for a non-constant assignment)"""
    out = set()
    for b in blocks:
        for s in f.stmts(b):
            if s["k"] == "=" and s["p"]["l"] == 0 and not s["p"].get("p"):
                o = f.stored(s)
                out.add(o.get("v") if o.get("kind") == "const" else None)
    return out


def ret_origin_calls(f):
    """calls whose destination is the return place, plus calls the return place is assigned from"""
    out = []
    for c in f.calls():
        if c.dest["l"] == 0 and not c.dest.get("p"):
            out.append(c)
    for b in f.live:
        for s in f.stmts(b):
            if s["k"] == "=" and s["p"]["l"] == 0 and not s["p"].get("p"):
                o = f.stored(s)
                if o.get("kind") == "call":
                    out.append(o["call"])
    return out


def returns_call(f, call):
    """the result of `call` is what the function returns (written to the return place directly or through a local)"""
    if call.dest["l"] == 0 and not call.dest.get("p"):
        return True
    for b in f.live:
        for st in f.stmts(b):
            if st["k"] == "=" and st["p"]["l"] == 0 and not st["p"].get("p"):
                o = f.stored(st)
                if o.get("kind") == "call" and o["call"].bb == call.bb and not _fp(o.get("proj", [])):
                    return True
    return False


def short(g):
    """`Type::method` (`Type::method::{closure#0}` for closures): stable, position-free name of a function"""
    m = re.match(r"^(.*?)((?:::\{closure#\d+\})+)$", g.path)
    if m:
        parent = g.crate.fns.get(m.group(1))
        return (short(parent) if parent is not None else mir.norm(m.group(1)).split("::")[-1]) + m.group(2)
    st = g.d.get("self_ty")
    name = g.npath.split("::")[-1]
    if st:
        return f"{mir.base_type(st.split('::write_and_forget::')[-1])}::{name}"
    return name


def origin_in(f, operand, blocks):
    """origin of an operand, resolving a local assigned in several arms to the one assignment inside `blocks`"""
    o = f.origin(operand)
    for _ in range(6):
        if o.get("kind") == "place" and o.get("ndefs", 0) > 1 and not _fp(o.get("proj", [])):
            ds = [x for x in f.defs.get(o["local"], []) if x[2] == "assign" and x[0] in blocks]
            if len(ds) != 1 or ds[0][3]["k"] != "use":
                return o
            o = f.origin(ds[0][3]["o"])
        else:
            return o
    return o


def holds_raw_writer(ty):
    """the type (of a dropped place / an argument) contains a RawFutureWriter value"""
    return bool(re.search(r"RawFutureWriter<", ty.replace("RawFutureWriter<O>::write_and_forget::", "")))


def raw_drops(f):
    return [(b, t) for b, t in f.drops() if holds_raw_writer(t["ty"])]


def bool_switches(f, pred):
    """switches on a bool whose origin satisfies pred (through `!`): (bb, false_target, true_target)"""
    out = []
    for b, t in f.switches():
        o = f.switch_origin(b)
        neg = False
        while o.get("kind") == "un" and o.get("op") == "Not":
            o = o["a"]
            neg = not neg
        if pred(o):
            tg = f.switch_targets(b)
            ft, tt = tg.get(0), tg["else"]
            if neg:
                ft, tt = tt, ft
            out.append((b, ft, tt))
    return out


def writer_builds(g, blocks=None):
    """sites producing a FutureWriter (struct expression or FutureWriter::new): (bb, raw operand, default operand)"""
    out = [(b, field_op(rv, "raw"), field_op(rv, "default")) for b, i, rv, s in g.aggregates("FutureWriter")]
    out += [(x.bb, x.args[0], x.args[1]) for x in g.calls("FutureWriter::new")]
    return [x for x in out if blocks is None or x[0] in blocks]


def is_writer_value(o):
    return (o.get("kind") == "agg" and o["rv"].get("adt", "").endswith("::FutureWriter")) or \
        is_call("FutureWriter::new", proj=[])(o)


def wop(c, ty, name):
    return c.method(ty, name, trait="WaitableOp")


OPS = "FutureOps::"


RULES = {
    "R20.1": "witnesses: FutureWriter::write / FutureReader::into_future consume their end (E0382), a writer is not Clone",
    "R20.2": "Drop for FutureWriter: flag set => write_and_forget(take(raw), (default)()), else ManuallyDrop::drop(raw); "
             "the flag is `true` at every construction and never stored `false`",
    "R20.3": "Drop for FutureWrite: not done => FutureWrite::cancel, result dropped (not leaked); is_done <=> Done; a "
             "cancelled write rebuilds exactly one FutureWriter around the writer handed back, keeping `default`",
    "R20.4": "return-code constants and decode; per code the write op lifts back / frees lists exactly once from its own "
             "buffer and builds the matching WriteComplete, the read op lifts exactly once only on Completed(0)",
    "R20.5": "cancel tables: result_into_cancel, start_cancelled, FutureWrite::cancel map each outcome to the reported "
             "result with the same value / writer / reader; in_progress_cancel calls the built-in of its direction and "
             "returns its code",
    "R20.6": "DeferredWrite::wake polls once under try_lock with a waker cloned from its own Arc and asserts the strong "
             "count on both outcomes; write_and_forget starts the write and wakes it once",
    "R20.7": "plumbing: FutureWriter::write forgets self; future_new / raw_future_new wire the ends (reader low half, "
             "writer high half); start lowers then starts on its own buffer and returns the host's code; poll / cancel "
             "forward to the operation; outcome closures; vtable forwarders call the same-named entry",
    "R20.8": "reader handle: dropped once when live, not when taken; take_handle stores u32::MAX",
    "R20.9": "who may drop a raw writable end: result_into_cancel (not its Cancelled arm, R20.5), the poll outcome "
             "closure, ManuallyDrop::drop in Drop for FutureWriter; drop_writable only from RawFutureWriter::drop",
    "R20.10": "generic driver: cancel in Start => start_cancelled only; Done => panic; the built-in's code and a code "
              "already delivered are interpreted; results come from result_into_cancel; poll_complete_with_code hands "
              "the delivered code to in_progress_update, Ok => Ready, Err => state stored back",
}


# ------------------------------------------------------------------------------------------------ entry point
def run(rep, tier):
    rep.describe(
        "other",
        "Decides structural necessary conditions of C20 on the MIR of the runtime crate (future_support.rs and the "
        "generic WaitableOperation driving it): Drop for FutureWriter writes `default()` in the background iff the "
        "flag is set, and the flag is `true` at every construction and never stored `false`; FutureWriter::write "
        "forgets `self`; Drop for an unfinished FutureWrite cancels, and a cancelled write rebuilds a FutureWriter "
        "around the very writer that was handed back; per return code (BLOCKED / COMPLETED / DROPPED / CANCELLED, "
        "values checked) the write op lifts the value back or frees the lowered lists exactly once and builds the "
        "matching WriteComplete, the read op lifts exactly once only on Completed(0); result_into_cancel / "
        "start_cancelled / FutureWrite::cancel map each outcome to the reported cancel result with the same value / "
        "writer / reader; the cancel built-in called is the one for that direction and its code is the one "
        "interpreted; the vtable forwarders call the same-named entry; DeferredWrite::wake polls under its lock "
        "with a waker made from its own Arc and asserts the strong count on both outcomes; a raw writable end is "
        "dropped only where a completed write (or gone reader) has been observed. It does NOT decide behaviour "
        "under a concrete interleaving, the host's side, or that the task outlives a deferred write.",
        trusted_base=["rustc nightly MIR (opt-level 0) of crates/guest-rust", "unwind edges ignored (panic = trap)",
                      "tools/mirfacts", "rustc's move checking (a moved-out value is not dropped again)"],
        assumptions=["native (x86_64) build of the runtime: extern_wasm! built-ins appear as shim functions",
                     "the host delivers CANCELLED only as the result of a cancel built-in"],
    )
    for rid, text in RULES.items():
        rep.rule(rid, text)
    for cfg in configs(tier):
        rep.guard("R20", f"config:{cfg}", lambda cfg=cfg: one(rep, rt(cfg), cfg))
    from .witness import run_witness
    rep.guard("R20.1", "witness", lambda: run_witness(rep, "C20", "R20.1"))


def one(rep, c, cfg):
    tag = f"[{cfg}]"
    K = {n: c.const(n) for n in ("BLOCKED", "COMPLETED", "DROPPED", "CANCELLED")}

    # -------------------------------------------------------------------------------------------- R20.2
    def r2():
        f = c.method("FutureWriter", "drop", trait="Drop")
        rep.saw(f)
        sw = bool_switches(f, is_arg(1, [".should_write_default_value"], exact=True))
        rep.floor("R20.2", f"flag test in Drop for FutureWriter {tag}", len(sw), 1)
        rep.ob("R20.2", f"FutureWriter::drop: no return bypasses the should_write_default_value test {tag}",
               bool(sw) and every_return_passes(f, [b for b, _, _ in sw]), "", f.loc())
        waf = f.calls("RawFutureWriter::write_and_forget")
        mdrop = f.calls("ManuallyDrop::drop")
        for b, ft, tt in sw:
            rep.ob("R20.2", f"FutureWriter::drop: flag=true => write_and_forget on every path {tag}",
                   bool(waf) and f.all_paths_pass(tt, f.returns(), [x.bb for x in waf]),
                   "an unwritten writer can be dropped without the default value being written", f.loc(b))
            rep.ob("R20.2", f"FutureWriter::drop: flag=true => the raw writer is not dropped directly {tag}",
                   not calls_in(f, f.reachable(tt), ["ManuallyDrop::drop", OPS + "drop_writable"]) and
                   not [1 for bb, t in raw_drops(f) if bb in f.reachable(tt)],
                   "future.drop-writable would trap on a writer that has not written", f.loc(b))
            rep.ob("R20.2", f"FutureWriter::drop: flag=false => ManuallyDrop::drop(raw) on every path {tag}",
                   bool(mdrop) and f.all_paths_pass(ft, f.returns(), [x.bb for x in mdrop]),
                   "the handle of a finished writer would leak", f.loc(b))
            rep.ob("R20.2", f"FutureWriter::drop: flag=false => no default write {tag}",
                   not calls_in(f, f.reachable(ft), ["RawFutureWriter::write_and_forget", "RawFutureWriter::write",
                                                     "ManuallyDrop::take"]),
                   "a second value would be written", f.loc(b))
        rep.ob("R20.2", f"FutureWriter::drop: exactly one write_and_forget site, not in a loop {tag}",
               len(waf) == 1 and not f.in_cycle(waf[0].bb), f"{len(waf)} sites", f.loc())
        for x in waf:
            rep.ob("R20.2", f"FutureWriter::drop: write_and_forget consumes self.raw (ManuallyDrop::take) {tag}",
                   is_call("ManuallyDrop::take")(f.origin(x.args[0])) and
                   op_flows(f, f.origin(x.args[0])["call"].args[0], is_arg(1, [".raw"], exact=True)),
                   "the writer written to is not this writer's handle", f.loc(x.bb))
            o = f.origin(x.args[1])
            via_default = o.get("kind") == "call" and o["call"].ind is not None and \
                ".default" in f.origin(o["call"].ind).get("proj", [])
            rep.ob("R20.2", f"FutureWriter::drop: the value written is (self.default)() {tag}", via_default,
                   "the default value does not come from the user's constructor", f.loc(x.bb))
        for x in mdrop:
            rep.ob("R20.2", f"FutureWriter::drop: ManuallyDrop::drop is applied to self.raw {tag}",
                   op_flows(f, x.args[0], is_arg(1, [".raw"], exact=True)), "", f.loc(x.bb))

        # every construction sets the flag, nothing ever clears it
        nsite = 0
        for g in c.fns.values():
            nsite += len(g.calls("FutureWriter::new"))
            for b, i, rv, s in g.aggregates("FutureWriter"):
                nsite += 1
                rep.saw(g)
                o = g.origin(field_op(rv, "should_write_default_value"))
                rep.ob("R20.2", f"construction of FutureWriter in {short(g)}: should_write_default_value = true {tag}",
                       o.get("kind") == "const" and o.get("v") == 1,
                       "a writer constructed with the flag cleared is dropped without writing (trap)", g.loc(b))
            for b, i, s in g.field_stores("should_write_default_value"):
                rep.ob("R20.2", f"store to should_write_default_value in {short(g)} is `true` {tag}",
                       g.stores_const(s, 1),
                       "no FutureWriter exists after its write completed (write consumes it), so the flag may "
                       "never be cleared", g.loc(b))
        rep.floor("R20.2", f"sites producing a FutureWriter (struct expressions + FutureWriter::new calls) {tag}", nsite, 3)
    rep.guard("R20.2", f"drop-writer {tag}", r2)

    # -------------------------------------------------------------------------------------------- R20.3
    def r3():
        f = c.method("FutureWrite", "drop", trait="Drop")
        rep.saw(f)
        sw = bool_switches_on_call(f, "WaitableOperation::is_done")
        rep.floor("R20.3", f"is_done test in Drop for FutureWrite {tag}", len(sw), 1)
        can = f.calls("FutureWrite::cancel")
        for b, ft, tt in sw:
            call = f.switch_origin(b)
            while call.get("kind") == "un":
                call = call["a"]
            rep.ob("R20.3", f"FutureWrite::drop: is_done is asked of self.raw.op {tag}",
                   op_flows(f, call["call"].args[0], is_arg(1, [".raw", ".op"], exact=True)), "", f.loc(b))
            rep.ob("R20.3", f"FutureWrite::drop: is_done()=false => FutureWrite::cancel on every path {tag}",
                   bool(can) and f.all_paths_pass(ft, f.returns(), [x.bb for x in can]),
                   "an unfinished write is dropped through the generic cancel, which drops the raw writer unwritten",
                   f.loc(b))
        rep.ob("R20.3", f"FutureWrite::drop: no return bypasses the is_done test {tag}",
               bool(sw) and every_return_passes(f, [b for b, _, _ in sw]), "", f.loc())
        for x in can:
            rep.ob("R20.3", f"FutureWrite::drop: cancels self {tag}", op_flows(f, x.args[0], is_arg(1, [], exact=True)),
                   "", f.loc(x.bb))
        for x in can:
            sinks = [b for b, t in f.drops(r"FutureWriteCancel<")] + \
                [y.bb for y in f.calls(["mem::drop"]) if any("FutureWriteCancel<" in a for a in y.arg_types)]
            rep.ob("R20.3", f"FutureWrite::drop: the cancel result (and the FutureWriter in it) is dropped, not "
                            f"forgotten {tag}",
                   bool(sinks) and f.all_paths_pass(x.bb, f.returns(), sinks) and
                   not f.calls(["mem::forget", "ManuallyDrop::new", "Box::leak"]),
                   "a cancelled write whose rebuilt writer is leaked never delivers the default value", f.loc(x.bb))
        rep.ob("R20.3", f"FutureWrite::drop: never touches the raw writer itself {tag}",
               not f.calls([OPS + "drop_writable", "ManuallyDrop::drop", "WaitableOperation::cancel",
                            "RawFutureWrite::cancel"]) and not raw_drops(f), "", f.loc())

        # is_done is true exactly for Done
        d = c.method("WaitableOperation", "is_done")
        rep.saw(d)
        st = is_arg(1, [".state"], exact=True)
        res = {v: ret_consts(d, sliced(d, variant_of(st, v))) for v in ("Start", "InProgress", "Done")}
        rep.ob("R20.3", f"WaitableOperation::is_done: true iff state is Done {tag}",
               res["Done"] == {1} and res["Start"] == {0} and res["InProgress"] == {0}, f"{res}", d.loc())

        # FutureWrite::cancel
        g = c.method("FutureWrite", "cancel")
        rep.saw(g)
        rc = g.calls("RawFutureWrite::cancel")
        rep.floor("R20.3", f"RawFutureWrite::cancel call in FutureWrite::cancel {tag}", len(rc), 1)
        rep.ob("R20.3", f"FutureWrite::cancel: one raw cancel, not in a loop, on every path {tag}",
               len(rc) == 1 and not g.in_cycle(rc[0].bb) and every_return_passes(g, [rc[0].bb]), "", g.loc())
        for x in rc:
            rep.ob("R20.3", f"FutureWrite::cancel: cancels self.raw (through pin_project) {tag}",
                   is_call("FutureWrite::pin_project")(g.origin(x.args[0])) and
                   op_flows(g, x.args[0], is_arg(1, [], exact=True)), "", g.loc(x.bb))
        of = is_call("RawFutureWrite::cancel", proj=[])
        for v in ("AlreadySent", "Dropped", "Cancelled"):
            B = sliced(g, variant_of(of, v))
            built = variants_in(g, B, "FutureWriteCancel")
            rep.ob("R20.5", f"FutureWrite::cancel: raw {v} is reported as {v} {tag}",
                   built == {v} and bool(returns_in(g, B)), f"constructs {sorted(built)}", g.loc())
            writers = writer_builds(g, B)
            if v != "Cancelled":
                rep.ob("R20.3", f"FutureWrite::cancel: {v} builds no FutureWriter {tag}", not writers, "", g.loc())
                if v == "Dropped":
                    for b, rv in aggs_in(g, B, "FutureWriteCancel", "Dropped"):
                        rep.ob("R20.5", f"FutureWrite::cancel: Dropped hands back the value of the raw result {tag}",
                               op_flows(g, rv["ops"][0], is_call("RawFutureWrite::cancel", ["as Dropped", ".0"])),
                               "", g.loc(b))
                continue
            rep.ob("R20.3", f"FutureWrite::cancel: Cancelled builds exactly one FutureWriter {tag}",
                   len(writers) == 1 and not g.in_cycle(writers[0][0]), f"{len(writers)} constructions", g.loc())
            for b, raw, dflt in writers:
                rep.ob("R20.3", f"FutureWrite::cancel: the new FutureWriter wraps the writer handed back by the "
                                f"cancelled operation {tag}",
                       op_flows(g, raw, is_call("RawFutureWrite::cancel", ["as Cancelled", ".1"])),
                       "the raw writer of a cancelled write is not the one protected by the default-value drop",
                       g.loc(b))
                od = g.origin(dflt)
                rep.ob("R20.3", f"FutureWrite::cancel: the new FutureWriter keeps self.default {tag}",
                       _fp(od.get("proj", []))[-1:] == [".default"] and flows_from(g, od, is_arg(1)), "", g.loc(b))
            for b, rv in aggs_in(g, B, "FutureWriteCancel", "Cancelled"):
                rep.ob("R20.5", f"FutureWrite::cancel: Cancelled hands back the value and the rebuilt FutureWriter {tag}",
                       op_flows(g, rv["ops"][0], is_call("RawFutureWrite::cancel", ["as Cancelled", ".0"])) and
                       is_writer_value(g.origin(rv["ops"][1])), "", g.loc(b))
        rep.ob("R20.3", f"FutureWrite::cancel: never drops a raw writer {tag}",
               not raw_drops(g) and not g.drops(r"RawFutureWriteCancel<") and
               not g.calls([OPS + "drop_writable", "ManuallyDrop::drop", "mem::forget", "mem::drop"]),
               "the writer of a cancelled write must end in a FutureWriter", g.loc())

        p = c.method("FutureWrite", "pin_project")
        rep.saw(p)
        nu = p.calls("Pin::new_unchecked")
        rep.ob("R20.3", f"FutureWrite::pin_project projects to self.raw {tag}",
               len(nu) == 1 and flows_from(p, p.origin(nu[0].args[0]),
                                           lambda o: o.get("kind") == "call" and ".raw" in o.get("proj", [])), "",
               p.loc())
    rep.guard("R20.3", f"drop-write {tag}", r3)

    # -------------------------------------------------------------------------------------------- R20.4
    def r4():
        rep.ob("R20.4", f"return-code constants BLOCKED/COMPLETED/DROPPED/CANCELLED {tag}",
               K == {"BLOCKED": 0xffff_ffff, "COMPLETED": 0, "DROPPED": 1, "CANCELLED": 2}, f"{K}")
        dec = c.method("ReturnCode", "decode")
        rep.saw(dec)
        want = {"BLOCKED": "Blocked", "COMPLETED": "Completed", "DROPPED": "Dropped", "CANCELLED": "Cancelled"}
        for n, var in want.items():
            B = sliced(dec, arg_value(1, K[n]))
            got = variants_in(dec, B, "ReturnCode")
            rep.ob("R20.4", f"ReturnCode::decode({n}) builds {var} {tag}", got == {var} and bool(returns_in(dec, B)),
                   f"{sorted(got)}", dec.loc())

        # ---- write
        f = wop(c, "FutureWriteOp", "in_progress_update")
        rep.saw(f)
        lift, dealloc = OPS + "lift", OPS + "dealloc_lists"
        rep.floor("R20.4", f"lift sites in FutureWriteOp::in_progress_update {tag}", len(f.calls(lift)), 1)
        rep.floor("R20.4", f"dealloc_lists sites in FutureWriteOp::in_progress_update {tag}", len(f.calls(dealloc)), 1)
        from_buf = is_arg(2, [".1"])
        from_writer = is_arg(2, [".0"])
        for n in ("BLOCKED", "COMPLETED", "DROPPED", "CANCELLED"):
            dcd = arg_value(3, K[n])
            B = sliced(f, dcd)
            lf, dl = calls_in(f, B, lift), calls_in(f, B, dealloc)
            res, wc = variants_in(f, B, "Result"), variants_in(f, B, "WriteComplete")
            loc = f.loc()
            if n == "BLOCKED":
                rep.ob("R20.4", f"write in_progress_update BLOCKED: stays in progress (Err), no lift, no dealloc_lists {tag}",
                       res == {"Err"} and not wc and not lf and not dl and bool(returns_in(f, B)),
                       f"Result {sorted(res)} WriteComplete {sorted(wc)} lift {len(lf)} dealloc {len(dl)}", loc)
                for b, rv in aggs_in(f, B, "Result", "Err"):
                    o = f.origin(rv["ops"][0])
                    rep.ob("R20.4", f"write in_progress_update BLOCKED: hands back the same writer and buffer {tag}",
                           o.get("kind") == "agg" and len(o["rv"]["ops"]) == 2 and
                           is_arg(2, [".0"], exact=True)(f.origin(o["rv"]["ops"][0])) and
                           is_arg(2, [".1"], exact=True)(f.origin(o["rv"]["ops"][1])), "", f.loc(b))
                continue
            if n == "COMPLETED":
                rep.ob("R20.4", f"write in_progress_update COMPLETED: dealloc_lists exactly once, no lift, Written {tag}",
                       len(dl) == 1 and not f.in_cycle(dl[0].bb) and always(f, dcd, [dl[0].bb]) and not lf and
                       wc == {"Written"} and res == {"Ok"},
                       f"Result {sorted(res)} WriteComplete {sorted(wc)} lift {len(lf)} dealloc {len(dl)}", loc)
                calls = dl
            else:
                var = "Dropped" if n == "DROPPED" else "Cancelled"
                rep.ob("R20.4", f"write in_progress_update {n}: lift exactly once, no dealloc_lists, {var} {tag}",
                       len(lf) == 1 and not f.in_cycle(lf[0].bb) and always(f, dcd, [lf[0].bb]) and not dl and
                       wc == {var} and res == {"Ok"},
                       f"Result {sorted(res)} WriteComplete {sorted(wc)} lift {len(lf)} dealloc {len(dl)}", loc)
                calls = lf
                for b, rv in aggs_in(f, B, "WriteComplete", var):
                    rep.ob("R20.4", f"write in_progress_update {n}: the value handed back is the lifted one {tag}",
                           is_call(lift, proj=[])(f.origin(rv["ops"][0])), "", f.loc(b))
            for x in calls:
                rep.ob("R20.4", f"write in_progress_update {n}: operates on this write's buffer and vtable {tag}",
                       op_flows(f, x.args[1], from_buf) and plain_ptr(f, x.args[1]) and
                       op_flows(f, x.args[0], from_writer),
                       "the pointer does not come from the Cleanup of this operation", f.loc(x.bb))
            for b, rv in aggs_in(f, B, "Result", "Ok"):
                o = f.origin(rv["ops"][0])
                rep.ob("R20.4", f"write in_progress_update {n}: the result carries the operation's writer {tag}",
                       o.get("kind") == "agg" and len(o["rv"]["ops"]) == 2 and
                       is_arg(2, [".0"], exact=True)(f.origin(o["rv"]["ops"][1])), "", f.loc(b))
        for other in (3, 0x10, 0x11):
            B = sliced(f, arg_value(3, other))
            rep.ob("R20.4", f"write in_progress_update code {other:#x}: no outcome is invented {tag}",
                   not variants_in(f, B, "WriteComplete") and not calls_in(f, B, [lift, dealloc]) and
                   variants_in(f, B, "Result") <= {"Err"} and not returns_in(f, B), "", f.loc())

        # ---- read
        g = wop(c, "FutureReadOp", "in_progress_update")
        rep.saw(g)
        rep.floor("R20.4", f"lift sites in FutureReadOp::in_progress_update {tag}", len(g.calls(lift)), 1)
        decs = g.calls("ReturnCode::decode")
        rep.floor("R20.4", f"ReturnCode::decode in FutureReadOp::in_progress_update {tag}", len(decs), 1)
        for x in decs:
            rep.ob("R20.4", f"read in_progress_update decodes the delivered code {tag}",
                   is_arg(3, [], exact=True)(g.origin(x.args[0])), "", g.loc(x.bb))
        rep.ob("R20.4", f"read in_progress_update never frees lists of a received value {tag}", not g.calls(dealloc),
               "", g.loc())
        of = is_call("ReturnCode::decode", proj=[])

        def scen(var, payload):
            return variant_of(of, var, payload, is_call("ReturnCode::decode", ["as " + var, ".0"]))
        for var, payload in (("Blocked", None), ("Completed", 0), ("Cancelled", 0), ("Dropped", 0), ("Completed", 1),
                             ("Cancelled", 1)):
            dcd = scen(var, payload)
            B = sliced(g, dcd)
            lf = calls_in(g, B, lift)
            res, rc = variants_in(g, B, "Result"), variants_in(g, B, "ReadComplete")
            nm = var if payload is None else f"{var}({payload})"
            detail = f"Result {sorted(res)} ReadComplete {sorted(rc)} lift {len(lf)}"
            if nm == "Blocked":
                rep.ob("R20.4", f"read in_progress_update Blocked: stays in progress (Err), no lift {tag}",
                       res == {"Err"} and not rc and not lf and bool(returns_in(g, B)), detail, g.loc())
                for b, rv in aggs_in(g, B, "Result", "Err"):
                    o = g.origin(rv["ops"][0])
                    rep.ob("R20.4", f"read in_progress_update Blocked: hands back the same reader and buffer {tag}",
                           o.get("kind") == "agg" and len(o["rv"]["ops"]) == 2 and
                           is_arg(2, [".0"], exact=True)(g.origin(o["rv"]["ops"][0])) and
                           is_arg(2, [".1"], exact=True)(g.origin(o["rv"]["ops"][1])), "", g.loc(b))
            elif nm == "Completed(0)":
                rep.ob("R20.4", f"read in_progress_update Completed(0): lift exactly once, Value {tag}",
                       len(lf) == 1 and not g.in_cycle(lf[0].bb) and always(g, dcd, [lf[0].bb]) and rc == {"Value"} and
                       res == {"Ok"}, detail, g.loc())
                for x in lf:
                    rep.ob("R20.4", f"read in_progress_update Completed(0): lifts from this read's buffer {tag}",
                           op_flows(g, x.args[1], is_arg(2, [".1"])) and plain_ptr(g, x.args[1]) and
                           op_flows(g, x.args[0], is_arg(2, [".0"])),
                           "", g.loc(x.bb))
                for b, rv in aggs_in(g, B, "ReadComplete", "Value"):
                    rep.ob("R20.4", f"read in_progress_update Completed(0): the value yielded is the lifted one {tag}",
                           is_call(lift, proj=[])(g.origin(rv["ops"][0])), "", g.loc(b))
            elif nm == "Cancelled(0)":
                rep.ob("R20.4", f"read in_progress_update Cancelled(0): no lift, Cancelled {tag}",
                       not lf and rc == {"Cancelled"} and res == {"Ok"} and bool(returns_in(g, B)), detail, g.loc())
            else:
                rep.ob("R20.4", f"read in_progress_update {nm}: no value is invented {tag}",
                       not lf and "Value" not in rc, detail, g.loc())
            if res & {"Ok"}:
                for b, rv in aggs_in(g, B, "Result", "Ok"):
                    o = g.origin(rv["ops"][0])
                    rep.ob("R20.4", f"read in_progress_update {nm}: the result carries the operation's reader {tag}",
                           o.get("kind") == "agg" and len(o["rv"]["ops"]) == 2 and
                           is_arg(2, [".0"], exact=True)(g.origin(o["rv"]["ops"][1])), "", g.loc(b))
    rep.guard("R20.4", f"in_progress_update {tag}", r4)

    # -------------------------------------------------------------------------------------------- R20.5
    def r5():
        f = wop(c, "FutureWriteOp", "result_into_cancel")
        rep.saw(f)
        of = is_arg(2, [".0"], exact=True)
        table = {"Written": "AlreadySent", "Dropped": "Dropped", "Cancelled": "Cancelled"}
        rep.floor("R20.5", f"RawFutureWriteCancel constructions in result_into_cancel {tag}",
                  len(f.aggregates("RawFutureWriteCancel")), 3)
        for v, want in table.items():
            B = sliced(f, variant_of(of, v))
            got = variants_in(f, B, "RawFutureWriteCancel")
            rep.ob("R20.5", f"write result_into_cancel: {v} => {want} {tag}", got == {want} and bool(returns_in(f, B)),
                   f"constructs {sorted(got)}", f.loc())
            for b, rv in aggs_in(f, B, "RawFutureWriteCancel", want):
                if v == "Dropped":
                    rep.ob("R20.5", f"write result_into_cancel: Dropped hands back the value {tag}",
                           is_arg(2, [".0", "as Dropped", ".0"], exact=True)(f.origin(rv["ops"][0])), "", f.loc(b))
                if v == "Cancelled":
                    rep.ob("R20.5", f"write result_into_cancel: Cancelled hands back the value and the operation's "
                                    f"writer {tag}",
                           is_arg(2, [".0", "as Cancelled", ".0"], exact=True)(f.origin(rv["ops"][0])) and
                           is_arg(2, [".1"], exact=True)(f.origin(rv["ops"][1])),
                           "the writer of a cancelled write is not handed back (it would be dropped unwritten)",
                           f.loc(b))
        rep.ob("R20.5", f"write result_into_cancel: no raw drop_writable / forget {tag}",
               not f.calls([OPS + "drop_writable", "mem::forget", "ManuallyDrop::new"]), "", f.loc())

        g = wop(c, "FutureReadOp", "result_into_cancel")
        rep.saw(g)
        rep.floor("R20.5", f"Result constructions in read result_into_cancel {tag}", len(g.aggregates("Result")), 2)
        for v, want in {"Value": "Ok", "Cancelled": "Err"}.items():
            B = sliced(g, variant_of(of, v))
            got = variants_in(g, B, "Result")
            rep.ob("R20.5", f"read result_into_cancel: {v} => {want} {tag}", got == {want} and bool(returns_in(g, B)),
                   f"constructs {sorted(got)}", g.loc())
            for b, rv in aggs_in(g, B, "Result", want):
                if v == "Value":
                    rep.ob("R20.5", f"read result_into_cancel: Value yields the received value {tag}",
                           is_arg(2, [".0", "as Value", ".0"], exact=True)(g.origin(rv["ops"][0])), "", g.loc(b))
                else:
                    rep.ob("R20.5", f"read result_into_cancel: Cancelled hands back the operation's reader {tag}",
                           is_arg(2, [".1"], exact=True)(g.origin(rv["ops"][0])), "", g.loc(b))

        # cancelled before it started
        h = wop(c, "FutureWriteOp", "start_cancelled")
        rep.saw(h)
        ag = h.aggregates("RawFutureWriteCancel")
        rep.ob("R20.5", f"write start_cancelled: Cancelled(value, writer) of the start state, nothing else {tag}",
               len(ag) == 1 and ag[0][2]["var"] == "Cancelled" and
               is_arg(2, [".1"], exact=True)(h.origin(ag[0][2]["ops"][0])) and
               is_arg(2, [".0"], exact=True)(h.origin(ag[0][2]["ops"][1])) and
               not h.calls([OPS + "start_write", OPS + "lower", OPS + "drop_writable"]) and not raw_drops(h),
               "", h.loc())
        k = wop(c, "FutureReadOp", "start_cancelled")
        rep.saw(k)
        ag = k.aggregates("Result")
        rep.ob("R20.5", f"read start_cancelled: Err(reader) of the start state {tag}",
               len(ag) == 1 and ag[0][2]["var"] == "Err" and is_arg(2, [], exact=True)(k.origin(ag[0][2]["ops"][0])) and
               not k.calls([OPS + "start_read", OPS + "drop_readable"]), "", k.loc())

        # the cancel built-in of the right direction, its code returned unchanged
        for ty, good, bad in (("FutureWriteOp", "cancel_write", "cancel_read"),
                              ("FutureReadOp", "cancel_read", "cancel_write")):
            m = wop(c, ty, "in_progress_cancel")
            rep.saw(m)
            cs = m.calls(OPS + good)
            rep.floor("R20.5", f"{good} call in {ty}::in_progress_cancel {tag}", len(cs), 1)
            rets = ret_origin_calls(m)
            rep.ob("R20.5", f"{ty}::in_progress_cancel: calls {good} exactly once on every path and returns its code {tag}",
                   len(cs) == 1 and not m.in_cycle(cs[0].bb) and every_return_passes(m, [cs[0].bb]) and
                   not m.calls(OPS + bad) and len(rets) == 1 and rets[0].bb == cs[0].bb and
                   ret_consts(m, m.live) <= {None},
                   "the outcome reported by the host is not the one processed", m.loc())
            for x in cs:
                rep.ob("R20.5", f"{ty}::in_progress_cancel: cancels this operation's handle {tag}",
                       op_flows(m, x.args[1], is_arg(2, [".0"])) and op_flows(m, x.args[0], is_arg(2, [".0", ".ops"])),
                       "", m.loc(x.bb))
    rep.guard("R20.5", f"cancel-tables {tag}", r5)

    # -------------------------------------------------------------------------------------------- R20.6
    def r6():
        ws = [g for g in c.fns.values() if "DeferredWrite" in (g.d.get("self_ty") or "") and
              (g.d.get("trait") or "").endswith("Wake") and g.npath.endswith("::wake")]
        if len(ws) != 1:
            raise mir.AnchorMissing(f"<DeferredWrite as Wake>::wake: {len(ws)} matches")
        f = ws[0]
        rep.saw(f)
        polls = f.calls("RawFutureWrite as futures::Future>::poll") or f.calls(re.compile(r"RawFutureWrite<.*Future>::poll"))
        rep.floor("R20.6", f"poll of the deferred write in DeferredWrite::wake {tag}", len(polls), 1)
        locks = f.calls("TryLock::try_lock")
        unwraps = [x for x in f.calls(["Option::unwrap", "Option::expect"]) if is_call("TryLock::try_lock")(f.origin(x.args[0]))]
        rep.ob("R20.6", f"DeferredWrite::wake: exactly one poll, not in a loop, on every path {tag}",
               len(polls) == 1 and not f.in_cycle(polls[0].bb) and every_return_passes(f, [polls[0].bb]), "", f.loc())
        for x in polls:
            rep.ob("R20.6", f"DeferredWrite::wake: polls under the lock (try_lock().unwrap() dominates poll) {tag}",
                   bool(locks) and bool(unwraps) and any(f.dominates(u.bb, x.bb) for u in unwraps) and
                   op_flows(f, x.args[0], is_call("TryLock::try_lock")),
                   "a re-entrant wake could poll the write concurrently", f.loc(x.bb))
            rep.ob("R20.6", f"DeferredWrite::wake: the waker handed to poll is a clone of this Arc {tag}",
                   op_flows(f, x.args[1], lambda o: is_call(re.compile(r"Arc<.*Clone>::clone|Arc.*::clone"))(o) and
                            op_flows(f, o["call"].args[0], is_arg(1, [], exact=True))) and
                   op_flows(f, x.args[1], is_call(re.compile(r"From<.*Arc<.*for core::task::Waker>::from|Waker.*::from"))),
                   "the completion event would not come back to finish (and free) the deferred write", f.loc(x.bb))
        sw = bool_switches(f, lambda o: is_call("Poll::is_ready")(o) or is_call("Poll::is_pending")(o))
        rep.floor("R20.6", f"is_ready test in DeferredWrite::wake {tag}", len(sw), 1)
        sc = f.calls("Arc::strong_count")
        rep.floor("R20.6", f"Arc::strong_count calls in DeferredWrite::wake {tag}", len(sc), 2)

        def asserted(start):
            """on every path start -> return a strong_count call is passed whose result decides a switch with a
            diverging edge"""
            ok_calls = []
            for x in sc:
                for b, t in f.switches():
                    o = f.switch_origin(b)
                    if not flows_from(f, o, lambda q, x=x: q.get("kind") == "call" and q["call"].bb == x.bb and
                                      q["call"].matches("Arc::strong_count")):
                        continue
                    if any(not returns_in(f, f.reachable(s)) for s in f.succ[b]):
                        ok_calls.append(b)
            return bool(ok_calls) and f.all_paths_pass(start, f.returns(), ok_calls)
        for b, ft, tt in sw:
            o = f.switch_origin(b)
            pend = is_call("Poll::is_pending")(o)
            ready_t, pending_t = (ft, tt) if pend else (tt, ft)
            rep.ob("R20.6", f"DeferredWrite::wake: Ready => strong count asserted {tag}", asserted(ready_t), "", f.loc(b))
            rep.ob("R20.6", f"DeferredWrite::wake: Pending => strong count asserted {tag}", asserted(pending_t),
                   "a pending default write whose waker was not stored is freed (and cancelled) when wake returns",
                   f.loc(b))
            rep.ob("R20.6", f"DeferredWrite::wake: is_ready is asked of the poll result {tag}",
                   op_flows(f, o["call"].args[0], is_call(re.compile(r"RawFutureWrite<.*Future>::poll"))), "", f.loc(b))

        w = c.method("RawFutureWriter", "write_and_forget")
        rep.saw(w)
        wr = w.calls("RawFutureWriter::write")
        wk = w.calls(re.compile(r"DeferredWrite<.*Wake>::wake|Wake::wake"))
        rep.ob("R20.6", f"write_and_forget: starts the write of (self, value) and wakes it once on every path {tag}",
               len(wr) == 1 and len(wk) == 1 and not w.in_cycle(wk[0].bb) and every_return_passes(w, [wk[0].bb]) and
               w.dominates(wr[0].bb, wk[0].bb) and is_arg(1, [], exact=True)(w.origin(wr[0].args[0])) and
               is_arg(2, [], exact=True)(w.origin(wr[0].args[1])) and
               op_flows(w, wk[0].args[0], is_call("RawFutureWriter::write")) and
               not raw_drops(w) and not w.calls(["mem::forget", OPS + "drop_writable"]),
               "the default value is never submitted", w.loc())
    rep.guard("R20.6", f"deferred-write {tag}", r6)

    # -------------------------------------------------------------------------------------------- R20.7 plumbing
    def r7():
        # FutureWriter::write consumes the writer without running its Drop
        f = c.method("FutureWriter", "write")
        rep.saw(f)
        fg = f.calls("mem::forget")
        wr = f.calls("RawFutureWriter::write")
        rep.floor("R20.7", f"mem::forget in FutureWriter::write {tag}", len(fg), 1)
        rep.ob("R20.7", f"FutureWriter::write: forgets self on every path (its Drop must not write a default too) {tag}",
               bool(fg) and every_return_passes(f, [x.bb for x in fg]) and
               all(is_arg(1, [], exact=True)(f.origin(x.args[0])) for x in fg) and not f.drops(r"FutureWriter<"),
               "the writer's Drop would run after the handle was moved into the write", f.loc())
        rep.ob("R20.7", f"FutureWriter::write: starts exactly one raw write of (self.raw, value) {tag}",
               len(wr) == 1 and not f.in_cycle(wr[0].bb) and every_return_passes(f, [wr[0].bb]) and
               is_call("ManuallyDrop::take")(f.origin(wr[0].args[0])) and
               op_flows(f, wr[0].args[0], is_arg(1, [".raw"], exact=True)) and
               is_arg(2, [], exact=True)(f.origin(wr[0].args[1])) and
               not f.calls(["RawFutureWriter::write_and_forget", "ManuallyDrop::drop"]), "", f.loc())
        ag = f.aggregates("FutureWrite")
        rep.ob("R20.7", f"FutureWriter::write: returns FutureWrite{{raw: that write, default: self.default}} {tag}",
               len(ag) == 1 and is_call("RawFutureWriter::write", proj=[])(f.origin(field_op(ag[0][2], "raw"))) and
               is_arg(1, [".default"], exact=True)(f.origin(field_op(ag[0][2], "default"))), "", f.loc())

        # future_new wraps the raw writer in a FutureWriter
        n = c.fn("future_support::future_new")
        rep.saw(n)
        nw = n.calls("FutureWriter::new")
        rep.ob("R20.7", f"future_new: the raw writer is wrapped by FutureWriter::new with the user's default {tag}",
               len(nw) == 1 and every_return_passes(n, [nw[0].bb]) and
               op_flows(n, nw[0].args[0], is_call("raw_future_new", [".0"])) and
               is_arg(1, [], exact=True)(n.origin(nw[0].args[1])) and not raw_drops(n), "", n.loc())
        fw = c.method("FutureWriter", "new")
        rep.saw(fw)
        ag = fw.aggregates("FutureWriter")
        rep.ob("R20.7", f"FutureWriter::new stores the raw writer and the default constructor {tag}",
               len(ag) == 1 and op_flows(fw, field_op(ag[0][2], "raw"), is_arg(1, [], exact=True)) and
               is_arg(2, [], exact=True)(fw.origin(field_op(ag[0][2], "default"))), "", fw.loc())

        # raw write / read operations are created in the Start state with their end
        rw = c.method("RawFutureWriter", "write")
        rep.saw(rw)
        nw = rw.calls("WaitableOperation::new")
        o = rw.origin(nw[0].args[1]) if len(nw) == 1 else {}
        rep.ob("R20.7", f"RawFutureWriter::write: WaitableOperation::new(FutureWriteOp, (self, value)) {tag}",
               len(nw) == 1 and "FutureWriteOp" in nw[0].arg_types[0] and o.get("kind") == "agg" and
               len(o["rv"]["ops"]) == 2 and is_arg(1, [], exact=True)(rw.origin(o["rv"]["ops"][0])) and
               is_arg(2, [], exact=True)(rw.origin(o["rv"]["ops"][1])) and not raw_drops(rw), "", rw.loc())
        inf = c.method("RawFutureReader", "into_future", trait="IntoFuture")
        rep.saw(inf)
        nw = inf.calls("WaitableOperation::new")
        rep.ob("R20.7", f"RawFutureReader::into_future: WaitableOperation::new(FutureReadOp, self) {tag}",
               len(nw) == 1 and "FutureReadOp" in nw[0].arg_types[0] and
               is_arg(1, [], exact=True)(inf.origin(nw[0].args[1])), "", inf.loc())

        # start: the built-in of the right direction, on this handle and this buffer; its code is returned
        for ty, good, bad in (("FutureWriteOp", "start_write", "start_read"), ("FutureReadOp", "start_read", "start_write")):
            s = wop(c, ty, "start")
            rep.saw(s)
            cs = s.calls(OPS + good)
            rep.floor("R20.7", f"{good} call in {ty}::start {tag}", len(cs), 1)
            ok = len(cs) == 1 and not s.in_cycle(cs[0].bb) and every_return_passes(s, [cs[0].bb]) and not s.calls(OPS + bad)
            # the returned tuple: (code, (end, cleanup))
            tup = []
            for b in s.live:
                for st in s.stmts(b):
                    if st["k"] == "=" and st["p"]["l"] == 0 and not st["p"].get("p") and st["rv"]["k"] == "agg":
                        tup.append(st["rv"])
            code_ok = len(tup) == 1 and len(tup[0]["ops"]) == 2 and is_call(OPS + good, proj=[])(s.origin(tup[0]["ops"][0]))
            state = s.origin(tup[0]["ops"][1]) if code_ok else {}
            state_ok = state.get("kind") == "agg" and len(state["rv"]["ops"]) == 2 and \
                flows_from(s, s.origin(state["rv"]["ops"][0]), is_arg(2)) and \
                is_call("Cleanup::new", [".1"])(s.origin(state["rv"]["ops"][1]))
            rep.ob("R20.7", f"{ty}::start: calls {good} once and returns its code with (end, buffer) {tag}",
                   ok and code_ok and state_ok, "the code interpreted is not the one the host returned", s.loc())
            for x in cs:
                rep.ob("R20.7", f"{ty}::start: {good} gets this end's handle and the operation's buffer {tag}",
                       op_flows(s, x.args[1], is_arg(2)) and op_flows(s, x.args[2], is_call("Cleanup::new", [".0"])) and
                       plain_ptr(s, x.args[2]),
                       "", s.loc(x.bb))
            if ty == "FutureWriteOp":
                lw = s.calls(OPS + "lower")
                rep.ob("R20.7", f"FutureWriteOp::start: lowers the value once into the buffer before start_write {tag}",
                       len(lw) == 1 and len(cs) == 1 and s.dominates(lw[0].bb, cs[0].bb) and not s.in_cycle(lw[0].bb) and
                       is_arg(2, [".1"], exact=True)(s.origin(lw[0].args[1])) and
                       op_flows(s, lw[0].args[2], is_call("Cleanup::new", [".0"])) and plain_ptr(s, lw[0].args[2]),
                       "the value written is not the caller's value", s.loc())
            else:
                rep.ob("R20.7", f"FutureReadOp::start: nothing is lowered or lifted when starting a read {tag}",
                       not s.calls([OPS + "lower", OPS + "lift"]), "", s.loc())

        # the buffer has the payload's canonical layout; the waitable waited on is this end's handle
        for ty in ("FutureWriteOp", "FutureReadOp"):
            s_ = wop(c, ty, "start")
            cn = s_.calls("Cleanup::new")
            rep.ob("R20.7", f"{ty}::start: one buffer, allocated with the payload's elem_layout {tag}",
                   len(cn) == 1 and not s_.in_cycle(cn[0].bb) and
                   is_call(OPS + "elem_layout", proj=[])(s_.origin(cn[0].args[0])), "", s_.loc())
        el = c.method("FutureVtable", "elem_layout", trait="FutureOps")
        rep.saw(el)
        rl = []
        for b in el.live:
            for st in el.stmts(b):
                if st["k"] == "=" and st["p"]["l"] == 0 and not st["p"].get("p"):
                    rl.append(el.stored(st))
        rep.ob("R20.7", f"<&FutureVtable as FutureOps>::elem_layout returns vtable.layout {tag}",
               len(rl) == 1 and is_arg(1, [".layout"], exact=True)(rl[0]) and not el.calls(), "", el.loc())
        ww = wop(c, "FutureWriteOp", "in_progress_waitable")
        rep.saw(ww)
        rl = []
        for b in ww.live:
            for st in ww.stmts(b):
                if st["k"] == "=" and st["p"]["l"] == 0 and not st["p"].get("p"):
                    rl.append(ww.stored(st))
        rep.ob("R20.7", f"FutureWriteOp::in_progress_waitable is the writer's handle {tag}",
               len(rl) == 1 and is_arg(2, [".0", ".handle"], exact=True)(rl[0]) and not ww.calls(),
               "the completion of this write would never be observed", ww.loc())
        rw_ = wop(c, "FutureReadOp", "in_progress_waitable")
        rep.saw(rw_)
        hc = rw_.calls("RawFutureReader::handle")
        rep.ob("R20.7", f"FutureReadOp::in_progress_waitable is the reader's handle {tag}",
               len(hc) == 1 and len(rw_.calls()) == 1 and returns_call(rw_, hc[0]) and
               op_flows(rw_, hc[0].args[0], is_arg(2, [".0"], exact=True)), "", rw_.loc())

        # future.new: reader in the low half, writer in the high half (canonical ABI: ri | wi << 32)
        rn = c.fn("future_support::raw_future_new")
        rep.saw(rn)
        mkw, mkr = rn.calls("RawFutureWriter::new"), rn.calls("RawFutureReader::new")
        nwc = rn.calls(OPS + "new")
        okh = len(mkw) == 1 and len(mkr) == 1 and len(nwc) == 1 and not rn.in_cycle(nwc[0].bb)
        if okh:
            ow, orr = rn.origin(mkw[0].args[0]), rn.origin(mkr[0].args[0])
            okh = ow.get("kind") == "bin" and ow["op"] == "Shr" and is_call(OPS + "new", proj=[])(ow["a"]) and \
                const_eval({k: v for k, v in ow["b"].items() if k != "casts"}) == 32 and \
                is_call(OPS + "new", proj=[])(orr)
        rep.ob("R20.7", f"raw_future_new: one future.new; writer = high half, reader = low half {tag}", okh,
               "the two ends of the future are confused", rn.loc())

        # poll: the futures forward to poll_complete and translate the outcome
        pw = c.method("RawFutureWrite", "poll", trait="Future")
        pr = c.method("RawFutureRead", "poll", trait="Future")
        for p, nm in ((pw, "RawFutureWrite"), (pr, "RawFutureRead")):
            rep.saw(p)
            pc = p.calls("WaitableOperation::poll_complete")
            rep.ob("R20.7", f"{nm}::poll forwards to poll_complete of its own operation once {tag}",
                   len(pc) == 1 and every_return_passes(p, [pc[0].bb]) and not p.in_cycle(pc[0].bb) and
                   is_call(nm + "::pin_project")(p.origin(pc[0].args[0])) and
                   op_flows(p, pc[0].args[0], is_arg(1, [], exact=True)), "", p.loc())
            pp = c.method(nm, "pin_project")
            nu = pp.calls("Pin::new_unchecked")
            rep.ob("R20.7", f"{nm}::pin_project projects to self.op {tag}",
                   len(nu) == 1 and flows_from(pp, pp.origin(nu[0].args[0]),
                                               lambda o: o.get("kind") == "call" and ".op" in o.get("proj", [])), "",
                   pp.loc())
            cn = c.method(nm, "cancel")
            rep.saw(cn)
            cc = cn.calls("WaitableOperation::cancel")
            rep.ob("R20.7", f"{nm}::cancel forwards to WaitableOperation::cancel of its own operation and returns its "
                            f"result {tag}",
                   len(cc) == 1 and every_return_passes(cn, [cc[0].bb]) and returns_call(cn, cc[0]) and
                   is_call(nm + "::pin_project")(cn.origin(cc[0].args[0])) and
                   op_flows(cn, cc[0].args[0], is_arg(1, [], exact=True)), "", cn.loc())
        tw = c.method("FutureWrite", "poll", trait="Future")
        rep.saw(tw)
        pc = tw.calls(re.compile(r"RawFutureWrite<.*Future>::poll"))
        rep.ob("R20.7", f"FutureWrite::poll forwards to RawFutureWrite::poll of self.raw {tag}",
               len(pc) == 1 and every_return_passes(tw, [pc[0].bb]) and returns_call(tw, pc[0]) and
               is_call("FutureWrite::pin_project")(tw.origin(pc[0].args[0])), "", tw.loc())

        cl = c.closures_of(pw)
        rep.floor("R20.7", f"outcome closure of RawFutureWrite::poll {tag}", len(cl), 1)
        of = is_arg(2, [".0"], exact=True)
        for k in cl:
            rep.saw(k)
            for v, want in (("Written", "Ok"), ("Dropped", "Err"), ("Cancelled", "Err")):
                B = sliced(k, variant_of(of, v))
                got = variants_in(k, B, "Result")
                rep.ob("R20.7", f"RawFutureWrite::poll: {v} => {want} {tag}", got == {want} and bool(returns_in(k, B)),
                       f"{sorted(got)}", k.loc())
                if want == "Err":
                    es = aggs_in(k, B, "FutureWriteError")
                    rep.ob("R20.7", f"RawFutureWrite::poll: {v} returns the unsent value in the error {tag}",
                           len(es) == 1 and
                           is_arg(2, [".0", "as " + v, ".0"], exact=True)(origin_in(k, es[0][1]["ops"][0], B)),
                           "", k.loc())
        cl = c.closures_of(pr)
        rep.floor("R20.7", f"outcome closure of RawFutureRead::poll {tag}", len(cl), 1)
        for k in cl:
            rep.saw(k)
            B = sliced(k, variant_of(of, "Value"))
            rets = []
            for b in B:
                for st in k.stmts(b):
                    if st["k"] == "=" and st["p"]["l"] == 0 and not st["p"].get("p"):
                        rets.append(k.stored(st))
            rep.ob("R20.7", f"RawFutureRead::poll: Value yields exactly the received value {tag}",
                   bool(returns_in(k, B)) and len(rets) == 1 and is_arg(2, [".0", "as Value", ".0"], exact=True)(rets[0]),
                   "", k.loc())
            B = sliced(k, variant_of(of, "Cancelled"))
            rep.ob("R20.7", f"RawFutureRead::poll: Cancelled yields nothing (panics) {tag}", not returns_in(k, B), "",
                   k.loc())

        # vtable forwarders call the same-named entry
        names = ["new", "lower", "dealloc_lists", "lift", "start_write", "start_read", "cancel_read", "cancel_write",
                 "drop_readable", "drop_writable"]
        nfw = 0
        for nm in names:
            m = c.method("FutureVtable", nm, trait="FutureOps")
            rep.saw(m)
            ind = ind_calls(m)
            mine = ind_calls(m, nm)
            nfw += len(mine)
            rep.ob("R20.7", f"<&FutureVtable as FutureOps>::{nm} calls vtable.{nm} once with its arguments and returns "
                            f"its result {tag}",
                   len(ind) == 1 and len(mine) == 1 and every_return_passes(m, [mine[0].bb]) and
                   not m.in_cycle(mine[0].bb) and returns_call(m, mine[0]) and len(mine[0].args) == m.argc - 1 and
                   all(is_arg(i + 2, [], exact=True)(m.origin(a)) for i, a in enumerate(mine[0].args)),
                   "a different entry of the vtable is invoked", m.loc())
        rep.floor("R20.7", f"vtable forwarders {tag}", nfw, 10)
    rep.guard("R20.7", f"plumbing {tag}", r7)

    # -------------------------------------------------------------------------------------------- R20.8 reader handle
    def r8():
        f = c.method("RawFutureReader", "drop", trait="Drop")
        rep.saw(f)
        dr = f.calls(OPS + "drop_readable")
        rep.floor("R20.8", f"drop_readable in Drop for RawFutureReader {tag}", len(dr), 1)
        of = is_call("RawFutureReader::opt_handle", proj=[])
        Bs = sliced(f, variant_of(of, "Some"))
        Bn = sliced(f, variant_of(of, "None"))
        rep.ob("R20.8", f"RawFutureReader::drop: a live handle is dropped exactly once {tag}",
               len(dr) == 1 and not f.in_cycle(dr[0].bb) and always(f, variant_of(of, "Some"), [dr[0].bb]) and
               op_flows(f, dr[0].args[1], is_call("RawFutureReader::opt_handle", ["as Some", ".0"])), "", f.loc())
        rep.ob("R20.8", f"RawFutureReader::drop: a taken handle is not dropped {tag}",
               not calls_in(f, Bn, OPS + "drop_readable") and bool(returns_in(f, Bn)) and bool(Bs), "", f.loc())
        t = c.method("RawFutureReader", "take_handle")
        rep.saw(t)
        st = t.calls(re.compile(r"Atomic.*::store"))
        rep.ob("R20.8", f"RawFutureReader::take_handle: marks the handle taken (u32::MAX) on every path {tag}",
               len(st) == 1 and every_return_passes(t, [st[0].bb]) and
               const_eval(t.origin(st[0].args[1])) == 0xffff_ffff and
               op_flows(t, st[0].args[0], is_arg(1, [".handle"], exact=True)),
               "a transferred readable end would be dropped a second time", t.loc())
        oh = c.method("RawFutureReader", "opt_handle")
        rep.saw(oh)
        ld = is_call(re.compile(r"Atomic.*::load"), proj=[])

        def dec(v):
            def d(fn, b, o):
                if ld(o):
                    return v
                return const_eval(o)
            return d
        rep.ob("R20.8", f"RawFutureReader::opt_handle: u32::MAX means taken, anything else is the handle {tag}",
               variants_in(oh, sliced(oh, dec(0xffff_ffff)), "Option") == {"None"} and
               variants_in(oh, sliced(oh, dec(7)), "Option") == {"Some"} and
               all(ld(oh.origin(rv["ops"][0])) for b, rv in aggs_in(oh, oh.live, "Option", "Some")), "", oh.loc())
    rep.guard("R20.8", f"reader-handle {tag}", r8)

    # -------------------------------------------------------------------------------------------- R20.9 who may drop
    def r9():
        allowed_drop = {"FutureWriteOp::result_into_cancel", "RawFutureWrite::poll::{closure#0}"}
        allowed_mdrop = {"FutureWriter::drop"}
        allowed_dw = {"RawFutureWriter::drop", "FutureVtable::drop_writable"}
        nd = nm = nw = 0
        for g in c.fns.values():
            if "future_support" not in g.path and "future_support" not in (g.d.get("self_ty") or ""):
                continue
            sh = short(g)
            for b, t in raw_drops(g):
                nd += 1
                rep.saw(g)
                rep.ob("R20.9", f"drop of a value holding a raw writable end in {sh} {tag}", sh in allowed_drop,
                       "a raw writer may only be dropped where Written / Dropped has been observed", g.loc(b))
            for x in g.calls(["ManuallyDrop::drop", "mem::drop", "ptr::drop_in_place"]):
                if any(holds_raw_writer(a) for a in x.arg_types):
                    nm += 1
                    rep.ob("R20.9", f"explicit drop of a raw writable end in {sh} {tag}", sh in allowed_mdrop, "",
                           g.loc(x.bb))
            for x in g.calls(OPS + "drop_writable"):
                nw += 1
                rep.ob("R20.9", f"drop_writable called in {sh} {tag}", sh in allowed_dw, "", g.loc(x.bb))
            for x in ind_calls(g, "drop_writable"):
                nw += 1
                rep.ob("R20.9", f"vtable.drop_writable called in {sh} {tag}", sh in allowed_dw, "", g.loc(x.bb))
        rep.floor("R20.9", f"drop sites of raw writers {tag}", nd, 2)
        rep.floor("R20.9", f"ManuallyDrop::drop of a raw writer {tag}", nm, 1)
        rep.floor("R20.9", f"drop_writable call sites {tag}", nw, 2)
        # result_into_cancel: the drop is not on the Cancelled arm (the writer was moved out there, see R20.5);
        # poll closure: Cancelled cannot be produced by a poll (assumption on the host); Written/Dropped may drop.
        d = c.method("RawFutureWriter", "drop", trait="Drop")
        rep.saw(d)
        dw = d.calls(OPS + "drop_writable")
        rep.ob("R20.9", f"RawFutureWriter::drop: drop_writable(self.handle) exactly once {tag}",
               len(dw) == 1 and not d.in_cycle(dw[0].bb) and every_return_passes(d, [dw[0].bb]) and
               is_arg(1, [".handle"], exact=True)(d.origin(dw[0].args[1])), "", d.loc())
    rep.guard("R20.9", f"who-drops {tag}", r9)

    # -------------------------------------------------------------------------------------------- R20.10 generic driver
    def r10():
        f = c.method("WaitableOperation", "cancel")
        rep.saw(f)
        st = lambda o: o.get("kind") == "call" and o["call"].matches("WaitableOperation::pin_project") and \
            _fp(o.get("proj", [])) == [".1"]
        nsw = 0
        first = None
        for b, t in f.switches():
            o = f.switch_origin(b)
            if o.get("kind") == "discr" and st(o["of"]) and set(o["vars"].values()) >= {"Start", "InProgress", "Done"}:
                nsw += 1
                if first is None or f.dominates(b, first):
                    first = b
        rep.floor("R20.10", f"state switch in WaitableOperation::cancel {tag}", nsw, 1)
        dS, dD = variant_of(st, "Start"), variant_of(st, "Done")
        BS, BD = sliced(f, dS), sliced(f, dD)
        sc = calls_in(f, BS, "WaitableOp::start_cancelled")
        rep.ob("R20.10", f"cancel in Start state: start_cancelled is returned, the host is never involved {tag}",
               len(f.calls("WaitableOp::start_cancelled")) == 1 and len(sc) == 1 and returns_call(f, sc[0]) and always(f, dS, [sc[0].bb]) and
               not calls_in(f, BS, ["WaitableOp::start", "WaitableOp::in_progress_cancel",
                                    "WaitableOp::in_progress_update", "WaitableOperation::poll_complete_with_code",
                                    "WaitableOp::result_into_cancel"]),
               "a write that never started must hand back value and writer without touching the host",
               f.loc(first) if first is not None else f.loc())
        for x in sc:
            o = f.origin(x.args[1])
            rep.ob("R20.10", f"cancel in Start state: start_cancelled gets the state taken by mem::replace(.., Done) {tag}",
                   is_call("mem::replace", ["as Start", ".0"])(o) and
                   any(rv["var"] == "Done" for b, i, rv, s in f.aggregates("WaitableOperationState")
                       if b == o["call"].bb), "", f.loc(x.bb))
        rep.ob("R20.10", f"cancel in Done state never returns {tag}", nsw >= 1 and not returns_in(f, BD),
               "cancelling twice (or after completion) would report a made-up outcome", f.loc())
        ipc = f.calls("WaitableOp::in_progress_cancel")
        rep.floor("R20.10", f"in_progress_cancel in WaitableOperation::cancel {tag}", len(ipc), 1)
        pcs = f.calls("WaitableOperation::poll_complete_with_code")
        ric = f.calls("WaitableOp::result_into_cancel")
        rep.floor("R20.10", f"result_into_cancel in WaitableOperation::cancel {tag}", len(ric), 2)
        for x in ipc:
            after = [p for p in pcs if p.bb in f.reachable(x.bb) and p.bb != x.bb]
            ok = len(ipc) == 1 and not f.in_cycle(x.bb) and len(after) == 1
            if ok:
                o = f.origin(after[0].args[2])
                ok = o.get("kind") == "agg" and o["rv"].get("var") == "Some" and \
                    is_call("WaitableOp::in_progress_cancel", proj=[])(f.origin(o["rv"]["ops"][0])) and \
                    f.all_paths_pass(x.bb, f.returns(), [after[0].bb])
            rep.ob("R20.10", f"cancel: the code returned by the cancel built-in is the one interpreted {tag}", ok,
                   "", f.loc(x.bb))
        for x in ric:
            o = f.origin(x.args[1])
            when = "after the cancel built-in" if any(x.bb in f.reachable(y.bb) for y in ipc) else "after a delivered code"
            rep.ob("R20.10", f"cancel: result_into_cancel ({when}) converts the Ready result of "
                             f"poll_complete_with_code and is returned {tag}",
                   is_call("WaitableOperation::poll_complete_with_code", ["as Ready", ".0"])(o) and returns_call(f, x),
                   "", f.loc(x.bb))
        rep.ob("R20.10", f"cancel: every return passes start_cancelled or result_into_cancel {tag}",
               every_return_passes(f, [x.bb for x in ric] + [x.bb for x in f.calls("WaitableOp::start_cancelled")]),
               "a cancel outcome is made up without consulting the operation", f.loc())
        # a racing delivered code is interpreted before cancelling
        tk = f.calls("Option::take")
        early = [p for p in pcs if not any(p.bb in f.reachable(x.bb) for x in ipc)]
        ok = False
        for p in early:
            o = f.origin(p.args[2])
            if o.get("kind") == "agg" and o["rv"].get("var") == "Some" and \
                    is_call("Option::take", ["as Some", ".0"])(f.origin(o["rv"]["ops"][0])):
                ok = True
        rep.ob("R20.10", f"cancel: a completion code already delivered is processed, not discarded {tag}",
               bool(tk) and ok, "a value already sent would be reported as cancelled", f.loc())

        g = c.method("WaitableOperation", "poll_complete_with_code")
        rep.saw(g)
        up = g.calls("WaitableOp::in_progress_update")
        rep.floor("R20.10", f"in_progress_update in poll_complete_with_code {tag}", len(up), 1)
        for x in up:
            rep.ob("R20.10", f"poll_complete_with_code: in_progress_update gets the delivered code and the state taken "
                             f"by mem::replace(.., Done) {tag}",
                   len(up) == 1 and not g.in_cycle(x.bb) and
                   is_arg(3, ["as Some", ".0"], exact=True)(g.origin(x.args[2])) and
                   is_call("mem::replace", ["as InProgress", ".0"])(g.origin(x.args[1])), "", g.loc(x.bb))
        of = is_call("WaitableOp::in_progress_update", proj=[])
        Bok = sliced(g, variant_of(of, "Ok"), start=up[0].bb) if up else set()
        Berr = sliced(g, variant_of(of, "Err"), start=up[0].bb) if up else set()
        rd = aggs_in(g, Bok, "Poll", "Ready")
        rep.ob("R20.10", f"poll_complete_with_code: Ok(result) is returned as Ready(result), without re-registering {tag}",
               len(rd) >= 1 and all(is_call("WaitableOp::in_progress_update", ["as Ok", ".0"])(g.origin(rv["ops"][0]))
                                    for b, rv in rd) and
               not calls_in(g, Bok - {up[0].bb} if up else set(), ["WaitableOperation::register_waker"]) and
               not aggs_in(g, Bok, "Poll", "Pending"), "", g.loc())
        back = [(b, rv) for b, rv in aggs_in(g, Berr, "WaitableOperationState", "InProgress")]
        rep.ob("R20.10", f"poll_complete_with_code: Err(state) is stored back as InProgress and reported Pending {tag}",
               len(back) >= 1 and all(is_call("WaitableOp::in_progress_update", ["as Err", ".0"])(g.origin(rv["ops"][0]))
                                      for b, rv in back) and not aggs_in(g, Berr, "Poll", "Ready"),
               "a blocked operation would lose its writer / buffer", g.loc())
    rep.guard("R20.10", f"driver {tag}", r10)
