"""R13.6 — the `{index}` of future/stream intrinsic names is the position in `func.find_futures_and_streams(..)`.

The component model names these intrinsics `[future-new-N]f`, `[stream-read-N]f`, ... where N is the position of the
future/stream type in the function's full list (wit-parser `Function::find_futures_and_streams`).  A backend that
numbers them after filtering, skipping, reversing or de-duplicating that list imports names the encoder assigns to a
different payload type (or to none).  Added after seeded change C13-c-future-stream-index was missed.
"""
from lib import synq
from lib.synq import render

POSITION_PRESERVING = {"into_iter", "iter", "enumerate", "map", "collect", "copied", "cloned", "zip", "peekable",
                       "by_ref", "inspect", "unwrap", "as_slice", "to_vec", "clone"}
FILES = {"c": ["crates/c/src/lib.rs"], "go": ["crates/go/src/lib.rs"], "rust": ["crates/rust/src/interface.rs"],
         "moonbit": ["crates/moonbit/src/async_support.rs", "crates/moonbit/src/lib.rs"],
         "csharp": ["crates/csharp/src/interface.rs", "crates/csharp/src/function.rs", "crates/csharp/src/world_generator.rs"],
         "cpp": ["crates/cpp/src/lib.rs"], "d": ["crates/d/src/lib.rs"]}
FLOOR = {"c": 1, "go": 1, "rust": 1, "moonbit": 1}


def chains_from(fn_body, target):
    """All maximal method chains whose innermost receiver is `target` (a call node): list of [method names]."""
    out = []
    nodes = list(synq.walk(fn_body))
    inner = {id(target)}
    best = None
    # grow outward: any mcall whose recv is in `inner` extends the chain
    changed = True
    chain = []
    cur = target
    while changed:
        changed = False
        for n in nodes:
            if n.get("k") == "mcall" and n["recv"] is cur:
                chain.append(n["method"])
                cur = n
                changed = True
                break
    return chain, cur


def index_obligations(rep, rule, backends):
    for be in backends:
        sites = []
        for rel in FILES.get(be, []):
            try:
                fns = synq.all_fns(rel)
            except Exception:
                continue
            for f in fns:
                if f.body is None:
                    continue
                for c in synq.method_calls(f.body, "find_futures_and_streams"):
                    sites.append((rel, f, c))
        if be in FLOOR:
            rep.floor(rule, f"{be}: uses of Function::find_futures_and_streams", len(sites), FLOOR[be])
        for rel, f, c in sites:
            chain, outer = chains_from(f.body, c)
            # a `let x = <chain>;` continues through uses of x only if x is enumerated later: look for that
            bound = [nm for nm, init, st in synq.bindings(f.body) if init is outer]
            extra = []
            if bound:
                for n in synq.walk(f.body):
                    if n.get("k") == "mcall" and n["method"] in ("enumerate",):
                        root = n["recv"]
                        names = []
                        while root.get("k") == "mcall":
                            names.append(root["method"])
                            root = root["recv"]
                        if root.get("k") == "path" and root["path"] == bound[0]:
                            extra = list(reversed(names)) + ["enumerate"]
            full = chain + extra
            upto = full[:full.index("enumerate") + 1] if "enumerate" in full else full
            bad = [m for m in upto if m not in POSITION_PRESERVING]
            inst = f"{be}: {f.self_ty or ''}::{f.name}: future/stream intrinsics are numbered by position in find_futures_and_streams"
            if "enumerate" not in full:
                # the list is used without numbering here (e.g. only to test emptiness / collect payload types)
                rep.ob(rule, inst + " (site does not number)", True, f"chain {full}", f.loc(c), nontrivial=False)
                continue
            rep.ob(rule, inst, not bad,
                   f"`{'.'.join(upto)}`: `{', '.join(bad)}` changes the positions before enumerate(), so `[future-*-N]`/`[stream-*-N]` "
                   "names no longer match the indices the component model assigns", f.loc(c))
