"""C25 — source buffer: literal text never changes indentation or comment state (one clause)."""
from lib import mir
from .rtcommon import is_true_edge, is_false_edge

CLAIM = dict(
    level="other", engine="mirfacts", design="DESIGN.md §5 C25",
    technique="MIR guard-dominance: every state-changing store / buffer removal in Source::push_str_impl is dominated "
              "by the `interpret_syntax = true` edge; constant-argument check at the two entry points; who-may-write; must-clear of the comment flag on every path of `newline`",
    text="Decides only the clause 'text appended as literal never changes indentation or comment state for later "
         "text': in push_str_impl every store to `indent`, every store of `true` to `in_line_comment` and every removal "
         "from the buffer is reachable only when interpret_syntax is true (the removal additionally only outside a line "
         "comment and after a two-space tail), push_str_literal passes false and push_str true; and the comment state is line-scoped (every line end clears it, whoever appended the line). Text preservation and "
         "brace tracking quantify over string contents and are not decided.",
    note="mir")

REMOVERS = ["String::pop", "String::truncate", "String::clear", "String::remove", "String::drain",
            "String::replace_range", "String::retain", "String::split_off", "String::remove_matches"]


def run(rep, tier):
    rep.describe(
        "other",
        "One clause of C25 decided on MIR of wit-bindgen-core: literal appends cannot alter `indent`, cannot set "
        "`in_line_comment`, and cannot remove buffer contents, because all such effects are dominated by the true edge "
        "of the `interpret_syntax` parameter, which push_str_literal fixes to false. NOT decided: that the buffer holds "
        "exactly the appended text, indentation following brace nesting, balanced code restoring indentation (these "
        "quantify over string contents); `as_mut_string` bypasses the bookkeeping by design.",
        trusted_base=["rustc MIR of wit-bindgen-core", "std String/str methods"],
    )
    c = mir.load("ws", "wit_bindgen_core", "rlib")
    f = c.method("Source", "push_str_impl")
    rep.saw(f)
    # the bool parameter
    bool_args = [i for i in range(1, f.argc + 1) if f.locals[i] == "bool"]
    rep.ob("R25.0", "push_str_impl has exactly one bool parameter (the interpret flag)", len(bool_args) == 1, f"{bool_args}", f.loc())
    if len(bool_args) != 1:
        return
    flag = bool_args[0]

    def guards(site):
        g = {"interp": False, "not_comment": False, "two_space_tail": False}
        for sw, vals, o in f.guard_edges(site):
            if o.get("kind") == "arg" and o.get("n") == flag and not o.get("proj") and is_true_edge(vals):
                g["interp"] = True
            if o.get("kind") == "arg" and o.get("n") == 1 and ".in_line_comment" in o.get("proj", []) and is_false_edge(vals):
                g["not_comment"] = True
            if o.get("kind") == "call" and o["call"].matches("str::<impl str>::ends_with") and is_true_edge(vals):
                a = f.origin(o["call"].args[1])
                if a.get("s") == "  ":
                    g["two_space_tail"] = True
        return g

    def r1():
        st = f.field_stores("indent")
        rep.floor("R25.1", "stores to `indent` in push_str_impl", len(st), 2)
        for n, (bb, i, s) in enumerate(st):
            rep.ob("R25.1", f"store #{n} to `indent` only when interpreting syntax", guards(bb)["interp"],
                   "a literal append can change indentation", f.loc(bb))
        ct = [(bb, i, s) for bb, i, s in f.field_stores("in_line_comment") if f.stores_const(s, 1) or not f.stores_const(s, 0)]
        rep.floor("R25.1", "stores of true to `in_line_comment` in push_str_impl", len(ct), 1)
        for n, (bb, i, s) in enumerate(ct):
            rep.ob("R25.1", f"store #{n} of true to `in_line_comment` only when interpreting syntax", guards(bb)["interp"],
                   "a literal append can start a line comment", f.loc(bb))
    rep.guard("R25.1", "state stores", r1)

    def r2():
        rm = f.calls(REMOVERS)
        rep.floor("R25.2", "buffer removals in push_str_impl", len(rm), 2)
        for n, call in enumerate(rm):
            g = guards(call.bb)
            rep.ob("R25.2", f"buffer removal #{n} only when interpreting syntax, outside a line comment, after a two-space tail",
                   all(g.values()), f"{g}", f.loc(call.bb))
        rep.ob("R25.2", "the only removal is the two-character de-indent", len(rm) == 2 and all(x.matches("String::pop") for x in rm),
               f"{[x.callee for x in rm]}", f.loc())
        # every other call that takes &mut self.s only appends
        muts = []
        for call in f.calls():
            if call.args:
                o = f.origin(call.args[0])
                if o.get("kind") == "arg" and o.get("n") == 1 and ".s" in o.get("proj", []) and "&" in o.get("proj", []) and \
                        call.arg_types and call.arg_types[0].startswith("&mut"):
                    muts.append(call)
        other = [x for x in muts if not x.matches(REMOVERS) and not x.matches(["String::push_str", "String::push", "Extend<&'a str>>::extend", "Extend<char>>::extend",
                                                                         "Extend<&str>>::extend", "Extend<std::string::String>>::extend"])
                 and not (x.callee.endswith("::extend") and "iter::Extend" in x.callee and "String as" in x.callee)]
        rep.ob("R25.2", "all other mutations of the buffer in push_str_impl are appends", not other,
               f"{[x.callee for x in other]}", f.loc())
    rep.guard("R25.2", "buffer removals", r2)

    def r3():
        for nm, want in (("push_str", 1), ("push_str_literal", 0)):
            g = c.method("Source", nm)
            rep.saw(g)
            calls = g.calls("Source::push_str_impl")
            ok = len(calls) == 1 and g.origin(calls[0].args[2]).get("v") == want and g.origin(calls[0].args[2]).get("kind") == "const"
            rep.ob("R25.3", f"{nm} calls push_str_impl with interpret_syntax = {'true' if want else 'false'}", ok, "", g.loc())
            rep.ob("R25.3", f"{nm} does nothing else to the state", not g.field_stores("indent") and not g.field_stores("in_line_comment"),
                   "", g.loc())
    rep.guard("R25.3", "entry points", r3)

    def r4():
        allowed_indent = {"push_str_impl", "indent", "deindent", "set_indent", "append_src"}
        allowed_comment = {"push_str_impl", "newline", "append_src"}
        n = 0
        for g in c.fns.values():
            if not g.npath.startswith("crate::source::") and "source::Source" not in g.npath:
                continue
            name = g.npath.split("::")[-1]
            for bb, i, s in g.field_stores("indent"):
                n += 1
                rep.ob("R25.4", f"`indent` written in {name}", name in allowed_indent, "unexpected writer of Source.indent", g.loc(bb))
            for bb, i, s in g.field_stores("in_line_comment"):
                n += 1
                rep.ob("R25.4", f"`in_line_comment` written in {name}", name in allowed_comment,
                       "unexpected writer of Source.in_line_comment", g.loc(bb))
        rep.floor("R25.4", "writers of indent / in_line_comment in source.rs", n, 7)
        nl = c.method("Source", "newline")
        rep.saw(nl)
        rep.ob("R25.4", "newline only clears the comment flag", all(nl.stores_const(s, 0) for _, _, s in nl.field_stores("in_line_comment"))
               and not nl.field_stores("indent"), "", nl.loc())
        # push_str_impl calls no other Source method that could change indent (only newline)
        selfcalls = [x for x in f.calls() if any(n_.startswith("crate::source::Source::") for n_ in x.names())]
        rep.ob("R25.4", "push_str_impl delegates only to newline", all(x.matches("Source::newline") for x in selfcalls) and bool(selfcalls),
               f"{[x.callee for x in selfcalls]}", f.loc())
    rep.guard("R25.4", "who may write", r4)

    def r5():
        # The comment state is line-scoped: whoever ends a line (interpreted or literal text) ends the comment.
        # Accepted shapes: (a) `newline` clears the flag on every path to its return, or (b) push_str_impl clears it
        # at a line start (under the `!continuing_line` edge only, never under the interpret flag).
        nl = c.method("Source", "newline")
        clears = [bb for bb, i, s in nl.field_stores("in_line_comment") if nl.stores_const(s, 0)]
        form_a = bool(clears) and all(nl.set_dominates(set(clears), r) for r in nl.returns())
        form_b = False
        for bb, i, s in f.field_stores("in_line_comment"):
            if not f.stores_const(s, 0):
                continue
            ge = f.guard_edges(bb)
            on_flag = any(o.get("kind") == "arg" and o.get("n") == flag and not o.get("proj") for _, _, o in ge)
            at_line_start = any(o.get("kind") == "arg" and o.get("n") == 1 and ".continuing_line" in o.get("proj", [])
                                and is_false_edge(vals) for _, vals, o in ge)
            if at_line_start and not on_flag:
                form_b = True
        rep.ob("R25.5", "every line end clears the comment state (in `newline` on every path, or at the next line start, "
               "independent of the interpret flag)", form_a or form_b,
               "a line comment can outlive its line: later interpreted braces are skipped", nl.loc())
        # and every '\n' the buffer receives from push_str_impl comes from `newline`
        nlcalls = f.calls("Source::newline")
        rep.floor("R25.5", "calls of newline in push_str_impl", len(nlcalls), 1)
    rep.guard("R25.5", "comment state is line-scoped", r5)

