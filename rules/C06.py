"""C06 — Rust guest bindings neither leak nor double-free (structural clauses on the generator's templates)."""
import re

from lib import facts, synq
from lib.mir import AnchorMissing
from lib.synq import render, short

BINDGEN = "crates/rust/src/bindgen.rs"
IFACE = "crates/rust/src/interface.rs"
RUSTLIB = "crates/rust/src/lib.rs"
CORE = "crates/core/src/abi.rs"
RTMOD = "crates/guest-rust/src/rt/mod.rs"

CLAIM = dict(
    level="other", engine="synfacts", design="DESIGN.md §5 C06",
    technique="symbolic assembly of the generated Rust text of every `FunctionBindgen::emit` arm that allocates, hands over, "
              "takes over or frees a buffer, per generator path (the `realloc` test decided, other tests forked), parsed as "
              "Rust and checked structurally; sibling agreement of size / alignment expressions; path enumeration of the "
              "`needs_cleanup_list` consumers; the core realloc table",
    text="Decides that in the Rust backend every template that allocates or receives a buffer is paired, on every generator "
         "path, with exactly one ownership action of the right kind: guard kept (callee borrows) or forgotten (callee takes "
         "over) for ListLower/MapLower; mem::forget of an exact-capacity boxed slice iff ownership is passed for "
         "ListCanonLower/StringLower; Vec::from_raw_parts(ptr, len, len) take-over and no free for ListCanonLift/StringLift; "
         "one cabi_dealloc(base, len * size, align) after the element loop for ListLift/MapLift/GuestDeallocateList/Map with "
         "the allocation's own size and alignment; cleanup_list declared wherever the flag can be set. Heap balance of an "
         "execution is not decided.",
    note="syn")

# generator calls whose result differs from call to call (a local bound to one of these is its own value)
FRESH = {"tmp", "pop", "drain", "remove", "swap_remove", "next", "take", "split_off", "push", "insert", "extend",
         "replace", "new"}
# `&mut self` helpers of FunctionBindgen that do not write generated source
QUIET_SELF = {"tmp", "map_entry_layout", "typename_lower", "typename_lift", "lift_lower", "push_str", "cleanup"}
STRINGY_M = {"to_string", "to_owned", "clone", "as_str", "into", "as_ref", "borrow", "deref"}
MAXPATHS = 512


def pos(n):
    sp = n.get("sp") or [0, 0, 0, 0]
    return (sp[0], sp[1])


def end(n):
    sp = n.get("sp") or [0, 0, 0, 0]
    return (sp[2], sp[3])


def children(n):
    """direct child *expression / statement* nodes of n in source order (patterns skipped)"""
    out = []

    def rec(v):
        if isinstance(v, dict):
            if "k" in v:
                if not str(v["k"]).startswith("p_"):
                    out.append(v)
            else:
                for x in v.values():
                    rec(x)
        elif isinstance(v, list):
            for x in v:
                rec(x)
    for key, v in n.items():
        if key in ("pat", "sp", "msp"):
            continue
        rec(v)
    out.sort(key=pos)
    return out


def strip_refs(s):
    s = s.strip()
    while s[:1] in "&*" or s.startswith("mut "):
        s = s[4:] if s.startswith("mut ") else s[1:]
        s = s.strip()
    while s.startswith("(") and s.endswith(")") and balanced(s[1:-1]):
        s = s[1:-1].strip()
    return s


def balanced(s):
    d = 0
    for ch in s:
        d += ch == "("
        d -= ch == ")"
        if d < 0:
            return False
    return d == 0


class Gen:
    """Symbolic model of a piece of generator code (a match arm or a fn body): which generated text it writes on which
    path.  Locals are resolved through their binder (never by their spelling): string builders are expanded, other
    values become placeholders `__hN` keyed by a canonical rendering of the expression that produced them."""

    def __init__(self, root, base_env, decide=None):
        self.root = root
        self.base = dict(base_env)
        self.decide_hook = decide
        self.entries = []          # (activation pos, name, token, binder dict)
        self.nfresh = 0
        self.ph = {}               # canon text -> placeholder
        self.ph_rev = {}
        self._collect()

    # ------------------------------------------------------------ binders
    def fresh(self):
        self.nfresh += 1
        return f"%{self.nfresh}"

    def _collect(self):
        raw = []
        for n in synq.walk(self.root):
            k = n.get("k")
            if k == "let":
                raw.append((end(n), 0, n))
            elif k == "for":
                raw.append((pos(n["pat"]) if "sp" in n["pat"] else pos(n), 1, n))
            elif k == "closure":
                raw.append((pos(n), 2, n))
            elif k == "let_cond":
                raw.append((pos(n), 3, n))
            elif k is None and "pat" in n and "body" in n:      # match arm
                raw.append((pos(n["pat"]) if "sp" in n["pat"] else pos(n["body"]), 4, n))
        raw.sort(key=lambda t: t[0])
        for act, kind, n in raw:
            if kind == 0:
                pat, init = n["pat"], n.get("init")
                if pat.get("k") == "p_ident" and init is not None:
                    tok = self.canon(init) if self.pure(init) else self.fresh()
                    self.entries.append((act, pat["name"], tok, {"init": init, "let": n}))
                elif pat.get("k") == "p_struct" and init is not None:
                    base = self.canon(init)
                    for fld in pat["fields"]:
                        for b in synq.walk(fld["pat"]):
                            if b.get("k") == "p_ident":
                                self.entries.append((act, b["name"], f"{strip_refs(base)}.{fld['name']}", {"let": n}))
                else:
                    for b in synq.walk(pat):
                        if b.get("k") == "p_ident":
                            self.entries.append((act, b["name"], self.fresh(), {"let": n}))
            else:
                pats = n["params"] if kind == 2 else [n["pat"]]
                for p in pats:
                    for b in synq.walk(p):
                        if b.get("k") == "p_ident" and not b["name"][:1].isupper():
                            self.entries.append((act, b["name"], self.fresh(), {}))
        self.entries.sort(key=lambda t: t[0])

    def env_at(self, p):
        env = dict(self.base)
        for act, name, tok, b in self.entries:
            if act <= p:
                env[name] = tok
        return env

    def binder(self, name, p):
        best = None
        for act, nm, tok, b in self.entries:
            if nm == name and act <= p:
                best = (tok, b)
        return best

    def pure(self, e):
        for n in synq.walk(e):
            if n.get("k") == "mcall" and n["method"] in FRESH:
                return False
            if n.get("k") == "call" and n["func"].get("k") == "path" and short(n["func"]["path"]) in FRESH:
                return False
        return True

    def canon(self, e):
        """canonical text of a generator expression: locals replaced by what they were bound to"""
        if e is None:
            return ""
        return render(e, self.env_at(pos(e)))

    # ------------------------------------------------------------ generated text
    def hole(self, key):
        if key not in self.ph:
            self.ph[key] = f"__h{len(self.ph)}"
            self.ph_rev[self.ph[key]] = key
        return self.ph[key]

    def is_stringy(self, e):
        k = e.get("k")
        if k == "str":
            return True
        if k == "macro" and short(e["name"]) == "format":
            return True
        if k in ("ref",):
            return self.is_stringy(e["e"])
        if k == "mcall" and e["method"] in STRINGY_M and not e["args"]:
            return self.is_stringy(e["recv"])
        if k == "call" and render(e["func"]) in ("String::from", "String::from_str") and len(e["args"]) == 1:
            return self.is_stringy(e["args"][0])
        return False

    def text(self, e, at=None, depth=0):
        """the generated text a String-valued generator expression stands for"""
        if depth > 12:
            return self.hole(self.canon(e))
        k = e.get("k")
        if k == "str":
            return e["v"]
        if k == "ref":
            return self.text(e["e"], at, depth + 1)
        if k == "unary" and e["op"] in ("*", "&"):
            return self.text(e["e"], at, depth + 1)
        if k == "mcall" and e["method"] in STRINGY_M and not e["args"]:
            return self.text(e["recv"], at, depth + 1)
        if k == "call" and render(e["func"]) in ("String::from", "String::from_str") and len(e["args"]) == 1:
            return self.text(e["args"][0], at, depth + 1)
        if k == "macro" and short(e["name"]) == "format":
            fm = synq.Fmt(e)
            if fm.template is not None:
                return self.expand(fm, depth)
        if k == "path" and "::" not in e["path"]:
            p = at if at is not None else pos(e)
            b = self.binder(e["path"], p)
            if b is not None:
                tok, info = b
                init = info.get("init")
                if init is not None and self.is_stringy(init) and self.pure(init):
                    return self.text(init, None, depth + 1)
                return self.hole(tok)
            if e["path"] in self.base:
                return self.hole(self.base[e["path"]])
        return self.hole(self.canon(e) if at is None else render(e, self.env_at(at)))

    def expand(self, fm, depth=0):
        out = []
        last = 0
        npos = 0
        t = fm.template
        for m in re.finditer(r"\{\{|\}\}|\{([^{}]*)\}", t):
            out.append(t[last:m.start()])
            last = m.end()
            if m.group(0) == "{{":
                out.append("{")
                continue
            if m.group(0) == "}}":
                out.append("}")
                continue
            inner = m.group(1)
            name, _, spec = inner.partition(":")
            name = name.strip()
            if name == "":
                e = fm.positional[npos] if npos < len(fm.positional) else None
                npos += 1
            elif name.isdigit():
                e = fm.positional[int(name)] if int(name) < len(fm.positional) else None
            elif name in fm.named:
                e = fm.named[name]
            else:
                e = {"k": "path", "path": name, "sp": fm.node.get("sp")}
            if e is None:
                out.append(self.hole("?missing-argument"))
            else:
                s = self.text(e, None, depth + 1)
                out.append(s if not spec.strip() else self.hole(s + ":" + spec))
        out.append(t[last:])
        return "".join(out)

    # ------------------------------------------------------------ paths
    def decide(self, c):
        """True / False / None for a generator condition"""
        k = c.get("k")
        if k == "unary" and c["op"] == "!":
            d = self.decide(c["e"])
            return None if d is None else not d
        if k == "binary" and c["op"] in ("&&", "||"):
            a, b = self.decide(c["l"]), self.decide(c["r"])
            if c["op"] == "&&":
                return False if (a is False or b is False) else True if (a and b) else None
            return True if (a or b) else False if (a is False and b is False) else None
        if k == "path" and "::" not in c["path"]:
            b = self.binder(c["path"], pos(c))
            if b is not None and b[1].get("init") is not None and self.pure(b[1]["init"]):
                return self.decide(b[1]["init"])
        if self.decide_hook is not None:
            return self.decide_hook(self, c)
        return None

    def norm_cond(self, c):
        """(canonical text without leading negations, polarity)"""
        pol = True
        while c.get("k") == "unary" and c["op"] == "!":
            c = c["e"]
            pol = not pol
        return self.canon(c), pol

    @staticmethod
    def compose(xs, ys):
        out = []
        for a, e in xs:
            for a2, e2 in ys:
                d = dict(a)
                ok = True
                for key, v in a2:
                    if key in d and d[key] != v:
                        ok = False
                        break
                if ok:
                    out.append((a + [x for x in a2 if x[0] not in d], e + e2))
        if len(out) > MAXPATHS:
            raise AnchorMissing(f"more than {MAXPATHS} generator paths")
        return out

    def seq(self, nodes):
        acc = [([], [])]
        for n in nodes:
            acc = self.compose(acc, self.ev(n))
        return acc

    def ev(self, n):
        k = n.get("k")
        if k in ("closure", "item_stmt", "fn"):
            return [([], [])]
        if k == "if":
            c = n["cond"]
            pre = self.ev(c["e"]) if c.get("k") == "let_cond" else self.ev(c)
            d = self.decide(c)
            key, pol = self.norm_cond(c)
            br = []
            if d is not False:
                tag = [] if d is True else [(key, pol)]
                br += self.compose([(tag, [])], self.ev(n["then"]))
            if d is not True:
                tag = [] if d is False else [(key, not pol)]
                br += self.compose([(tag, [])], self.ev(n["else"]) if n.get("else") else [([], [])])
            return self.compose(pre, br)
        if k == "match":
            pre = self.ev(n["scrut"])
            arms = synq.arms(n)
            chosen = None
            if self.decide_hook is not None:
                chosen = self.decide_hook(self, n)
            br = []
            for i, a in enumerate(arms):
                if chosen is not None and a.node is not chosen:
                    continue
                tag = [] if chosen is not None else [(self.canon(n["scrut"]) + " matches", "|".join(a.heads) + f"#{i}")]
                body = self.ev(a.body)
                br += self.compose([(tag, [])], body)
            return self.compose(pre, br)
        if k in ("for", "while", "loop"):
            pre = self.ev(n["iter"]) if k == "for" else [([], [])]
            return self.compose(pre, self.ev(n["body"]))
        acc = self.seq(children(n))
        own = self.own(n)
        if own:
            acc = self.compose(acc, [([], own)])
        return acc

    def own(self, n):
        k = n.get("k")
        if k == "mcall":
            r = strip_refs(self.canon(n["recv"]))
            m = n["method"]
            if m == "push_str" and r in ("self", "self.src") and len(n["args"]) == 1:
                return [("src", self.text(n["args"][0]), n)]
            if m == "push" and r == "$results" and len(n["args"]) == 1:
                return [("res", self.text(n["args"][0]), n)]
            if m == "push" and r == "self.blocks" and len(n["args"]) == 1:
                return [("blk", self.text(n["args"][0]), n)]
            if r == "self" and m == "cleanup" and len(n["args"]) == 1:
                return [("src", f"\n__self_cleanup({self.text(n['args'][0])});\n", n)]
            if r == "self" and m not in QUIET_SELF:
                return [("src", f"\n__self_other();\n", n), ("other", m, n)]
        if k == "macro":
            nm = short(n["name"])
            if nm in ("uwrite", "uwriteln", "write", "writeln") and n.get("args"):
                fm = synq.Fmt(n)
                if fm.dest is not None and strip_refs(self.canon(fm.dest)) == "self.src":
                    t = self.expand(fm) if fm.template is not None else ""
                    return [("src", t + ("\n" if nm.endswith("ln") else ""), n)]
            if nm == "assert" and n.get("args"):
                return [("assert", self.canon(n["args"][0]), n)]
        if k == "assign" or (k == "binary" and n.get("op") == "="):
            return [("set", strip_refs(self.canon(n["l"])), self.canon(n["r"]), n)]
        return []

    def paths(self):
        return self.ev(self.root)


# ---------------------------------------------------------------- the generated fragment of one path
class Frag:
    def __init__(self, gen, events):
        self.gen = gen
        self.src = "".join(e[1] for e in events if e[0] == "src")
        self.res = [e[1] for e in events if e[0] == "res"]
        self.other = [e[1] for e in events if e[0] == "other"]
        text = self.src + "\n;__results(" + ", ".join(self.res) + ");\n"
        self.text = text
        self.ast = facts.parse_snippet(text)
        self.ok = "error" not in self.ast and self.ast.get("mode") == "block"
        self.stmts = self.ast.get("stmts", []) if self.ok else []
        self.results = []
        for s in self.stmts:
            e = s.get("e") if s.get("k") == "expr_stmt" else None
            if e is not None and e.get("k") == "call" and render(e["func"]) == "__results":
                self.results = e["args"]

    def key(self, e):
        """canonical generator expression behind a generated placeholder path (else the rendered generated text)"""
        t = render(e)
        return self.gen.ph_rev.get(t, t)

    def top_index(self, node):
        for i, s in enumerate(self.stmts):
            if any(x is node for x in synq.walk(s)):
                return i
        return -1

    def is_top_stmt(self, node):
        """node is a top-level statement's own expression (not nested in a loop / branch / block)"""
        for s in self.stmts:
            if s.get("k") == "expr_stmt" and s["e"] is node:
                return True
            if s.get("k") == "let" and s.get("init") is node:
                return True
        return False

    def top_lets(self):
        return {s["pat"]["name"]: (i, s) for i, s in enumerate(self.stmts)
                if s.get("k") == "let" and s["pat"].get("k") == "p_ident" and s.get("init") is not None}

    def calls(self, pred):
        return [n for s in self.stmts for n in synq.walk(s) if n.get("k") == "call" and n["func"].get("k") == "path"
                and render(n["func"]) != "__results" and pred(n)]

    def mcalls(self, method):
        return [n for s in self.stmts for n in synq.walk(s) if n.get("k") == "mcall" and n["method"] == method]

    def loops(self):
        return [(i, s["e"]) for i, s in enumerate(self.stmts) if s.get("k") == "expr_stmt" and s["e"].get("k") == "for"]


def tagp(assump):
    return "" if not assump else " when " + " and ".join(f"{'' if v is True else 'not ' if v is False else ''}{k}"
                                                         f"{'' if isinstance(v, bool) else ' ' + str(v).split('#')[0]}"
                                                         for k, v in assump)


# ---------------------------------------------------------------- emit arms
def emit_fn():
    cands = [f for f in synq.all_fns(BINDGEN) if f.name == "emit" and f.body is not None and f.trait == "Bindgen"]
    if len(cands) != 1:
        raise AnchorMissing(f"{BINDGEN}: `impl Bindgen .. fn emit`: {len(cands)} candidates")
    f = cands[0]
    ms = [x for x in synq.matches_in(f.body) if len([h for a in synq.arms(x) for h in a.heads if "Instruction::" in h]) >= 20]
    if len(ms) != 1:
        raise AnchorMissing(f"{BINDGEN}: emit: {len(ms)} `match` tables over Instruction")
    return f, ms[0]


def explicit_arm(m, name):
    a = synq.arm_for(m, "Instruction::" + name)
    if a is None or "_" in a.heads:
        raise AnchorMissing(f"emit has no explicit arm for Instruction::{name}")
    return a


def emit_base_env(f):
    ps = f.params
    env = {"self": "self"}
    # Bindgen::emit(&mut self, resolve, inst, operands, results): positions are fixed by the trait
    if len(ps) == 5:
        for i, role in ((1, "$resolve"), (2, "$inst"), (3, "$operands"), (4, "$results")):
            if ps[i]:
                env[ps[i]] = role
    return env


def arm_env(f, arm):
    env = emit_base_env(f)
    for alt in arm.alts:
        if alt.get("k") == "p_struct":
            for fld in alt["fields"]:
                for b in synq.walk(fld["pat"]):
                    if b.get("k") == "p_ident":
                        env[b["name"]] = "$" + fld["name"]
    return env


def realloc_decider(val):
    """decide `realloc.is_none()` / `is_some()` / `if let Some(_) = realloc` / `match realloc` for realloc = val"""
    def hook(g, c):
        k = c.get("k")
        if k == "mcall" and c["method"] in ("is_none", "is_some") and strip_refs(g.canon(c["recv"])) == "$realloc":
            return (c["method"] == "is_none") == (val == "None")
        if k == "let_cond" and strip_refs(g.canon(c["e"])) == "$realloc":
            h = short(synq.pat_head(c["pat"]))
            if h in ("Some", "None"):
                return h == val
        if k == "macro" and short(c["name"]) == "matches" and c.get("expr") is not None and \
                strip_refs(g.canon(c["expr"])) == "$realloc":
            h = short(synq.pat_head(c["pat"]))
            if h in ("Some", "None"):
                return h == val
        if k == "match" and strip_refs(g.canon(c["scrut"])) == "$realloc":
            for a in synq.arms(c):
                if any(short(h) == val for h in a.heads):
                    return a.node
            for a in synq.arms(c):
                if "_" in a.heads:
                    return a.node
        return None
    return hook


def arm_paths(f, arm, val=None):
    g = Gen(arm.body, arm_env(f, arm), realloc_decider(val) if val else None)
    return g, g.paths()


def mul_parts(e):
    """(count, size) of a generated `count * size` expression"""
    if e.get("k") == "binary" and e["op"] == "*":
        return e["l"], e["r"]
    return None, None


def ends_with(path, suffix):
    return path == suffix or path.endswith("::" + suffix)


DEALLOC_RE = re.compile(r"\.path_to_cabi_dealloc\(\)$")
VEC_RE = re.compile(r"\.path_to_vec\(\)$")
LEAKY = {"forget", "leak", "into_raw", "into_raw_parts", "into_raw_parts_with_alloc"}


def stable(s):
    return re.sub(r"%\d+", "_", s)


def is_op(fr, e, n):
    """generated expression e is operand n of the instruction (directly, or a top-level `let` bound to it)"""
    want = f"$operands[{n}]"
    if strip_refs(fr.key(e)) == want:
        return True
    if e.get("k") == "path":
        tl = fr.top_lets().get(e["path"])
        return tl is not None and strip_refs(fr.key(tl[1]["init"])) == want
    return False


def leaky(fr):
    return [render(n) for n in fr.calls(lambda n: short(render(n["func"])) in LEAKY or "ManuallyDrop" in render(n["func"]))] + \
           [render(n) for m in LEAKY for n in fr.mcalls(m)]


def frees(fr):
    return fr.calls(lambda n: DEALLOC_RE.search(fr.key(n["func"])) is not None)


def loop_stride(fr, loop, base):
    """size operands S of every `base.add(index * S)` inside the loop, index = the loop's counting variable"""
    pat = loop["pat"]
    idx = None
    if pat.get("k") == "p_ident":
        idx = pat["name"]
    elif pat.get("k") == "p_tuple" and pat["elems"] and pat["elems"][0].get("k") == "p_ident":
        idx = pat["elems"][0]["name"]
    out = []
    for n in synq.walk(loop["body"]):
        if n.get("k") == "mcall" and n["method"] == "add" and render(n["recv"]) == base and len(n["args"]) == 1:
            c, s = mul_parts(n["args"][0])
            out.append(fr.key(s) if c is not None and render(c) == idx else "?" + render(n["args"][0]))
    return out


def iter_root(e):
    while e.get("k") == "mcall" and e["method"] in ("into_iter", "iter", "enumerate", "iter_mut"):
        e = e["recv"]
    return e


def frag_paths(rep, rule, f, name, arm, val):
    g, ps = arm_paths(f, arm, val)
    out = []
    for a, ev in ps:
        fr = Frag(g, ev)
        inst = f"{name}" + (f" [realloc = {val}]" if val else "") + stable(tagp(a))
        if rep.ob(rule, f"{inst}: the text written on this path parses as Rust", fr.ok,
                  str(fr.ast.get("error", ""))[:160] + " <<" + fr.text[:200] + ">>" if not fr.ok else "", f.loc(arm.node)):
            out.append((inst, a, fr))
    return out


# ---------------------------------------------------------------- R6.1 ListLower / MapLower
def alloc_arm(rep, f, name, arm, sib):
    loc = f.loc(arm.node)
    nsite = 0
    for val in ("None", "Some"):
        for inst, a, fr in frag_paths(rep, "R6.1", f, name, arm, val):
            nsite += 1
            news = fr.calls(lambda n: ends_with(render(n["func"]), "Cleanup::new"))
            tl = None
            for i, s in enumerate(fr.stmts):
                if s.get("k") == "let" and news and s.get("init") is news[0]:
                    tl = (i, s)
            shape = len(news) == 1 and tl is not None and tl[1]["pat"].get("k") == "p_tuple" and \
                [e.get("k") for e in tl[1]["pat"]["elems"]] == ["p_ident", "p_ident"] and len(news[0]["args"]) == 1
            rep.ob("R6.1", f"{inst}: one `Cleanup::new(layout)` whose (pointer, guard) pair is bound to two named variables "
                           "of the enclosing generated scope", shape,
                   f"{len(news)} call(s); bound by pattern {synq.pat_head(tl[1]['pat']) if tl else None}", loc)
            if not shape:
                continue
            at, st = tl
            P, C = (e["name"] for e in st["pat"]["elems"])
            lets = fr.top_lets()
            # the layout
            L = news[0]["args"][0]
            li = lets.get(L.get("path")) if L.get("k") == "path" else None
            lay = None
            if li is not None and li[0] < at:
                e = li[1]["init"]
                if e.get("k") == "mcall" and e["method"] in ("unwrap", "expect"):
                    e = e["recv"]
                if e.get("k") == "call" and short(render(e["func"])) in ("from_size_align", "from_size_align_unchecked") and \
                        "Layout" in render(e["func"]) and len(e["args"]) == 2:
                    lay = e
            cnt, sz = mul_parts(lay["args"][0]) if lay else (None, None)
            rep.ob("R6.1", f"{inst}: the guard is created for Layout(count * size, align)", lay is not None and cnt is not None,
                   render(li[1]["init"]) if li else "layout is not a generated variable", loc)
            # keep / forget
            marks = fr.calls(lambda n: render(n["func"]) == "__self_cleanup")
            fm = fr.mcalls("forget")
            lk = leaky(fr)
            if val == "None":
                ok = len(marks) == 1 and fr.is_top_stmt(marks[0]) and fr.top_index(marks[0]) > at and \
                    [render(x) for x in marks[0]["args"]] == [C]
                rep.ob("R6.1", f"{inst}: the guard is handed to self.cleanup exactly once, after it was created "
                               "(the callee only borrows the buffer)", ok,
                       f"{len(marks)} self.cleanup call(s) with {[render(x) for m_ in marks for x in m_['args']]}, guard `{stable(C)}`", loc)
                rep.ob("R6.1", f"{inst}: the guard is never forgotten (that would leak the buffer)", not lk, f"{lk}", loc)
            else:
                ok = False
                det = f"{len(fm)} `.forget()` call(s)"
                if len(fm) == 1:
                    for i, s in enumerate(fr.stmts):
                        e = s.get("e") if s.get("k") == "expr_stmt" else None
                        if e is not None and e.get("k") == "if" and e["cond"].get("k") == "let_cond" and i > at:
                            c = e["cond"]
                            pt = c["pat"]
                            if pt.get("k") == "p_tuple_struct" and short(pt["path"]) == "Some" and len(pt["elems"]) == 1 and \
                                    pt["elems"][0].get("k") == "p_ident" and render(c["e"]) == C and e.get("else") is None and \
                                    any(x is fm[0] for x in synq.walk(e["then"])) and render(fm[0]["recv"]) == pt["elems"][0]["name"]:
                                ok = True
                    det += f"; guard `{stable(C)}`"
                rep.ob("R6.1", f"{inst}: the guard, when there is one, is forgotten exactly once after it was created "
                               "(the callee takes the buffer over)", ok and len(lk) == 1, det + f" {lk}", loc)
                rep.ob("R6.1", f"{inst}: the guard is not also queued for release (that would free a buffer the callee owns)",
                       not marks, f"{len(marks)} self.cleanup call(s)", loc)
            # what is handed on and how it is filled
            loops = fr.loops()
            okl = len(loops) == 1 and loops[0][0] > at
            X = render(iter_root(loops[0][1]["iter"])) if okl else None
            res = [render(r) for r in fr.results]
            nlet = lets.get(res[1]) if len(res) == 2 else None
            nfrom = None
            if nlet is not None and nlet[1]["init"].get("k") == "mcall" and nlet[1]["init"]["method"] in ("len", "wit_map_len"):
                nfrom = render(nlet[1]["init"]["recv"])
            rep.ob("R6.1", f"{inst}: the results are (the allocated pointer, the element count of the lowered collection)",
                   len(res) == 2 and res[0] == P and okl and nfrom == X and X in lets, f"results {stable(str(res))}, loop over {X}", loc)
            cok = False
            if cnt is not None and okl:
                cr = render(cnt)
                cok = cr == (res[1] if len(res) == 2 else None) and nfrom == X or \
                    (cnt.get("k") == "mcall" and cnt["method"] in ("len", "wit_map_len") and render(cnt["recv"]) == X)
            rep.ob("R6.1", f"{inst}: the allocation is sized by the element count of the collection the loop writes", cok,
                   f"count `{stable(render(cnt)) if cnt else None}`, loop over `{stable(str(X))}`", loc)
            st_ = loop_stride(fr, loops[0][1], P) if okl else []
            rep.ob("R6.1", f"{inst}: element i is written at pointer + i * size with the size the layout was computed from",
                   sz is not None and st_ == [fr.key(sz)], f"stride {st_}, layout size {fr.key(sz) if sz else None}", loc)
            rep.ob("R6.1", f"{inst}: no other FunctionBindgen helper writes into this template", not fr.other, f"{fr.other}", loc)
            if lay is not None and sz is not None:
                sib.setdefault(name, set()).add((fr.key(sz), fr.key(lay["args"][1])))
    return nsite


# ---------------------------------------------------------------- R6.2 ListCanonLower / StringLower
def canon_lower_arm(rep, f, name, arm):
    loc = f.loc(arm.node)
    nsite = 0
    for val in ("None", "Some"):
        for inst, a, fr in frag_paths(rep, "R6.2", f, name, arm, val):
            nsite += 1
            lets = fr.top_lets()
            res = fr.results
            # pointer = V.as_ptr()..., length = V.len()
            V = None
            pl = None
            if len(res) == 2:
                root = res[0]
                while root.get("k") == "mcall":
                    root = root["recv"]
                pl = lets.get(root.get("path")) if root.get("k") == "path" else None
                if pl is not None:
                    ap = [n for n in synq.walk(pl[1]["init"]) if n.get("k") == "mcall" and n["method"] in ("as_ptr", "as_mut_ptr")]
                    if len(ap) == 1 and ap[0]["recv"].get("k") == "path":
                        V = ap[0]["recv"]["path"]
            nl = lets.get(render(res[1])) if len(res) == 2 else None
            nok = nl is not None and nl[1]["init"].get("k") == "mcall" and nl[1]["init"]["method"] == "len" and \
                render(nl[1]["init"]["recv"]) == V
            rep.ob("R6.2", f"{inst}: the results are (buffer.as_ptr(), buffer.len()) of one generated variable", V in lets and nok,
                   f"results {stable(str([render(r) for r in res]))}", loc)
            lk = leaky(fr)
            fc = fr.calls(lambda n: short(render(n["func"])) == "forget")
            if val == "None":
                rep.ob("R6.2", f"{inst}: the caller's buffer is only borrowed: nothing is forgotten or leaked", not lk, f"{lk}", loc)
                rep.ob("R6.2", f"{inst}: the borrowed value is the operand itself (kept alive by the caller's scope)",
                       V in lets and is_op(fr, lets[V][1]["init"], 0), f"{stable(render(lets[V][1]['init'])) if V in lets else None}", loc)
            else:
                ok = len(fc) == 1 and len(lk) == 1 and fr.is_top_stmt(fc[0]) and [render(x) for x in fc[0]["args"]] == [V] and \
                    ends_with(render(fc[0]["func"]), "mem::forget")
                after = ok and pl is not None and nl is not None and fr.top_index(fc[0]) > max(pl[0], nl[0])
                rep.ob("R6.2", f"{inst}: the buffer handed to the callee is forgotten exactly once (mem::forget), after its "
                               "pointer and length were read", after, f"{lk}", loc)
                init = lets[V][1]["init"] if V in lets else None
                rep.ob("R6.2", f"{inst}: the forgotten buffer is a boxed slice (capacity = length, so the taker frees exactly "
                               "length * size)", init is not None and init.get("k") == "mcall" and init["method"] == "into_boxed_slice",
                       stable(render(init)) if init else "", loc)
            rep.ob("R6.2", f"{inst}: no free and no other FunctionBindgen helper in this template", not frees(fr) and not fr.other,
                   f"{len(frees(fr))} free(s), {fr.other}", loc)
    return nsite


# ---------------------------------------------------------------- R6.3 take-over and free
def takeover_arm(rep, f, name, arm):
    loc = f.loc(arm.node)
    nsite = 0
    for inst, a, fr in frag_paths(rep, "R6.3", f, name, arm, None):
        nsite += 1
        fp = fr.calls(lambda n: short(render(n["func"])) == "from_raw_parts")
        ok = len(fp) == 1 and len(fp[0]["args"]) == 3
        rep.ob("R6.3", f"{inst}: the received buffer is taken over by exactly one from_raw_parts(ptr, len, capacity)", ok,
               f"{[stable(render(c_)) for c_ in fp]}", loc)
        if not ok:
            continue
        c = fp[0]
        ty = render(c["func"]).rsplit("::", 1)[0]
        rep.ob("R6.3", f"{inst}: the taker is the owning Vec type (not a borrowed slice)", VEC_RE.search(fr.gen.ph_rev.get(ty, ty)) is not None,
               f"{fr.gen.ph_rev.get(ty, ty)}::from_raw_parts", loc)
        a0 = c["args"][0]
        while a0.get("k") == "mcall" and a0["method"] in ("cast", "cast_mut", "cast_const"):
            a0 = a0["recv"]
        rep.ob("R6.3", f"{inst}: from_raw_parts(operand 0, len, len) with len = operand 1 as both length and capacity",
               is_op(fr, a0, 0) and is_op(fr, c["args"][1], 1) and render(c["args"][1]) == render(c["args"][2]),
               stable(render(c)), loc)
        used = False
        if len(fr.results) == 1:
            r = fr.results[0]
            names = {n_ for n_, (i, s) in fr.top_lets().items() if any(x is c for x in synq.walk(s["init"]))}
            used = any(x is c for x in synq.walk(r)) or any(x.get("k") == "path" and x["path"] in names for x in synq.walk(r))
        rep.ob("R6.3", f"{inst}: the owning value is the instruction's single result", used,
               stable(str([render(r) for r in fr.results])), loc)
        rep.ob("R6.3", f"{inst}: the buffer is not also freed or forgotten here", not frees(fr) and not leaky(fr) and not fr.other,
               f"{len(frees(fr))} free(s), {leaky(fr)} {fr.other}", loc)
    return nsite


def free_arm(rep, f, name, arm, sib, lifting):
    loc = f.loc(arm.node)
    nsite = 0
    withloop = 0
    for inst, a, fr in frag_paths(rep, "R6.3", f, name, arm, None):
        nsite += 1
        fs = frees(fr)
        ok = len(fs) == 1 and fr.is_top_stmt(fs[0]) and len(fs[0]["args"]) == 3
        rep.ob("R6.3", f"{inst}: exactly one cabi_dealloc, unconditional, in the instruction's own scope", ok, f"{len(fs)} free(s)", loc)
        if not ok:
            continue
        c = fs[0]
        at = fr.top_index(c)
        B, A1, A2 = c["args"]
        cnt, sz = mul_parts(A1)
        rep.ob("R6.3", f"{inst}: cabi_dealloc(operand 0, operand 1 * size, align)", B.get("k") == "path" and is_op(fr, B, 0) and
               cnt is not None and is_op(fr, cnt, 1), stable(render(c)), loc)
        loops = fr.loops()
        if lifting or loops:
            okl = len(loops) == 1 and loops[0][0] < at
            lp = loops[0][1] if loops else None
            rng = lp["iter"] if lp else None
            rok = okl and rng.get("k") == "range" and render(rng.get("start")) == "0" and rng.get("limits") == ".." and \
                cnt is not None and render(rng.get("end")) == render(cnt)
            rep.ob("R6.3", f"{inst}: the element loop runs over 0..operand 1 and the buffer is freed only after it", rok,
                   f"{len(loops)} loop(s), range {render(rng) if rng else None}", loc)
            st_ = loop_stride(fr, lp, render(B)) if okl else []
            rep.ob("R6.3", f"{inst}: element i is read at operand 0 + i * size with the size that is freed",
                   sz is not None and st_ == [fr.key(sz)], f"stride {st_}, freed size {fr.key(sz) if sz else None}", loc)
            if okl:
                withloop += 1
        if lifting:
            res = [render(r) for r in fr.results]
            rl = fr.top_lets().get(res[0]) if len(res) == 1 else None
            rep.ob("R6.3", f"{inst}: the lifted collection (created before the loop) is the single result",
                   rl is not None and loops and rl[0] < loops[0][0], stable(str(res)), loc)
        rep.ob("R6.3", f"{inst}: nothing is forgotten and no other FunctionBindgen helper writes here", not leaky(fr) and not fr.other,
               f"{leaky(fr)} {fr.other}", loc)
        if sz is not None:
            sib.setdefault(name, set()).add((fr.key(sz), fr.key(A2)))
    rep.ob("R6.3", f"{name}: some path walks the elements before freeing", withloop >= 1, f"{withloop} of {nsite} path(s)", loc)
    return nsite


def scalar_free_arm(rep, f, name, arm):
    loc = f.loc(arm.node)
    nsite = 0
    for inst, a, fr in frag_paths(rep, "R6.3", f, name, arm, None):
        nsite += 1
        fs = frees(fr)
        ok = len(fs) == 1 and fr.is_top_stmt(fs[0]) and len(fs[0]["args"]) == 3
        rep.ob("R6.3", f"{inst}: exactly one cabi_dealloc, unconditional", ok and not leaky(fr) and not fr.other, f"{len(fs)} free(s)", loc)
        if not ok:
            continue
        args = fs[0]["args"]
        if name == "GuestDeallocateString":
            rep.ob("R6.3", f"{inst}: cabi_dealloc(operand 0, operand 1, 1): the byte buffer StringLower forgot", is_op(fr, args[0], 0) and
                   is_op(fr, args[1], 1) and render(args[2]) == "1", stable(render(fs[0])), loc)
        else:
            k1, k2 = fr.key(args[1]), fr.key(args[2])
            rep.ob("R6.3", f"{inst}: cabi_dealloc(operand 0, the instruction's size, the instruction's align)", is_op(fr, args[0], 0) and
                   k1.startswith("$size.") and k2.startswith("$align."), f"{k1}, {k2}", loc)
    return nsite


# ---------------------------------------------------------------- sibling agreement (allocation vs the two frees)
def siblings(rep, f, sib):
    ncmp = 0
    for grp, own in ((("ListLower", "ListLift", "GuestDeallocateList"), ["$element"]),
                     (("MapLower", "MapLift", "GuestDeallocateMap"), ["$key", "$value"])):
        lo, li, de = grp
        for a_, b_ in ((li, lo), (de, lo), (de, li)):
            x, y = sib.get(a_, set()), sib.get(b_, set())
            for i, k in enumerate(("size", "align")):
                xs, ys = {t[i] for t in x}, {t[i] for t in y}
                ncmp += 1
                rep.ob("R6.3", f"the {k} expression freed by {a_} is the one {b_} {'allocates' if b_ == lo else 'frees'} with",
                       len(xs) == 1 and xs == ys, f"{a_}: {sorted(xs)}; {b_}: {sorted(ys)}", f.loc())
        for n in grp:
            for i, (k, anti) in enumerate((("size", "align"), ("align", "size"))):
                vs = {t[i] for t in sib.get(n, set())}
                ok = bool(vs) and all(re.search(r"\.%s\b" % k, v) and not re.search(r"\.%s\b" % anti, v) and
                                      all(o in v for o in own) for v in vs)
                rep.ob("R6.3", f"{n}: the {k} is the {k} of the instruction's own {' / '.join(o[1:] for o in own)}", ok,
                       f"{sorted(vs)}", f.loc())
    rep.floor("R6.3", "allocation / free expression pairs compared", ncmp, 12)


# ---------------------------------------------------------------- R6.7 census of ownership primitives over all arms
CENSUS = (
    ("a `Cleanup::new` template", r"Cleanup::new", {"ListLower", "MapLower"}),
    ("a `mem::forget` / leak / into_raw / ManuallyDrop template", r"mem::forget|\.leak\(|Box::leak|into_raw|ManuallyDrop|into_boxed_slice",
     {"ListCanonLower", "StringLower"}),
    ("a `from_raw_parts` template", r"from_raw_parts", {"ListCanonLift", "StringLift"}),
)
FREE_ARMS = {"ListLift", "MapLift", "GuestDeallocate", "GuestDeallocateString", "GuestDeallocateList", "GuestDeallocateMap"}


def census(rep, f, m):
    arms = synq.arms(m)
    names = lambda a: {short(h) for h in a.heads}
    for what, rx, allowed in CENSUS:
        hit = set()
        for a in arms:
            if any(re.search(rx, s["v"]) for s in synq.strings(a.body)):
                hit |= names(a)
        rep.ob("R6.7", f"{what} is written by exactly the audited arms {sorted(allowed)}", hit == allowed, f"found in {sorted(hit)}", f.loc())
    hit = set()
    nfree = 0
    for a in arms:
        c = synq.method_calls(a.body, "path_to_cabi_dealloc")
        if c or any(re.search(r"cabi_dealloc", s["v"]) for s in synq.strings(a.body)):
            hit |= names(a)
            nfree += len(c)
    rep.ob("R6.7", f"the free primitive is used by exactly the audited arms {sorted(FREE_ARMS)}", hit == FREE_ARMS, f"found in {sorted(hit)}", f.loc())
    rep.floor("R6.7", "arms using the free primitive", nfree, 6)
    hit = set()
    for a in arms:
        if synq.method_calls(a.body, "cleanup", recv="self"):
            hit |= names(a)
    rep.ob("R6.7", "self.cleanup is called by exactly ListLower and MapLower", hit == {"ListLower", "MapLower"}, f"{sorted(hit)}", f.loc())
    # outside emit: no other function of the two generator files writes these primitives
    out = []
    for rel in (BINDGEN, IFACE):
        for g in synq.all_fns(rel):
            if g.body is None or (rel == BINDGEN and g.node is f.node):
                continue
            for s in synq.strings(g.body):
                if re.search(r"mem::forget|Cleanup::new|Vec::from_raw_parts|cabi_dealloc\(|\{dealloc\}\(", s["v"]):
                    out.append(f"{g.name}")
            if g.name != "path_to_cabi_dealloc" and synq.method_calls(g.body, "path_to_cabi_dealloc"):
                out.append(g.name)
    rep.ob("R6.7", "no function of bindgen.rs / interface.rs other than emit writes a forget, guard, take-over or free template",
           not out, f"{sorted(set(out))}", BINDGEN)


# ---------------------------------------------------------------- R6.1 the cleanup helper and block nesting
def nested_when(key):
    """for a recognised emptiness test of self.block_storage: the truth value under which generation is nested in a block"""
    k = key.replace(" ", "")
    if re.fullmatch(r"\(self\.block_storage\.len\(\)(>0|!=0|>=1)\)", k):
        return True
    if re.fullmatch(r"\(self\.block_storage\.len\(\)(==0|<1)\)", k) or k == "self.block_storage.is_empty()":
        return False
    return None


def cleanup_helper(rep):
    cf = synq.find_fn(BINDGEN, "cleanup", self_ty="FunctionBindgen")
    rep.saw(f"{BINDGEN}::FunctionBindgen::cleanup")
    ps = [p for p in cf.params if p != "self"]
    g = Gen(cf.body, {"self": "self", **({ps[0]: "$value"} if len(ps) == 1 and ps[0] else {})})
    listnames = set()
    nwrite = 0
    for a, ev in g.paths():
        src = "".join(e[1] for e in ev if e[0] == "src")
        flag = any(e[0] == "set" and e[1] == "self.needs_cleanup_list" and e[2] == "true" for e in ev)
        ast = facts.parse_snippet(src) if src.strip() else {"mode": "block", "stmts": []}
        ext = []
        if "error" not in ast:
            for s in ast.get("stmts", []):
                e = s.get("e") if s.get("k") == "expr_stmt" else None
                if e is not None and e.get("k") == "mcall" and e["method"] in ("extend", "push") and e["recv"].get("k") == "path" and \
                        [g.ph_rev.get(render(x)) for x in e["args"]] == ["$value"]:
                    ext.append(e["recv"]["path"])
        listnames |= set(ext)
        nwrite += len(ext)
        inst = "cleanup()" + stable(tagp(a))
        rep.ob("R6.1", f"{inst}: the written text is either nothing or one `<list>.extend(<the guard passed in>)`",
               "error" not in ast and len(ext) == len(ast.get("stmts", [])) <= 1, src.strip()[:80], cf.loc())
        if ext:
            rep.ob("R6.1", f"{inst}: whenever the guard is moved to the list, needs_cleanup_list is set", flag, "", cf.loc())
        # the guard may stay a local of the generated scope only at the top level of the function body
        may_nest = True
        for key, v in a:
            nw = nested_when(key)
            if nw is not None and isinstance(v, bool) and v != nw:
                may_nest = False
        if may_nest:
            rep.ob("R6.1", f"{inst}: inside an element block the guard is moved to the function-level list "
                           "(a local guard would free the buffer at the end of the loop iteration, before the call)", bool(ext),
                   f"assumptions {a}", cf.loc())
    rep.floor("R6.1", "cleanup(): paths that queue the guard", nwrite, 1)
    # block nesting is tracked by push_block / finish_block only
    muts = []
    for fn in synq.all_fns(BINDGEN):
        if fn.body is None:
            continue
        for mc in synq.method_calls(fn.body):
            if strip_refs(render(mc["recv"])) == "self.block_storage" and mc["method"] not in ("len", "is_empty", "iter", "last", "first"):
                muts.append((fn.name, mc["method"]))
    rep.ob("R6.1", "block nesting: block_storage is pushed by push_block and popped by finish_block, nowhere else",
           sorted(muts) == [("finish_block", "pop"), ("push_block", "push")], f"{muts}", BINDGEN)
    # writers of the flag
    wr = []
    for rel in (BINDGEN, IFACE):
        for fn in synq.all_fns(rel):
            if fn.body is None:
                continue
            for n in synq.walk(fn.body):
                if n.get("k") == "assign" and n["l"].get("k") == "field" and n["l"]["member"] == "needs_cleanup_list":
                    wr.append((fn.name, render(n["r"])))
                if n.get("k") == "struct" and short(n["path"]) == "FunctionBindgen":
                    for fld in n.get("fields", []):
                        if fld["name"] == "needs_cleanup_list":
                            wr.append((fn.name, render(fld["e"])))
    rep.ob("R6.4", "needs_cleanup_list starts false and is set only by cleanup()", sorted(wr) == [("cleanup", "true"), ("new", "false")],
           f"{wr}", BINDGEN)
    return listnames


# ---------------------------------------------------------------- R6.4 core realloc table and the consumers of the flag
def pat_match(p, val):
    k = p.get("k")
    if k == "p_wild" or (k == "p_ident" and not p["name"][:1].isupper()):
        return True
    if k == "p_or":
        return any(pat_match(c, val) for c in p["cases"])
    if k == "p_tuple":
        return isinstance(val, tuple) and len(val) == len(p["elems"]) and all(pat_match(e, v) for e, v in zip(p["elems"], val))
    if k in ("p_path", "p_ident"):
        return short(p.get("path") or p["name"]) == val
    if k == "p_lit":
        v = p["lit"].get("v")
        return ("true" if v is True else "false" if v is False else str(v)) == val
    if k == "p_ref":
        return pat_match(p["pat"], val)
    raise AnchorMissing(f"pattern kind {k} not understood in the realloc table")


class CoreTable:
    def __init__(self, rep):
        fns = [g for g in synq.all_fns(CORE) if g.name == "call" and g.body is not None]
        self.free = [g for g in fns if g.self_ty is None]
        self.meth = [g for g in fns if g.self_ty == "Generator"]
        if len(self.free) != 1 or len(self.meth) != 1:
            raise AnchorMissing("abi::call / Generator::call")
        rep.saw(f"{CORE}::call")
        rep.saw(f"{CORE}::Generator::call")
        gm = self.meth[0]
        tabs = [mm for mm in synq.matches_in(gm.body) if any(render(a.body).startswith("Realloc::") for a in synq.arms(mm))]
        if len(tabs) != 1:
            raise AnchorMissing(f"Generator::call: {len(tabs)} realloc tables")
        self.tab = tabs[0]
        sc = self.tab["scrut"]
        tys = {p["pat"]["name"]: p["ty"].replace(" ", "") for p in gm.node["sig"]["params"] if not p.get("self") and p["pat"].get("k") == "p_ident"}
        self.order = [tys.get(render(e)) for e in sc["elems"]] if sc.get("k") == "tuple" else []
        # which argument positions of the public abi::call carry variant / lift_lower / async
        self.pub = {}
        for i, p in enumerate(self.free[0].node["sig"]["params"]):
            self.pub[p["ty"].replace(" ", "")] = i
        fwd = synq.method_calls(self.free[0].body, "call")
        self.forwarded = False
        if len(fwd) == 1:
            want = [p["pat"]["name"] for p in gm.node["sig"]["params"] if not p.get("self")]
            mtys = [p["ty"].replace(" ", "") for p in gm.node["sig"]["params"] if not p.get("self")]
            pubn = {p["ty"].replace(" ", ""): p["pat"]["name"] for p in self.free[0].node["sig"]["params"]}
            self.forwarded = [render(a) for a in fwd[0]["args"]] == [pubn.get(t) for t in mtys]

    def ok(self):
        return sorted(self.order) == ["AbiVariant", "LiftLower", "bool"] and self.forwarded and \
            all(t in self.pub for t in ("AbiVariant", "LiftLower", "bool"))

    def realloc(self, variant, ll, async_):
        vals = {"AbiVariant": variant, "LiftLower": ll, "bool": async_}
        val = tuple(vals[t] for t in self.order)
        for a in self.tab["arms"]:
            if pat_match(a["pat"], val):
                return "None" if render(a["body"]) == "Realloc::None" else "Export" if render(a["body"]).startswith("Realloc::Export") else "?"
        return "?"


def core_table(rep):
    t = CoreTable(rep)
    rep.ob("R6.4", "core: the realloc table is a match on (variant, lift_lower, async) and abi::call forwards its arguments to it",
           t.ok(), f"order {t.order}, forwarded {t.forwarded}", CORE)
    if not t.ok():
        raise AnchorMissing("realloc table shape")
    rows = (("GuestImport", "LowerArgsLiftResults", "false", "None",
             "arguments of a synchronous import call stay owned by the caller (the host does not free them)"),
            ("GuestExport", "LiftArgsLowerResults", "false", "Export",
             "results of a synchronous export are handed over (they are read after the function returned and freed by post-return)"),
            ("GuestExportAsync", "LiftArgsLowerResults", "true", "None",
             "results of an async export stay owned by the task (task.return copies them)"),
            ("GuestImportAsync", "LowerArgsLiftResults", "false", "Export",
             "arguments of an async import outlive the calling scope and are handed over (released by params_dealloc_lists)"))
    for v, ll, a, want, why in rows:
        got = t.realloc(v, ll, a)
        rep.ob("R6.4", f"core: realloc({v}, {ll}, async = {a}) = {want}: {why}", got == want, f"table gives {got}", CORE)
    return t


def core_entry_facts(rep):
    """what the other abi entry points the Rust backend runs a FunctionBindgen through do about ownership"""
    out = {}
    for name in ("lower_to_memory", "lower_flat"):
        g = synq.find_fn(CORE, name)
        rep.saw(f"{CORE}::{name}")
        sets = [render(n["r"]) for n in synq.walk(g.body) if n.get("k") == "assign" and n["l"].get("k") == "field" and n["l"]["member"] == "realloc"]
        out[name] = len(sets) == 1 and sets[0].startswith("Some(Realloc::Export(") and "Realloc::None" not in render(g.body)
        rep.ob("R6.4", f"core: abi::{name} always passes ownership (realloc = Some(Export)): the flag cannot be set through it",
               out[name], f"{sets}", g.loc())
    for name in ("lift_from_memory", "deallocate_lists_in_types", "deallocate_lists_and_own_in_types", "post_return"):
        g = synq.find_fn(CORE, name, self_ty=None) if name != "post_return" else \
            [x for x in synq.all_fns(CORE) if x.name == name and x.self_ty is None and x.body is not None][0]
        rep.saw(f"{CORE}::{name}")
        low = [mc["method"] for mc in synq.method_calls(g.body) if mc["method"] in ("lower", "write_to_memory", "lower_and_emit", "call",
                                                                                       "write_list_to_memory", "write_fields_to_memory")]
        ok = not low
        if name == "post_return":
            gm = synq.find_fn(CORE, "post_return", self_ty="Generator")
            low2 = [mc["method"] for mc in synq.method_calls(gm.body) if mc["method"] in ("lower", "write_to_memory", "lower_and_emit", "call")]
            ok = ok and not low2
        out[name] = ok
        rep.ob("R6.4", f"core: abi::{name} lowers nothing (no allocation, the flag cannot be set through it)", ok, f"{low}", g.loc())
    return out


DISCARD_OK = ("lower_to_memory", "lower_flat", "lift_from_memory", "deallocate_lists_in_types", "deallocate_lists_and_own_in_types")


def flag_sites(rep, table, entry_ok, listnames):
    nsites = 0
    nconsumers = 0
    for fn in synq.all_fns(IFACE):
        if fn.body is None:
            continue
        ctor = [(nm, init, st) for nm, init, st in synq.bindings(fn.body) if init is not None and init.get("k") == "call" and
                render(init["func"]) == "FunctionBindgen::new" and st["pat"].get("k") == "p_ident"]
        if not ctor:
            continue
        rep.saw(f"{IFACE}::{fn.name}")
        env = {"self": "self"}
        for i, p in enumerate(fn.params):
            if p and p != "self":
                env[p] = f"$p{i}"
        g = Gen(fn.body, env)
        paths = None
        for nm, init, st in ctor:
            nsites += 1
            tok = g.binder(nm, end(st))[0]
            entries = []
            for c in synq.fn_calls(fn.body):
                for i, a in enumerate(c["args"]):
                    if a.get("k") == "ref" and a.get("mut") and a["e"].get("k") == "path" and a["e"]["path"] == nm and \
                            g.binder(nm, pos(a))[0] == tok:
                        entries.append((short(render(c["func"])), c))
            names = sorted({e[0] for e in entries})
            inst = f"{fn.name}: FunctionBindgen driven through abi::{'/'.join(names) or '?'}"
            if len(names) == 1 and names[0] in DISCARD_OK:
                rep.ob("R6.4", f"{inst}: the flag may be dropped because this entry point cannot set it", entry_ok.get(names[0], False),
                       "", fn.loc(st))
                continue
            if names not in (["call"], ["post_return"]):
                rep.ob("R6.4", f"{inst}: the entry point is one whose ownership mode is known", False, f"{names}", fn.loc(st))
                continue
            nconsumers += 1
            if paths is None:
                paths = g.paths()
            flagkey = f"{tok}.needs_cleanup_list"
            srckey = f"{tok}.src"
            body_ph = g.ph.get(srckey)
            # what the core table says for this call
            variants, ll, akey, alit = set(), None, None, None
            if names == ["call"]:
                c = entries[0][1]
                va = g.canon(c["args"][table.pub["AbiVariant"]])
                variants = set(re.findall(r"AbiVariant::(\w+)", va))
                llm = re.findall(r"LiftLower::(\w+)", g.canon(c["args"][table.pub["LiftLower"]]))
                ll = llm[0] if len(llm) == 1 else None
                ae = c["args"][table.pub["bool"]]
                if ae.get("k") == "bool":
                    alit = "true" if ae["v"] else "false"
                else:
                    akey = g.norm_cond(ae)[0]
                rep.ob("R6.4", f"{inst}: variant, direction and async argument are readable", bool(variants) and ll is not None,
                       f"{va} / {ll} / {alit or akey}", fn.loc(c))
            groups = {}
            for a, ev in paths:
                idx = [i for i, e in enumerate(ev) if e[0] == "src" and body_ph is not None and re.search(r"\b%s\b" % body_ph, e[1])]
                if not idx:
                    continue
                A = dict(a)
                before = ev[:idx[0]]
                decl = False
                for e in before:
                    if e[0] == "src" and re.search(r"\blet\b", e[1]) and "::new()" in e[1]:
                        ast = facts.parse_snippet(e[1])
                        for s in ast.get("stmts", []) if "error" not in ast else []:
                            if s.get("k") == "let" and s["pat"].get("k") == "p_ident" and s["pat"].get("mut") and \
                                    s["pat"]["name"] in listnames and s.get("init") is not None and s["init"].get("k") == "call" and \
                                    not s["init"]["args"] and VEC_RE.search(g.ph_rev.get(render(s["init"]["func"]).rsplit("::", 1)[0], "")):
                                decl = True
                asserted = any(e[0] == "assert" and e[1].replace(" ", "") in (f"!{flagkey}", f"({flagkey}==false)") for e in before)
                fl = A.get(flagkey)
                asy = alit if alit is not None else {True: "true", False: "false", None: None}[A.get(akey)] if akey else None
                can = False
                if names == ["call"] and ll is not None:
                    can = any(table.realloc(v, ll, x) != "Export" for v in variants for x in ((asy,) if asy else ("true", "false")))
                gk = "" if names != ["call"] or alit is not None else f" [async argument {asy or 'untested'}]"
                gr = groups.setdefault(gk, {"n": 0, "bad_decl": 0, "bad_any": 0, "can": can})
                gr["can"] = gr["can"] or can
                if fl is False:
                    continue
                gr["n"] += 1
                if can and not decl:
                    gr["bad_decl"] += 1
                if not decl and not asserted:
                    gr["bad_any"] += 1
            rep.ob("R6.4", f"{inst}: the generated body is appended on some path", bool(groups), f"body placeholder {body_ph}", fn.loc(st))
            for gk, gr in sorted(groups.items()):
                if gr["can"]:
                    rep.ob("R6.4", f"{inst}{gk}: buffers may stay guest-owned here, so on every path where the flag is not known to be "
                                   "false the list the guards are moved to is declared before the body", gr["bad_decl"] == 0 and gr["n"] > 0,
                           f"{gr['bad_decl']} of {gr['n']} path(s) lack `let mut <list> = Vec::new()`", fn.loc(st))
                else:
                    rep.ob("R6.4", f"{inst}{gk}: ownership is always passed here, so the flag is asserted false (or the list declared) "
                                   "before the body is appended", gr["bad_any"] == 0 and gr["n"] > 0,
                           f"{gr['bad_any']} of {gr['n']} path(s) neither assert nor declare", fn.loc(st))
    rep.floor("R6.4", "FunctionBindgen construction sites in interface.rs", nsites, 8)
    rep.floor("R6.4", "sites that must consume needs_cleanup_list (abi::call / abi::post_return)", nconsumers, 3)


# ---------------------------------------------------------------- R6.5 / R6.6 links to the items decided in C24
def links(rep, f, m):
    # R6.5: the free primitive written by the arms is the embedded cabi_dealloc item whose body C24 R24.5 decides
    p = synq.find_fn(IFACE, "path_to_cabi_dealloc")
    items = [short(n["path"]) for n in synq.walk(p.body) if n.get("k") == "path" and n["path"].startswith("RuntimeItem::")]
    lits = [s["v"] for s in synq.strings(p.body)]
    rep.ob("R6.5", "path_to_cabi_dealloc names one runtime item and one function of the generated runtime module", len(items) == 1 and
           len(lits) == 1, f"{items} {lits}", p.loc())
    emb = [g for g in synq.all_fns(RUSTLIB) if g.body is not None and
           any(re.search(r"\bfn\s+cabi_dealloc\s*\(", s["v"]) for s in synq.strings(g.body))]
    ok = False
    det = f"{len(emb)} function(s) embed a cabi_dealloc item"
    if len(emb) == 1 and len(items) == 1 and len(lits) == 1:
        arms = [a for mm in synq.matches_in(emb[0].body) for a in synq.arms(mm)
                if any(re.search(r"\bfn\s+cabi_dealloc\s*\(", s["v"]) for s in synq.strings(a.body))]
        inner = [a for a in arms if not any(b is not a and any(x is b.node for x in synq.walk(a.body)) for b in arms)]
        det = f"embedded under {[a.heads for a in inner]}"
        ok = len(inner) == 1 and [short(h) for h in inner[0].heads] == items and \
            any(re.search(r"\bfn\s+%s\s*\(" % re.escape(lits[0]), s["v"]) for s in synq.strings(inner[0].body))
    rep.ob("R6.5", "the runtime item it names is the arm of the runtime-module writer that embeds `fn cabi_dealloc` "
                   "(size 0 skipped, dealloc(ptr, Layout(size, align)): decided by C24 R24.5)", ok, det, RUSTLIB)
    # R6.6: the guard of the templates is rt::Cleanup (new / Drop / forget decided by C24 R24.2-4)
    cl = {(g.name, g.trait): g for g in synq.all_fns(RTMOD) if g.self_ty == "Cleanup"}
    new = cl.get(("new", None))
    ok = new is not None and re.sub(r"\s", "", new.node["sig"].get("ret") or "") == "(*mutu8,Option<Cleanup>)" and \
        [p.get("ty") for p in new.node["sig"]["params"]] == ["Layout"]
    rep.ob("R6.6", "rt::Cleanup::new(Layout) -> (*mut u8, Option<Cleanup>): the shape the ListLower/MapLower templates destructure",
           ok, str(new.node["sig"].get("ret")) if new else "missing", RTMOD)
    fg = cl.get(("forget", None))
    rep.ob("R6.6", "rt::Cleanup has forget(self) (consumes the guard) and a Drop impl (releases the buffer)",
           fg is not None and [p.get("src") for p in fg.node["sig"]["params"]] == ["self"] and ("drop", "Drop") in cl, f"{sorted(cl)}", RTMOD)
    # the path prefix of the Cleanup::new templates is the configured runtime path
    pre = set()
    for nm in ("ListLower", "MapLower"):
        arm = explicit_arm(m, nm)
        g, ps = arm_paths(f, arm, "None")
        for a, ev in ps:
            fr = Frag(g, ev)
            for c in fr.calls(lambda n: ends_with(render(n["func"]), "Cleanup::new")):
                t = render(c["func"])[:-len("::Cleanup::new")]
                pre.add(g.ph_rev.get(t, t))
    rep.ob("R6.6", "the templates name Cleanup through the generator's runtime path", len(pre) == 1 and
           all(re.search(r"\.runtime_path\(\)", x) for x in pre), f"{sorted(pre)}", f.loc())


def run(rep, tier):
    rep.describe(
        "other",
        "Structural clauses of C06, decided on the syntax trees of the Rust generator. For every arm of "
        "`FunctionBindgen::emit` that allocates (ListLower, MapLower), hands a buffer on (ListCanonLower, StringLower), takes "
        "one over (ListCanonLift, StringLift) or frees one (ListLift, MapLift, GuestDeallocate, GuestDeallocateString/List/Map) "
        "the text the arm writes is assembled symbolically per generator path (tests of `realloc` decided for None and Some, "
        "every other test forked; string-building locals expanded, all other values replaced by placeholders keyed by the "
        "canonical expression that produced them), parsed as Rust, and the ownership action is checked on the parsed "
        "generated code: R6.1 guard kept through self.cleanup iff realloc = None, forgotten iff Some, exactly one of the two, "
        "allocation sized and strided by the same size expression, cleanup() moves the guard to the function-level list "
        "whenever generation is nested in an element block and sets the flag; R6.2 mem::forget of an into_boxed_slice value "
        "iff realloc = Some, after pointer and length were read; R6.3 Vec::from_raw_parts(op0, op1, op1) take-over without a "
        "free, exactly one cabi_dealloc(op0, op1 * size, align) after the element loop, size / align expressions identical "
        "between allocation, lift-side free and post-return free; R6.4 core realloc table rows the backend relies on, every "
        "FunctionBindgen construction site classified by its abi entry point, the flag consumed (list declared / asserted "
        "false) before the body is appended on every path, single writer of the flag; R6.5/R6.6 the free primitive and the "
        "guard are the items decided in C24 (R24.2-5: not repeated here); R6.7 census: no other arm or function writes a "
        "guard, forget, take-over or free template; R6.8 an import argument printed owned is lowered through `&name`. Around the arms: finish_block keeps the statements of a "
        "non-empty element block, block nesting is tracked by push_block / finish_block only, GuestDeallocateVariant pairs case "
        "block i with discriminant i, the embedded string_lift consumes its byte vector, rt WitMap::wit_map_len is len(), core "
        "lower passes self.list_realloc() to the four lowering instructions. NOT decided: heap balance of an execution, that the element blocks "
        "(opaque here) are balanced among themselves beyond C03, SizeAlign, the allocator, user code.",
        trusted_base=["syn parse of the generator sources and of the assembled generated text",
                      "the model of format!/uwrite!/push_str text building in rules/C06.py (class Gen)",
                      "C24 for rt::Cleanup and the embedded cabi_dealloc", "C03 for the deallocation walkers of the core generator"],
        assumptions=["a generator helper not listed in QUIET_SELF that is called on `self` inside an audited arm may write text "
                     "(the arm is then reported)"],
    )
    rep.rule("R6.1", "ListLower / MapLower: guard kept (self.cleanup) iff realloc = None, forgotten iff Some; cleanup() and block nesting")
    rep.rule("R6.2", "ListCanonLower / StringLower: mem::forget of a boxed slice iff realloc = Some")
    rep.rule("R6.3", "lift side and post-return: take-over by Vec::from_raw_parts without free; one cabi_dealloc(base, len * size, align) "
                     "after the element loop; sibling agreement of size / align")
    rep.rule("R6.4", "needs_cleanup_list: core realloc table, construction sites, declaration / assertion before the body")
    rep.rule("R6.5", "the free primitive is the embedded cabi_dealloc item (body: C24 R24.5)")
    rep.rule("R6.6", "the guard is rt::Cleanup (behaviour: C24 R24.2-4)")
    rep.rule("R6.7", "census: ownership primitives only in the audited arms")
    rep.rule("R6.8", "an import argument that had to be printed owned is lowered through a borrow (`&name`), so borrowed lowering "
                     "never consumes the caller's buffers")
    for rel in (BINDGEN, IFACE, RUSTLIB, CORE, RTMOD):
        rep.saw(file=rel)
    st = {}

    def anchors():
        st["f"], st["m"] = emit_fn()
        rep.saw(f"{BINDGEN}::FunctionBindgen::emit")
    rep.guard("R6.1", "emit match table", anchors)
    if "m" not in st:
        return
    f, m = st["f"], st["m"]
    sib = {}
    n = {"R6.1": 0, "R6.2": 0, "take": 0, "free": 0}

    def each(rule, name, fnc):
        rep.guard(rule, f"{name} arm", lambda: fnc(explicit_arm(m, name)))
    for name in ("ListLower", "MapLower"):
        each("R6.1", name, lambda arm, name=name: n.__setitem__("R6.1", n["R6.1"] + alloc_arm(rep, f, name, arm, sib)))
    rep.floor("R6.1", "allocating arm paths (2 arms x realloc None / Some)", n["R6.1"], 4)
    listnames = rep.guard("R6.1", "cleanup helper", lambda: cleanup_helper(rep)) or set()
    for name in ("ListCanonLower", "StringLower"):
        each("R6.2", name, lambda arm, name=name: n.__setitem__("R6.2", n["R6.2"] + canon_lower_arm(rep, f, name, arm)))
    rep.floor("R6.2", "hand-over arm paths (2 arms x realloc None / Some)", n["R6.2"], 4)
    for name in ("ListCanonLift", "StringLift"):
        each("R6.3", name, lambda arm, name=name: n.__setitem__("take", n["take"] + takeover_arm(rep, f, name, arm)))
    rep.floor("R6.3", "take-over arm paths", n["take"], 3)
    rep.guard("R6.3", "string_lift helper", lambda: string_lift_item(rep, f, m))
    for name, lifting in (("ListLift", True), ("MapLift", True), ("GuestDeallocateList", False), ("GuestDeallocateMap", False)):
        each("R6.3", name, lambda arm, name=name, lifting=lifting:
             n.__setitem__("free", n["free"] + free_arm(rep, f, name, arm, sib, lifting)))
    for name in ("GuestDeallocate", "GuestDeallocateString"):
        each("R6.3", name, lambda arm, name=name: n.__setitem__("free", n["free"] + scalar_free_arm(rep, f, name, arm)))
    rep.floor("R6.3", "freeing arm paths", n["free"], 8)
    rep.guard("R6.3", "sibling agreement", lambda: siblings(rep, f, sib))

    def r64():
        t = core_table(rep)
        eo = core_entry_facts(rep)
        flag_sites(rep, t, eo, listnames)
    rep.guard("R6.4", "needs_cleanup_list", r64)
    rep.guard("R6.5", "links to C24", lambda: links(rep, f, m))
    rep.guard("R6.4", "core realloc field", lambda: core_realloc_field(rep))
    rep.guard("R6.1", "finish_block", lambda: finish_block_rule(rep))
    rep.guard("R6.1", "WitMap length", lambda: witmap_len(rep))
    rep.guard("R6.3", "GuestDeallocateVariant order", lambda: variant_free_order(rep, f, m))
    rep.guard("R6.3", "one arm per case block", lambda: variant_arms(rep, f, m))
    rep.guard("R6.7", "census", lambda: census(rep, f, m))
    rep.guard("R6.8", "rooting of borrowed arguments", lambda: rooting(rep))


# ---------------------------------------------------------------- R6.8 borrowed lowering is rooted in the caller's argument
def rooting(rep):
    """Import arguments are lowered as borrows (realloc = None hands out raw pointers into them).  Where the signature
    printer could not give the parameter the requested borrowed style (the type is printed owned), the operand handed
    to the lowering code must be `&name`, never the owned value (which the element loop would consume and drop)."""
    nsite = 0
    for fn in synq.all_fns(IFACE):
        if fn.body is None:
            continue
        cands = []
        for n in synq.walk(fn.body):
            if n.get("k") == "if" and n["cond"].get("k") == "binary" and n["cond"]["op"] in ("==", "!=") and n.get("else") is not None:
                c = n["cond"]
                sides = [c["l"], c["r"]]
                if any(s.get("k") == "field" and s["member"] == "style" for s in sides):
                    cands.append(n)
        if not cands:
            continue
        env = {"self": "self"}
        for i, p in enumerate(fn.params):
            if p and p != "self":
                env[p] = f"$p{i}"
        g = Gen(fn.body, env)
        for n in cands:
            th = [mc for mc in synq.method_calls(n["then"], "push") if len(mc["args"]) == 1]
            el = [mc for mc in synq.method_calls(n["else"], "push") if len(mc["args"]) == 1]
            if len(th) != 1 or len(el) != 1 or render(th[0]["recv"]) != render(el[0]["recv"]):
                continue
            nsite += 1
            same, diff = (th[0], el[0]) if n["cond"]["op"] == "==" else (el[0], th[0])
            t_same, t_diff = g.text(same["args"][0]), g.text(diff["args"][0])
            rep.saw(f"{IFACE}::{fn.name}")
            rep.ob("R6.8", f"{fn.name}: a parameter whose printed type is not the requested borrowed style is handed to the lowering "
                           "code as a borrow of the argument", re.fullmatch(r"__h\d+", t_same) is not None and t_diff == "&" + t_same,
                   f"same style: `{g.ph_rev.get(t_same, t_same)}`; other style: `{t_diff}`", fn.loc(n))
    rep.floor("R6.8", "signature printers that choose between the argument and a borrow of it", nsite, 1)


def string_lift_item(rep, f, m):
    """StringLift hands the taken-over byte vector to the embedded `string_lift` helper: it must consume it (no copy + leak)."""
    arm = explicit_arm(m, "StringLift")
    helpers = {mc["method"] for mc in synq.method_calls(arm.body) if mc["method"].startswith("path_to_") and mc["method"] != "path_to_vec"}
    rep.ob("R6.3", "StringLift wraps the taken-over bytes with one runtime helper", len(helpers) == 1, f"{sorted(helpers)}", f.loc(arm.node))
    if len(helpers) != 1:
        return
    p = synq.find_fn(IFACE, helpers.pop())
    lits = [s["v"] for s in synq.strings(p.body)]
    if len(lits) != 1:
        rep.ob("R6.3", "the helper path names one function of the generated runtime module", False, f"{lits}", p.loc())
        return
    name = lits[0]
    tpl = [s for s in synq.strings(synq.load(RUSTLIB)) if re.search(r"\bfn\s+%s\s*\(" % re.escape(name), s["v"])]
    rep.ob("R6.3", f"one embedded `{name}` item in the runtime-module writer", len(tpl) == 1, f"{len(tpl)}", RUSTLIB)
    if len(tpl) != 1:
        return
    ast = facts.parse_snippet(tpl[0]["v"])
    where = f"{RUSTLIB}:{synq.line(tpl[0])}"
    fns = [it for it in ast.get("items", []) if it.get("k") == "fn" and it["sig"]["name"] == name] if "error" not in ast else []
    if len(fns) != 1:
        rep.ob("R6.3", f"the embedded `{name}` parses as one Rust fn", False, str(ast.get("error", ""))[:160], where)
        return
    fn = fns[0]
    ps = fn["sig"]["params"]
    byval = len(ps) == 1 and ps[0].get("ty", "").replace(" ", "") == "Vec<u8>" and ps[0]["pat"].get("k") == "p_ident"
    rep.ob("R6.3", f"`{name}` receives the byte vector by value", byval, f"{[p.get('ty') for p in ps]}", where)
    if not byval:
        return
    pn = ps[0]["pat"]["name"]
    uses = [n for n in synq.walk(fn["body"]) if n.get("k") == "path" and n["path"] == pn]
    consuming = [c for c in synq.fn_calls(fn["body"]) if short(render(c["func"])) in ("from_utf8", "from_utf8_unchecked") and
                 [render(a) for a in c["args"]] == [pn]]
    bad = [render(n) for n in synq.walk(fn["body"]) if (n.get("k") == "mcall" and n["method"] in LEAKY | {"clone", "to_vec", "to_owned"}) or
           (n.get("k") == "call" and n["func"].get("k") == "path" and short(render(n["func"])) in LEAKY)]
    rep.ob("R6.3", f"`{name}`: every use of the byte vector moves it into String::from_utf8[_unchecked] (ownership passes to the "
                   "returned String; nothing is copied, forgotten or leaked)", bool(uses) and len(uses) == len(consuming) and not bad,
           f"{len(uses)} use(s), {len(consuming)} consuming, {bad}", where)


# ---------------------------------------------------------------- further necessary conditions around the audited arms
def core_realloc_field(rep):
    """the `realloc` the backend tests is the table's value: every lowering instruction gets self.list_realloc()"""
    lo = synq.find_fn(CORE, "lower", self_ty="Generator")
    rep.saw(f"{CORE}::Generator::lower")
    g = Gen(lo.body, {"self": "self"})
    n = 0
    for name, node in synq.constructed(lo.body, ("StringLower", "ListCanonLower", "ListLower", "MapLower")):
        if node.get("k") != "struct":
            continue
        fl = [x for x in node.get("fields", []) if x["name"] == "realloc"]
        n += 1
        rep.ob("R6.4", f"core: lower emits {name} with realloc = self.list_realloc()", len(fl) == 1 and
               strip_refs(g.canon(fl[0]["e"])) == "self.list_realloc()", f"{[g.canon(x['e']) for x in fl]}", lo.loc(node))
    rep.floor("R6.4", "core: lowering instructions that carry a realloc", n, 4)
    lr = synq.find_fn(CORE, "list_realloc", self_ty="Generator")
    ms = synq.matches_in(lr.body)
    got = {}
    if len(ms) == 1:
        for a in synq.arms(ms[0]):
            for h in a.heads:
                got[short(h)] = render(a.body)
    binder = None
    if len(ms) == 1:
        for a in synq.arms(ms[0]):
            if [short(h) for h in a.heads] == ["Export"] and a.alts[0].get("k") == "p_tuple_struct" and len(a.alts[0]["elems"]) == 1:
                binder = a.alts[0]["elems"][0].get("name")
    rep.ob("R6.4", "core: list_realloc maps Realloc::None to None and Realloc::Export(f) to Some(f)",
           got.get("None") == "None" and binder is not None and got.get("Export") == f"Some({binder})" and len(got) == 2, f"{got}", lr.loc())


def finish_block_rule(rep):
    """an element block that wrote statements (nested frees, nested guards) must keep them in the block text"""
    fb = synq.find_fn(BINDGEN, "finish_block", self_ty="FunctionBindgen", trait="Bindgen")
    rep.saw(f"{BINDGEN}::FunctionBindgen::finish_block")
    g = Gen(fb.body, {"self": "self", **{p_: f"$p{i}" for i, p_ in enumerate(fb.params) if p_ and p_ != "self"}})
    toks = [tok for act, nm, tok, b in g.entries if b.get("init") is not None and "self.src" in render(b["init"]) and
            synq.contains_call_named(b["init"], ("replace", "take", "swap"))]
    if len(toks) != 1:
        raise AnchorMissing(f"finish_block: {len(toks)} locals take the block's source out of self.src")
    tok = toks[0]
    npath = 0
    for a, ev in g.paths():
        pushes = [e[1] for e in ev if e[0] == "blk"]
        A = dict(a)
        empty = A.get(f"{tok}.is_empty()")
        inst = "finish_block" + stable(tagp(a))
        npath += 1
        rep.ob("R6.1", f"{inst}: exactly one block expression is recorded", len(pushes) == 1, f"{len(pushes)}", fb.loc())
        if empty is not True and len(pushes) == 1:
            keeps = any(k.startswith(tok) or ("&" + tok) in k or f"({tok}" in k for k, ph in g.ph.items() if re.search(r"\b%s\b" % ph, pushes[0]))
            rep.ob("R6.1", f"{inst}: the statements written inside the block are part of the recorded block expression", keeps,
                   f"`{pushes[0][:60]}`", fb.loc())
    rep.floor("R6.1", "finish_block paths", npath, 3)


def variant_free_order(rep, f, m):
    arm = explicit_arm(m, "GuestDeallocateVariant")
    g = Gen(arm.body, arm_env(f, arm))
    us = block_units(g, arm.body)
    ok = False
    det = f"{len(us)} per-block loop(s) over the drained blocks"
    if len(us) == 1:
        pat, body, ms, node = us[0]
        idx = pat["elems"][0].get("name") if pat.get("k") == "p_tuple" and len(pat["elems"]) == 2 else None
        uses_index = idx is not None and (
            any(n.get("k") == "mcall" and n["method"] == "to_string" and render(n["recv"]) == idx for n in synq.walk(body)) or
            any(n.get("k") == "call" and [render(x).lstrip("&*") for x in n["args"]] == [idx] for n in synq.walk(body)) or
            any(idx in [k for kd, k, ex, off in fm.hole_exprs() if ex is None] for fm in synq.fmts(body)))
        ok = set(ms) <= ITER_OK - {"zip"} and "enumerate" in ms and uses_index
        det = f"iterator adapters {sorted(set(ms))}, index `{idx}`"
    rep.ob("R6.3", "GuestDeallocateVariant: case block i is the match arm for discriminant i (blocks drained in emission order, "
                   "enumerated without a reordering adapter)", ok, det, f.loc(arm.node))


def witmap_len(rep):
    n = 0
    for g in synq.all_fns(RTMOD):
        if g.trait == "WitMap" and g.name == "wit_map_len" and g.body is not None:
            n += 1
            st = g.body["stmts"]
            ok = len(st) == 1 and st[0].get("k") == "expr_stmt" and render(st[0]["e"]) == "self.len()"
            rep.ob("R6.1", f"rt: WitMap for {g.self_ty}: wit_map_len is the collection's own len() (MapLower sizes the buffer with it and "
                           "writes one entry per iterated element)", ok, render(g.body)[:80], g.loc())
            rep.saw(f"{RTMOD}::<{g.self_ty} as WitMap>::wit_map_len")
    rep.floor("R6.1", "rt: WitMap implementations", n, 2)


# ---------------------------------------------------------------- one arm per case block (GuestDeallocateVariant and siblings)
ITER_OK = {"into_iter", "iter", "enumerate", "zip", "map", "for_each", "collect", "cloned", "copied", "by_ref"}
JUMPS = ("continue", "break", "return")


def own_nodes(root):
    """nodes of root that belong to its own control flow (nested closures / fn items are other bodies)"""
    st = [root]
    while st:
        x = st.pop()
        if isinstance(x, dict):
            if x is not root and x.get("k") in ("closure", "item_stmt", "fn"):
                continue
            yield x
            st.extend(v for v in x.values() if isinstance(v, (dict, list)))
        elif isinstance(x, list):
            st.extend(x)


def chain_of(e):
    ms = []
    while e.get("k") == "mcall":
        ms.append(e["method"])
        e = e["recv"]
    return ms, e


def drained_root(g, e):
    """is path e a local bound to blocks taken off self.blocks (drain / split_off)?"""
    if e.get("k") != "path":
        return False
    b = g.binder(e["path"], pos(e))
    return b is not None and b[1].get("init") is not None and "self.blocks" in render(b[1]["init"]) and \
        synq.contains_call_named(b[1]["init"], ("drain", "split_off")) is not None


def block_units(g, body):
    """per-block code units of an arm: (pattern, unit body, adapter methods) for `for PAT in <drained>..` loops and for
    `<drained>...map(|PAT| ..)` / `.for_each(|PAT| ..)` closures; zip arguments count as roots too"""
    def roots(e):
        ms, r = chain_of(e)
        out = [r]
        x = e
        while x.get("k") == "mcall":
            if x["method"] == "zip" and x["args"]:
                out += roots(x["args"][0])[0]
                ms += chain_of(x["args"][0])[0]
            x = x["recv"]
        return out, ms
    units = []
    for n in synq.walk(body):
        if n.get("k") == "for":
            rs, ms = roots(n["iter"])
            if any(drained_root(g, r) for r in rs):
                units.append((n["pat"], n["body"], ms, n))
        elif n.get("k") == "mcall" and n["method"] in ("map", "for_each") and len(n["args"]) == 1 and n["args"][0].get("k") == "closure" \
                and len(n["args"][0]["params"]) == 1:
            rs, ms = roots(n["recv"])
            if any(drained_root(g, r) for r in rs):
                outer = [x["method"] for x in synq.walk(body) if x.get("k") == "mcall" and x is not n and
                         any(y is n for y in recv_chain(x))]
                units.append((n["args"][0]["params"][0], n["args"][0]["body"], ms + [n["method"]] + outer, n))
    return units


def recv_chain(x):
    x = x["recv"]
    while True:
        yield x
        if x.get("k") != "mcall":
            return
        x = x["recv"]


def guarded_by(root, target):
    """kinds of the control constructs of root's own flow that enclose target"""
    def rec(n, acc):
        if n is target:
            return acc
        if isinstance(n, dict):
            if n is not root and n.get("k") in ("closure", "item_stmt", "fn"):
                return None
            a2 = acc + [n["k"]] if n.get("k") in ("if", "match", "for", "while", "loop") and n is not root else acc
            for v in n.values():
                if isinstance(v, (dict, list)):
                    r = rec(v, a2)
                    if r is not None:
                        return r
        elif isinstance(n, list):
            for v in n:
                r = rec(v, acc)
                if r is not None:
                    return r
        return None
    return rec(root, [])


def single_expr(e):
    while e is not None and e.get("k") == "block" and len(e["stmts"]) == 1 and e["stmts"][0].get("k") == "expr_stmt":
        e = e["stmts"][0]["e"]
    return e


def resolve_choice(g, e, idx, depth=0):
    """follow a pattern-text expression to the `if` that chooses it: through `let` binders and calls of a local helper
    closure applied to the index.  Returns (if node, name of the index inside that scope) or (None, reason)"""
    e = single_expr(e)
    if e is None or depth > 6:
        return None, "unresolved"
    k = e.get("k")
    if k == "ref" or (k == "mcall" and e["method"] in STRINGY_M and not e["args"]):
        return resolve_choice(g, e["e"] if k == "ref" else e["recv"], idx, depth + 1)
    if k == "if":
        return e, idx
    if k == "path" and "::" not in e["path"]:
        b = g.binder(e["path"], pos(e))
        if b is not None and b[1].get("init") is not None:
            return resolve_choice(g, b[1]["init"], idx, depth + 1)
        return None, f"`{e['path']}` is not a local with an initialiser"
    if k == "call" and e["func"].get("k") == "path" and len(e["args"]) == 1:
        b = g.binder(e["func"]["path"], pos(e))
        a = e["args"][0]
        while a.get("k") in ("ref", "unary"):
            a = a["e"]
        if b is not None and b[1].get("init") is not None and b[1]["init"].get("k") == "closure" and \
                len(b[1]["init"]["params"]) == 1 and a.get("k") == "path" and a["path"] == idx:
            cl = b[1]["init"]
            pn = [x["name"] for x in synq.walk(cl["params"][0]) if x.get("k") == "p_ident"]
            if len(pn) == 1:
                return resolve_choice(g, cl["body"], pn[0], depth + 1)
    return None, f"pattern text comes from `{render(e)[:60]}`"


def is_index_text(e, idx):
    e = single_expr(e)
    if e is None:
        return False
    if e.get("k") == "mcall" and e["method"] == "to_string" and not e["args"]:
        r = e["recv"]
        while r.get("k") in ("ref", "unary"):
            r = r["e"]
        return r.get("k") == "path" and r["path"] == idx
    if e.get("k") == "macro" and short(e["name"]) == "format":
        fm = synq.Fmt(e)
        hs = fm.hole_exprs() if fm.template is not None else []
        if len(hs) == 1 and re.fullmatch(r"\{[^{}:]*\}", fm.template):
            kind, key, ex, off = hs[0]
            return (ex is None and key == idx) or (ex is not None and ex.get("k") == "path" and ex["path"] == idx)
    return False


def variant_arms(rep, f, m):
    # every loop over case blocks visits every block (the three handlers that take one block per case off self.blocks)
    nloops = 0
    for name in ("VariantLower", "VariantLift", "GuestDeallocateVariant"):
        arm = explicit_arm(m, name)
        g = Gen(arm.body, arm_env(f, arm))
        us = block_units(g, arm.body)
        nloops += len(us)
        for pat, body, ms, node in us:
            jumps = sorted({n["k"] for n in own_nodes(body) if n.get("k") in JUMPS})
            extra = sorted(set(ms) - ITER_OK)
            rep.ob("R6.3", f"{name}: the code run per case block visits every block (no continue / break / return in it, no "
                           "filtering or reordering iterator adapter)", not jumps and not extra, f"jumps {jumps}, adapters {extra}",
                   f.loc(node))
        rep.ob("R6.3", f"{name}: one per-block loop over the blocks taken off self.blocks", len(us) == 1, f"{len(us)}", f.loc(arm.node))
    rep.floor("R6.3", "handlers looping over case blocks", nloops, 3)
    # GuestDeallocateVariant: block i <-> arm `i => block`, `_` only for the last block
    arm = explicit_arm(m, "GuestDeallocateVariant")
    g = Gen(arm.body, arm_env(f, arm))
    us = block_units(g, arm.body)
    if len(us) != 1:
        return
    pat, body, ms, node = us[0]
    loc = f.loc(node)
    names = [e.get("name") if e.get("k") == "p_ident" else None for e in pat["elems"]] if pat.get("k") == "p_tuple" else []
    if len(names) != 2 or None in names or "enumerate" not in ms:
        rep.ob("R6.3", "GuestDeallocateVariant: the per-block code receives (index, block) from enumerate()", False, f"{names} {ms}", loc)
        return
    idx, blk = names
    arms_ = [fm for n in own_nodes(body) if n.get("k") == "macro" for fm in [synq.Fmt(n)]
             if short(n["name"]) in synq.FMT_FIRST | synq.FMT_SECOND and fm.template is not None and "=>" in fm.template]
    ok = len(arms_) == 1
    guards = guarded_by(body, arms_[0].node) if ok else None
    rep.ob("R6.3", "GuestDeallocateVariant: each case block writes exactly one match arm, unconditionally (the only choice made per "
                   "block is the arm's pattern)", ok and guards == [], f"{len(arms_)} arm template(s), enclosed by {guards}", loc)
    if not ok:
        return
    fm = arms_[0]
    mm = re.fullmatch(r"\s*\{([^{}]*)\}\s*=>\s*\{([^{}]*)\}\s*,?\s*", fm.template)
    hs = {off: (kind, key, ex) for kind, key, ex, off in fm.hole_exprs()}
    if not mm or len(hs) != 2:
        rep.ob("R6.3", "GuestDeallocateVariant: the arm template is `<pattern> => <block>,`", False, fm.template.strip()[:60], loc)
        return
    offs = sorted(hs)

    def hole_node(o):
        kind, key, ex = hs[o]
        return ex if ex is not None else {"k": "path", "path": key, "sp": fm.node.get("sp")}
    pe, be = hole_node(offs[0]), hole_node(offs[1])
    while be.get("k") in ("ref",):
        be = be["e"]
    rep.ob("R6.3", "GuestDeallocateVariant: the arm's body is the case block itself", be.get("k") == "path" and be["path"] == blk,
           render(be), loc)
    ifn, ix = resolve_choice(g, pe, idx)
    ok = False
    det = ix if ifn is None else ""
    if ifn is not None:
        c = ifn["cond"]
        last = None
        if c.get("k") == "binary" and c["op"] == "==":
            for a_, b_ in ((c["l"], c["r"]), (c["r"], c["l"])):
                while a_.get("k") in ("ref", "unary") and a_.get("op", "*") in ("*", "&"):
                    a_ = a_["e"]
                if a_.get("k") == "path" and a_["path"] == ix:
                    last = strip_refs(g.canon(b_))
        lm = re.fullmatch(r"(\$blocks|(%\d+)\.len\(\)) - 1", last or "")
        last_ok = lm is not None and (lm.group(2) is None or any(tok == lm.group(2) and drained_root(g, {"k": "path", "path": nm, "sp": [10 ** 9, 0, 10 ** 9, 0]})
                                                                 for act, nm, tok, b in g.entries))
        then_txt = g.text(single_expr(ifn["then"])) if single_expr(ifn["then"]) is not None else None
        els = single_expr(ifn.get("else"))
        ok = last_ok and then_txt == "_" and els is not None and els.get("k") != "if" and is_index_text(els, ix) and \
            not [n for n in own_nodes(ifn) if n.get("k") in JUMPS]
        det = f"if {render(c)} -> `{then_txt}` else `{render(els)[:50] if els else None}` (last = `{stable(last or '?')}`)"
    rep.ob("R6.3", "GuestDeallocateVariant: the pattern of block i is `_` only when i is the last block, and its own index i otherwise "
                   "(a catch-all never stands in for an omitted case)", ok, det, loc)
