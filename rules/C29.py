"""C29 — Markdown docs: no nested links, intra-document links hit written anchors, doc text appended literally."""
import os
import re

from lib import facts, mir, synq
from lib.synq import render
from .rtcommon import is_false_edge, is_true_edge, bool_switches_on_call, every_return_passes

MD = "crates/markdown/src/lib.rs"

CLAIM = dict(
    level="other", engine="mirfacts+synfacts", design="DESIGN.md §5 C29",
    technique="MIR guard-dominance / who-may-write on Markdown::finish's link flag and on InterfaceGenerator::docs, "
              "closed-world readers of Docs.contents; emission model over the syntax tree (format templates and "
              "push_str runs) for sibling agreement of `<a id>` / `#fragment` expressions and case conversions",
    text="Decides structural necessary conditions: doc text reaches the buffer only through Source::push_str_literal "
         "(interpret_syntax = false) and nothing else in the crate reads Docs.contents; the code-span -> link rewrite "
         "of Markdown::finish is guarded by the `in_link` flag, which only Start(Link) sets and only End(Link) clears; "
         "every `hrefs` value and every `](#..)` fragment is the same expression (same case conversion) as an "
         "`<a id=..></a>` written next to it / by print_type_header; every documented item kind is passed to docs(). "
         "Partial: whether a referenced type is defined in the same document for a given world, and what markdown / "
         "raw HTML inside a doc comment does, are not decided.",
    note="mir+syn")

STATE_TYPES = {"Source", "InterfaceGenerator", "Markdown", "String"}
PASS = ["trim", "trim_start", "trim_end", "deref", "as_str", "as_ref", "into", "borrow", "must_use", "to_string",
        "into_iter", "as_deref"]
IDENTITY_METHODS = {"to_string", "clone", "as_str", "to_owned", "as_ref", "into", "borrow", "deref"}


# ============================================================================ MIR helpers
def short_callee(call):
    n = mir.norm(call.callee)
    n = re.sub(r"^<(.*) as .*>::", lambda m: mir.base_type(m.group(1)) + "::", n)
    return "::".join(n.split("::")[-2:])


def through(f, op, depth=12):
    """origin of an operand, looking through borrowing / trimming / conversion calls (first argument)."""
    o = f.origin(op)
    while depth > 0 and o.get("kind") == "call" and o["call"].matches(PASS) and o["call"].args:
        depth -= 1
        o = f.origin(o["call"].args[0])
    return o


def origins_multi(f, op, depth=4):
    """like through(), but a local with several plain assignments yields the origin of each assignment."""
    o = through(f, op)
    if o.get("kind") == "place" and o.get("ndefs", 0) > 1 and depth > 0:
        out = []
        for b, i, kind, payload in f.defs.get(o["local"], []):
            if kind == "call":
                out.append({"kind": "call", "call": mir.Call(b, payload)})
            elif kind == "assign" and payload["k"] == "use":
                out += origins_multi(f, payload["o"], depth - 1)
            elif kind == "assign" and payload["k"] == "ref":
                p = payload["p"]
                base = through_place(f, p)
                out.append(base)
            elif kind == "assign" and payload["k"] == "agg":
                out.append({"kind": "agg", "rv": payload})
            else:
                out.append({"kind": "unknown"})
        return out
    return [o]


def option_sources(f, op, depth=4):
    """origins of a value that is `opt` or a constant placeholder: looks through Option::unwrap_or(opt, c),
    unwrap_or_default(opt) and map_or(opt, c, <borrowing fn>) in addition to origins_multi()"""
    out = []
    for o in origins_multi(f, op):
        if o.get("kind") == "call" and depth > 0 and o["call"].args:
            call = o["call"]
            if call.matches("Option::unwrap_or") and len(call.args) == 2:
                out += option_sources(f, call.args[0], depth - 1) + option_sources(f, call.args[1], depth - 1)
                continue
            if call.matches("Option::unwrap_or_default") and len(call.args) == 1:
                out += option_sources(f, call.args[0], depth - 1) + [{"kind": "const", "s": ""}]
                continue
            if call.matches("Option::map_or") and len(call.args) == 3:
                fn_ = f.origin(call.args[2])
                if fn_.get("kind") == "const" and re.search(r"(as_str|deref|as_ref|borrow)$", mir.norm(str(fn_.get("fn", "")))):
                    out += option_sources(f, call.args[0], depth - 1) + option_sources(f, call.args[1], depth - 1)
                    continue
        out.append(o)
    return out


def through_place(f, p):
    o = f.place_origin(p)
    d = 12
    while d > 0 and o.get("kind") == "call" and o["call"].matches(PASS) and o["call"].args:
        d -= 1
        o = f.origin(o["call"].args[0])
    return o


def places(x):
    if isinstance(x, dict):
        if isinstance(x.get("l"), int) and isinstance(x.get("p", []), list) and set(x) <= {"l", "p"}:
            yield x
        for v in x.values():
            yield from places(v)
    elif isinstance(x, list):
        for v in x:
            yield from places(v)


def uses_of_local(f, l):
    """(kind, bb, payload) for every operand / place mentioning local l (statements and terminators)."""
    out = []
    for b in sorted(f.live):
        for s in f.stmts(b):
            if s["k"] == "=" and s["p"]["l"] == l and not s["p"].get("p"):
                rest = s["rv"]
            else:
                rest = s
            for pl in places(rest):
                if pl["l"] == l:
                    out.append(("stmt", b, s))
        t = f.term(b)
        for pl in places({k: v for k, v in t.items() if k != "d"}):
            if pl["l"] == l:
                out.append(("term", b, t))
    return out


def md():
    return mir.load("ws", "wit_bindgen_markdown", "rlib")


def fname(f):
    return f.npath.split("::")[-1]


# ============================================================================ syntax-tree helpers (emission model)
def parent_map(root):
    pm = {}
    st = [root]
    while st:
        x = st.pop()
        for v in x.values():
            if isinstance(v, dict):
                pm[id(v)] = x
                st.append(v)
            elif isinstance(v, list):
                for y in v:
                    if isinstance(y, dict):
                        pm[id(y)] = x
                        st.append(y)
                    elif isinstance(y, list):
                        for z in y:
                            if isinstance(z, dict):
                                pm[id(z)] = x
                                st.append(z)
    return pm


def ancestors(pm, n):
    while id(n) in pm:
        n = pm[id(n)]
        yield n


def control_context(pm, n):
    """identity of the innermost body (loop body, if branch, match arm, closure) that contains n."""
    x = n
    for p in ancestors(pm, n):
        k = p.get("k")
        if k in ("for", "while", "loop") and p.get("body") is x:
            return ("loop", id(p))
        if k == "if" and (p.get("then") is x or p.get("else") is x):
            return ("if", id(p), "then" if p.get("then") is x else "else")
        if k is None and "pat" in p and p.get("body") is x:
            return ("arm", id(p))
        if k == "closure":
            return ("closure", id(p))
        x = p
    return ("fn",)


def start(n):
    return (n["sp"][0], n["sp"][1])


def end(n):
    return (n["sp"][2], n["sp"][3])


class FnCtx:
    """one function of the markdown generator: parent map, let-inlining, emission runs."""

    def __init__(self, fn):
        self.fn = fn
        self.pm = parent_map(fn.node)
        self.lets = []
        for n in synq.walk(fn.body):
            if n.get("k") == "let" and n["pat"].get("k") == "p_ident" and not n["pat"].get("mut") and n.get("init"):
                blk = next((a for a in ancestors(self.pm, n) if a.get("k") == "block"), None)
                self.lets.append((n["pat"]["name"], n, blk))

    def visible_let(self, name, use, site=None):
        best = None
        anc = None
        for nm, st, blk in self.lets:
            if nm != name or "sp" not in use or end(st) > start(use):
                continue
            if anc is None:
                inside = use if id(use) in self.pm else (use.get("_site") or site)
                anc = {id(a) for a in ancestors(self.pm, inside)} if inside is not None else set()
            if blk is not None and id(blk) not in anc:
                continue
            if best is None or start(st) > start(best):
                best = st
        return best

    def rtext(self, e, at=None, depth=6):
        """canonical text of an expression with immutable single-name `let`s inlined (robust to hoisting)."""
        at = at if (at is not None and "sp" in at) else e
        ren = {}
        if depth > 0:
            for n in synq.walk(e):
                if n.get("k") == "path" and "::" not in n["path"] and n["path"] not in ren:
                    use = n if "sp" in n else at
                    st = self.visible_let(n["path"], use, at)
                    if st is not None:
                        ren[n["path"]] = self.rtext(st["init"], st, depth - 1)
        return render(strip_ref(e), ren)


def strip_ref(e):
    while isinstance(e, dict) and (e.get("k") == "ref" or (e.get("k") == "unary" and e.get("op") == "*")):
        e = e["e"]
    return e


HOLE = re.compile(r"\{\{|\}\}|\{([^{}]*)\}")
MARK = "⟨%d⟩"
MARK_RE = re.compile("⟨(\\d+)⟩")


class Emission:
    """text with numbered holes; holes[i] = (expr node, format spec, site node)."""

    def __init__(self, ctx=None):
        self.ctx = ctx
        self.text = ""
        self.holes = []

    def lit(self, s):
        self.text += s

    def hole(self, e, spec, site):
        self.text += MARK % len(self.holes)
        self.holes.append((e, spec, site))

    def template(self, fm):
        t = fm.template
        pos = 0
        last = 0
        for m in HOLE.finditer(t):
            self.lit(t[last:m.start()])
            last = m.end()
            if m.group(0) == "{{":
                self.lit("{")
                continue
            if m.group(0) == "}}":
                self.lit("}")
                continue
            name, _, spec = m.group(1).partition(":")
            name = name.strip()
            if name == "":
                e = fm.positional[pos] if pos < len(fm.positional) else None
                pos += 1
            elif name.isdigit():
                e = fm.positional[int(name)] if int(name) < len(fm.positional) else None
            else:
                e = fm.named.get(name) or {"k": "path", "path": name, "sp": fm.template_node["sp"], "_site": fm.node}
            if e is None:
                raise mir.AnchorMissing(f"format template {t!r}: hole without argument")
            self.hole(e, spec, fm.node)
        self.lit(t[last:])

    def expr(self, e):
        """an expression whose string value is emitted: literal, format!(..), &format!(..), or an opaque value"""
        e0 = strip_ref(e)
        for _ in range(4):
            # a value prepared by an immutable `let` just before: look at how it was built
            if e0.get("k") == "path" and "::" not in e0["path"] and self.ctx is not None:
                st = self.ctx.visible_let(e0["path"], e0)
                if st is None:
                    break
                e0 = strip_ref(st["init"])
            else:
                break
        if e0.get("k") == "str":
            self.lit(e0["v"])
        elif e0.get("k") == "macro" and synq.short(e0["name"]) == "format" and e0.get("args") is not None:
            fm = synq.Fmt(e0)
            if fm.template is None:
                raise mir.AnchorMissing("format! without a literal template")
            self.template(fm)
        else:
            self.hole(e0, "", e0)

    def expanded(self, ctx, text=None):
        text = self.text if text is None else text
        return MARK_RE.sub(lambda m: "⟨" + ctx.rtext(self.holes[int(m.group(1))][0], self.holes[int(m.group(1))][2])
                           + (":" + self.holes[int(m.group(1))][1] if self.holes[int(m.group(1))][1] else "") + "⟩", text)

    def shape(self, text):
        """holes replaced by their case-conversion chain (what is done to the name), e.g. <to_snake_case>"""
        def conv(m):
            e, spec, _ = self.holes[int(m.group(1))]
            return "⟨" + ".".join(conv_chain(e, self.ctx)[1]) + (":" + spec if spec else "") + "⟩"
        return MARK_RE.sub(conv, text)


def conv_chain(e, ctx=None):
    """(root expression, [argument-less methods applied to it, innermost first]) ignoring identity conversions;
    values prepared by an immutable `let` are looked through"""
    e = strip_ref(e)
    ms = []
    for _ in range(16):
        if e.get("k") == "mcall" and not e["args"]:
            if e["method"] not in IDENTITY_METHODS:
                ms.append(e["method"])
            e = strip_ref(e["recv"])
            continue
        if ctx is not None and e.get("k") == "path" and "::" not in e["path"]:
            st = ctx.visible_let(e["path"], e)
            if st is not None:
                e = strip_ref(st["init"])
                continue
        break
    return e, ms[::-1]


def is_push_str_stmt(s):
    if s.get("k") != "expr_stmt":
        return None
    e = s["e"]
    if e.get("k") == "mcall" and e["method"] == "push_str" and len(e["args"]) == 1:
        return e
    return None


def src_writer_macro(s):
    """`uwrite!/uwriteln!/write!/writeln!(dest, "..", ..)` statement -> Fmt"""
    if s.get("k") != "expr_stmt":
        return None
    e = s["e"]
    while e.get("k") in ("try",) or (e.get("k") == "mcall" and e["method"] in ("unwrap", "expect")):
        e = e["e"] if e.get("k") == "try" else e["recv"]
    if e.get("k") == "macro" and synq.short(e["name"]) in synq.FMT_SECOND and e.get("args") is not None:
        return synq.Fmt(e)
    return None


def emission_runs(ctx):
    """maximal runs of consecutive emitting statements of every block: list of (Emission, first statement)"""
    runs = []
    for blk in (n for n in synq.walk(ctx.fn.body) if n.get("k") == "block"):
        cur = None
        for s in blk["stmts"]:
            m = is_push_str_stmt(s)
            fm = src_writer_macro(s) if m is None else None
            if m is None and fm is None:
                cur = None
                continue
            if cur is None:
                cur = (Emission(ctx), s)
                runs.append(cur)
            if m is not None:
                cur[0].expr(m["args"][0])
            else:
                if fm.template is None:
                    raise mir.AnchorMissing("writer macro without a literal template")
                cur[0].template(fm)
                if fm.name in ("writeln", "uwriteln"):
                    cur[0].lit("\n")
    # single push_str calls in expression position (match arm bodies such as `Type::Bool => self.push_str("..")`)
    stmts = {id(s["e"]) for n in synq.walk(ctx.fn.body) if n.get("k") == "block" for s in n["stmts"] if s.get("k") == "expr_stmt"}
    for m in synq.method_calls(ctx.fn.body, "push_str"):
        if id(m) not in stmts and len(m["args"]) == 1:
            em = Emission(ctx)
            em.expr(m["args"][0])
            runs.append((em, m))
    return runs


ID_RE = re.compile(r'<a id="([^"]*)"')
ID_CLOSED_RE = re.compile(r'<a id="[^"]*"></a>')
ANCHOR_OPEN_RE = re.compile(r"<a[\s>]")
HREF_RES = [re.compile(r'\]\(#([^)\s]*)\)'), re.compile(r'href="#([^"]*)"'), re.compile(r"href='#([^']*)'")]
LINKISH_RE = re.compile(r'\]\(|href\s*=')
LINK_OK_RE = re.compile(r'\]\(#[^)\s]*\)|\]\((?:https?:|mailto:)|href="#[^"]*"|href=\'#[^\']*\'|href="(?:https?:|mailto:)')


def generator_fns():
    out = []
    for fn in synq.all_fns(MD):
        if fn.body is None or "tests" in fn.mod:
            continue
        out.append(fn)
    return out


# ============================================================================ the rules
def run(rep, tier):
    rep.describe(
        "other",
        "Structural clauses of C29 on crates/markdown (MIR of wit_bindgen_markdown + syntax tree of lib.rs) and on "
        "Source::push_str_literal (MIR of wit_bindgen_core). R29.1 doc text: InterfaceGenerator::docs hands every line "
        "of Docs.contents (no iterator adaptor in between) to Source::push_str_literal, every other buffer write in "
        "docs() has constant text, nothing else in the crate reads Docs.contents or passes a Docs outside the crate, and "
        "push_str_literal fixes interpret_syntax = false. R29.2 nesting: every Tag::Link built in Markdown::finish is "
        "on the false edge of one bool flag, read inside the loop; the flag is initialised false before the loop, set "
        "true only (and always) under Start(Tag::Link), cleared only under End(TagEnd::Link), never borrowed; the wrap "
        "pushes Start..End on every path; its destination is a value of `hrefs`; every written `<a id>` is closed at "
        "once. R29.3 every value inserted into `hrefs` is `#` + exactly the expression text written as `<a id>` in the "
        "same function and control context; only HashMap::insert mutates hrefs. R29.4 every `](#..)`/href fragment the "
        "generator writes uses the same case conversion as print_type_header's id; every type_* callback reaches "
        "print_type_header with its own `name`. R29.5 every documented item kind of wit-parser (World, Interface, "
        "Function, Field, Flag, Case, EnumCase; TypeDef through the callbacks) is passed to docs() on every path. "
        "NOT decided: that a linked type is defined in the same document for a particular world; links, raw HTML "
        "or code spans inside user doc comments; pulldown-cmark's own rendering; text preservation inside "
        "Source::push_str_impl beyond the interpret flag (see C25).",
        trusted_base=["rustc MIR of wit-bindgen-markdown / wit-bindgen-core (tools/mirfacts)", "syn parse of "
                      "crates/markdown/src/lib.rs (tools/synfacts)", "pulldown-cmark event stream and html::push_html",
                      "heck case conversions are deterministic functions of their input",
                      "wit-parser source as oracle for the set of documented item kinds"],
        assumptions=["markdown links cannot nest in pulldown-cmark's event stream (one bool suffices)"],
    )
    rep.saw(file=MD)
    c = md()
    rep.guard("R29.1", "doc text", lambda: r1(rep, c))
    rep.guard("R29.2", "in_link guard", lambda: r2(rep, c))
    rep.guard("R29.3", "hrefs / id agreement", lambda: r3(rep, c))
    rep.guard("R29.4", "fragment conversions", lambda: r4(rep, c))
    rep.guard("R29.5", "documented items", lambda: r5(rep, c))


# ---------------------------------------------------------------------------- R29.1
def r1(rep, c):
    f = c.method("InterfaceGenerator", "docs")
    rep.saw(f)
    docs_arg = [i for i in range(1, f.argc + 1) if "Docs" in f.locals[i]]
    rep.ob("R29.1", "docs: exactly one Docs parameter", len(docs_arg) == 1, f"{docs_arg}", f.loc())
    if len(docs_arg) != 1:
        return
    da = docs_arg[0]

    lit = f.calls("Source::push_str_literal")
    rep.floor("R29.1", "push_str_literal calls in InterfaceGenerator::docs", len(lit), 1)
    nexts = []
    for n, call in enumerate(lit):
        o = through(f, call.args[1])
        ok = o.get("kind") == "call" and o["call"].matches("next")
        if ok:
            nexts.append(o["call"])
        rep.ob("R29.1", f"docs: literal append #{n} receives a line of the doc comment (only trimmed)", ok,
               f"text argument originates from {o.get('kind')} {o.get('call', '')}", f.loc(call.bb))
        rep.ob("R29.1", f"docs: literal append #{n} is inside the line loop", f.in_cycle(call.bb), "", f.loc(call.bb))
    for n, nx in enumerate(nexts):
        nm = mir.norm(nx.callee)
        rep.ob("R29.1", f"docs: line iterator #{n} is str::Lines itself (no skip/filter/take adaptor drops lines)",
               nm == "<std::str::Lines as std::iter::Iterator>::next", nm, f.loc(nx.bb))
        it = through(f, nx.args[0])
        ok = it.get("kind") == "call" and it["call"].matches("lines")
        srcs = option_sources(f, it["call"].args[0]) if ok else []
        good = bool(srcs) and all((s.get("kind") == "const" and "s" in s) or
                                  (s.get("kind") == "arg" and s.get("n") == da and ".contents" in s.get("proj", []))
                                  for s in srcs)
        from_docs = any(s.get("kind") == "arg" and s.get("n") == da and ".contents" in s.get("proj", []) for s in srcs)
        rep.ob("R29.1", f"docs: the lines iterated #{n} are those of docs.contents (or a constant placeholder)",
               ok and good and from_docs, f"{[(s.get('kind'), s.get('place') or s.get('s')) for s in srcs]}", f.loc(nx.bb))

    # every other write to generator state in docs() carries constant text only
    nw = 0
    seen = {}
    for call in f.calls():
        at = call.arg_types
        if not at or not at[0].startswith("&mut") or mir.base_type(at[0]) not in STATE_TYPES:
            continue
        if call.matches("Source::push_str_literal"):
            continue
        nw += 1
        sc = short_callee(call)
        k = seen[sc] = seen.get(sc, -1) + 1
        rest = [f.origin(a) for a in call.args[1:]]
        rep.ob("R29.1", f"docs: {sc} #{k} writes constant text only (doc text goes through push_str_literal)",
               all(o.get("kind") == "const" for o in rest), f"argument origins {[o.get('kind') for o in rest]}", f.loc(call.bb))
    rep.floor("R29.1", "other buffer writes in docs()", nw, 1)
    # no formatting machinery at all in docs()
    fm = f.calls(["Arguments::new", "Arguments::new_const", "fmt::format", "Write::write_fmt", "Write::write_str"])
    rep.ob("R29.1", "docs: no format!/write!/uwriteln! machinery", not fm, f"{[x.callee for x in fm]}", f.loc())

    # closed world: who reads Docs.contents, who receives a Docs
    nread = 0
    for g in c.fns.values():
        for b in sorted(g.live):
            for s in g.stmts(b):
                hit = [pl for pl in places(s) if ".contents" in pl.get("p", [])
                       and "wit_parser::" in g.locals[pl["l"]]]
                if not hit:
                    continue
                nread += 1
                if g is f:
                    continue
                ok = False
                if s["k"] == "=" and s["rv"]["k"] == "ref" and not s["p"].get("p"):
                    users = [u for u in uses_of_local(g, s["p"]["l"]) if not (u[0] == "stmt" and u[2] is s)]
                    ok = bool(users) and all(u[0] == "term" and u[2]["k"] == "call" and
                                             mir.Call(u[1], u[2]).matches(["Option::is_some", "Option::is_none"])
                                             for u in users)
                rep.ob("R29.1", f"{fname(g)}: Docs.contents is only tested with is_some/is_none outside docs()", ok,
                       "doc text can reach the buffer without push_str_literal", g.loc(b))
        for call in g.calls():
            if any(mir.base_type(t) == "Docs" for t in call.arg_types):
                local = any(n.startswith("crate::") for n in call.names())
                rep.ob("R29.1", f"{fname(g)}: a Docs value is only handed to functions of the markdown crate "
                       f"({short_callee(call)})", local, f"callee {call.callee}", g.loc(call.bb), nontrivial=False)
    rep.floor("R29.1", "reads of Docs.contents in the markdown crate", nread, 5)

    # the literal entry point of the shared buffer
    core = mir.load("ws", "wit_bindgen_core", "rlib")
    g = core.method("Source", "push_str_literal")
    rep.saw(g)
    calls = g.calls("Source::push_str_impl")
    ok = len(calls) == 1 and g.origin(calls[0].args[2]).get("kind") == "const" and g.origin(calls[0].args[2]).get("v") == 0
    rep.ob("R29.1", "Source::push_str_literal = push_str_impl(text, interpret_syntax = false)", ok, "", g.loc())
    txt = g.origin(calls[0].args[1]) if calls else {}
    rep.ob("R29.1", "Source::push_str_literal forwards its text argument unchanged",
           txt.get("kind") == "arg" and txt.get("n") == 2 and len(g.calls()) == 1, f"{txt.get('kind')}", g.loc())


# ---------------------------------------------------------------------------- R29.2
def flag_read(f, sw):
    """the switch operand of block sw as a read of a multiply-assigned bool local: (local, block of the read, negated)"""
    op = f.term(sw)["d"]
    neg = False
    bb = sw
    for _ in range(8):
        p = op.get("cp") or op.get("mv")
        if p is None or p.get("p"):
            return None
        l = p["l"]
        ds = [d for d in f.defs.get(l, []) if d[2] != "partial"]
        if len(ds) != 1 or l <= f.argc:
            return (l, bb, neg) if f.locals[l] == "bool" else None
        b, i, kind, rv = ds[0]
        if kind != "assign":
            return None
        if rv["k"] == "use":
            op, bb = rv["o"], b
        elif rv["k"] == "un" and rv["op"] == "Not":
            op, bb, neg = rv["a"], b, not neg
        elif rv["k"] == "bin" and rv["op"] in ("Eq", "Ne"):
            # `flag == false` / `flag != true` spellings of the same test
            x, y = rv["a"], rv["b"]
            if "c" in x:
                x, y = y, x
            if "c" not in y or "v" not in y or "c" in x:
                return None
            same = (int(y["v"]) == 1) == (rv["op"] == "Eq")
            op, bb, neg = x, b, (neg if same else not neg)
        else:
            return None
    return None


def guard_has(f, site, ty_sub, variant):
    for sw, vals, o in f.guard_edges(site):
        if o.get("kind") == "discr" and ty_sub(o.get("ty", "")) and "else" not in vals:
            if {o["vars"].get(v) for v in vals} == {variant}:
                return True
    return False


def guard_has_ext(f, site, ty_sub, variant):
    """guard_has, also through one bool temporary (`matches!(x, V)` / `let hit = match ..`) tested afterwards"""
    if guard_has(f, site, ty_sub, variant):
        return True
    for sw, vals, o in f.guard_edges(site):
        if f.term(sw).get("dty") != "bool" or not is_true_edge(vals):
            continue
        fr = flag_read(f, sw)
        if fr is None or fr[2]:
            continue
        ds = f.defs.get(fr[0], [])
        if not ds or not all(k == "assign" and rv["k"] == "use" and "v" in rv["o"] for b, i, k, rv in ds):
            continue
        trues = [b for b, i, k, rv in ds if int(rv["o"]["v"]) == 1]
        if trues and all(guard_has(f, b, ty_sub, variant) for b in trues):
            return True
    return False


def is_event(ty):
    return mir.base_type(ty) == "Event"


def is_tag(ty):
    return mir.base_type(ty) == "Tag"


def is_tagend(ty):
    return mir.base_type(ty) == "TagEnd"


def r2(rep, c):
    f = c.method("Markdown", "finish", trait="WorldGenerator")
    rep.saw(f)
    # construction sites: Tag::Link built in finish itself, or by a free helper of this crate called from finish
    # (site = the call block; the helper's dest_url must be one of its parameters)
    wraps = [(bb, rv["ops"][rv["fields"].index("dest_url")] if "dest_url" in rv.get("fields", []) else None)
             for bb, i, rv, s in f.aggregates("Tag", "Link")]
    for call in f.calls():
        if not any(n_.startswith("crate::") for n_ in call.names()):
            continue
        g = next((h for h in c.fns.values() if h is not f and h.path in call.names()), None)
        if g is None or not g.aggregates("Tag", "Link"):
            continue
        for gb, gi, grv, gs in g.aggregates("Tag", "Link"):
            dop = None
            if "dest_url" in grv.get("fields", []):
                og = through(g, grv["ops"][grv["fields"].index("dest_url")])
                if og.get("kind") == "arg" and 1 <= og.get("n", 0) <= len(call.args):
                    dop = call.args[og["n"] - 1]
            wraps.append((call.bb, dop))
        rep.saw(g)
    rep.floor("R29.2", "Tag::Link construction sites in Markdown::finish", len(wraps), 1)
    heads = [x.bb for x in f.calls("Iterator::next") if "Parser" in x.callee]
    rep.ob("R29.2", "finish: one event loop over the pulldown-cmark parser", len(heads) == 1 and f.in_cycle(heads[0]),
           f"{len(heads)}", f.loc())
    if len(heads) != 1:
        return
    head = heads[0]

    def false_flag_guard(site):
        found = None
        for sw, vals, o in f.guard_edges(site):
            if f.term(sw).get("dty") != "bool":
                continue
            fr = flag_read(f, sw)
            if fr is None:
                continue
            l, rb, neg = fr
            want_false = is_true_edge(vals) if neg else is_false_edge(vals)
            if want_false and len([d for d in f.defs.get(l, []) if d[2] == "assign"]) >= 2:
                found = (l, rb, sw)
        return found

    def deferred_guard(site):
        """the site runs only when an Option local is Some; that local is reset to None in every iteration before the
        site and every other assignment to it happens under the false flag: returns the guarded assignment blocks"""
        for sw, vals, o in f.guard_edges(site):
            if o.get("kind") != "discr" or "else" in vals or {o["vars"].get(v) for v in vals} != {"Some"}:
                continue
            m = re.fullmatch(r"_(\d+)", o.get("place", ""))
            if not m or mir.base_type(o.get("ty", "")) != "Option":
                continue
            ol = int(m.group(1))
            ds = f.defs.get(ol, [])
            nones = [b for b, i, k, rv in ds if k == "assign" and rv["k"] == "agg" and rv.get("var") == "None"]
            others = [b for b, i, k, rv in ds if not (k == "assign" and rv["k"] == "agg" and rv.get("var") == "None")]
            reset = [b for b in nones if f.dominates(head, b) and f.in_cycle(b) and f.dominates(b, site) and
                     all(f.dominates(b, x) for x in others)]
            borrowed = [1 for kind, b, x in uses_of_local(f, ol)
                        if (kind == "stmt" and x["k"] == "=" and x["rv"]["k"] in ("ref", "rawptr") and x["rv"].get("m"))
                        or (kind == "term" and x["k"] == "call")]
            if reset and others and not borrowed and all(k != "partial" for b, i, k, rv in ds):
                return others
        return None

    flags = set()
    deferred = []
    for n, (bb, dop) in enumerate(wraps):
        found = false_flag_guard(bb)
        where = [bb]
        if found is None:
            dg = deferred_guard(bb)
            if dg is not None:
                fs = [false_flag_guard(b) for b in dg]
                if all(x is not None for x in fs) and len({x[0] for x in fs}) == 1:
                    found = fs[0]
                    where = dg
                    deferred += dg
                    if not all(f.dominates(head, x[1]) and f.in_cycle(x[1]) for x in fs):
                        found = (found[0], 0, found[2])
        rep.ob("R29.2", f"finish: link construction #{n} only when the in-link flag is false", found is not None,
               "a code span inside a link would be wrapped in a second <a>", f.loc(bb))
        if found:
            flags.add(found[0])
            rep.ob("R29.2", f"finish: link construction #{n} tests the flag's current value (read inside the loop)",
                   f.dominates(head, found[1]) and f.in_cycle(found[1]), "", f.loc(found[2]))
            rep.ob("R29.2", f"finish: link construction #{n} is guarded by Event::Code",
                   all(guard_has(f, b, is_event, "Code") for b in where), "", f.loc(bb), nontrivial=False)
    rep.ob("R29.2", "finish: one flag guards every link construction", len(flags) == 1, f"{sorted(flags)}", f.loc())
    if len(flags) != 1:
        return
    L = flags.pop()

    defs = f.defs.get(L, [])
    allconst = all(k == "assign" and rv["k"] == "use" and "c" in rv["o"] and "v" in rv["o"] for b, i, k, rv in defs)
    rep.ob("R29.2", "finish: the flag is only ever assigned constants", allconst, "", f.loc())
    if not allconst:
        return
    sets_ = [(b, i) for b, i, k, rv in defs if int(rv["o"]["v"]) == 1]
    clears = [(b, i) for b, i, k, rv in defs if int(rv["o"]["v"]) == 0]
    init = [(b, i) for b, i in clears if f.dominates(b, head) and not f.in_cycle(b)]
    rep.ob("R29.2", "finish: the flag starts false before the loop", len(init) == 1, f"{len(init)} initialisations", f.loc())
    inloop_clears = [x for x in clears if x not in init]
    for n, db in enumerate(deferred):
        later = f.reachable(db, avoid=[head]) & {b for b, _ in sets_ + clears}
        rep.ob("R29.2", f"finish: the flag cannot change between the deferred link decision #{n} and the construction",
               not later, "the decision is taken outside a link but used after the flag changed", f.loc(db))
    rep.floor("R29.2", "stores of true to the flag", len(sets_), 1)
    rep.floor("R29.2", "stores of false to the flag inside the loop", len(inloop_clears), 1)
    for n, (b, i) in enumerate(sets_):
        rep.ob("R29.2", f"finish: store #{n} of true is under Event::Start(Tag::Link)",
               guard_has_ext(f, b, is_event, "Start") and guard_has_ext(f, b, is_tag, "Link"),
               "the flag is raised for something that is not a link start", f.loc(b))
    for n, (b, i) in enumerate(inloop_clears):
        rep.ob("R29.2", f"finish: store #{n} of false is under Event::End(TagEnd::Link)",
               guard_has_ext(f, b, is_event, "End") and guard_has_ext(f, b, is_tagend, "Link"),
               "the flag is lowered while still inside a link", f.loc(b))
    # Start(Link) always raises the flag before the next event is examined
    nstart = 0
    for sw, t in f.switches():
        o = f.switch_origin(sw)
        if o.get("kind") != "discr" or not is_tag(o.get("ty", "")) or not guard_has(f, sw, is_event, "Start") and \
                not any(isinstance(p, str) and p == "as Start" for p in o.get("of", {}).get("proj", [])):
            continue
        tg = f.switch_targets(sw)
        link = [tb for v, tb in tg.items() if v != "else" and o["vars"].get(v) == "Link"]
        if not link:
            continue
        nstart += 1
        rep.ob("R29.2", "finish: every path from Start(Tag::Link) to the next event sets the flag",
               f.all_paths_pass(link[0], [head], [b for b, _ in sets_]) and
               all(tb != link[0] for v, tb in tg.items() if v == "else" or o["vars"].get(v) != "Link"),
               "a link start can leave the flag false", f.loc(sw))
    rep.floor("R29.2", "dispatch on Tag::Link under Event::Start", nstart, 1)
    # nobody else can write the flag
    others = []
    for kind, b, x in uses_of_local(f, L):
        if kind == "stmt" and x["k"] == "=" and x["rv"]["k"] in ("ref", "rawptr") and x["rv"]["p"]["l"] == L:
            others.append(f.loc(b))
        if kind == "term" and x["k"] == "call":
            others.append(f.loc(b))
    rep.ob("R29.2", "finish: the flag is never borrowed or passed away", not others, f"{others}", f.loc())

    # the wrap itself: Start ... End on every path, destination from hrefs
    starts = [bb for bb, i, rv, s in f.aggregates("Event", "Start")]
    ends = [bb for bb, i, rv, s in f.aggregates("Event", "End")]
    rep.floor("R29.2", "Event::Start constructions in finish", len(starts), 1)
    for n, sb in enumerate(starts):
        rep.ob("R29.2", f"finish: opened link #{n} is closed (Event::End pushed) before the next event", bool(ends) and
               f.all_paths_pass(sb, [head] + f.returns(), ends), "an <a> is left open", f.loc(sb))
        rep.ob("R29.2", f"finish: Event::Start #{n} is only built next to a guarded link construction",
               any(f.dominates(wb, sb) for wb, _ in wraps), "", f.loc(sb))
    for n, eb in enumerate(ends):
        rep.ob("R29.2", f"finish: Event::End #{n} only after an Event::Start of the same wrap",
               any(f.dominates(sb, eb) for sb in starts), "", f.loc(eb), nontrivial=False)
    for n, (bb, dop) in enumerate(wraps):
        srcs = [o for o in (origins_multi(f, dop) if dop is not None else [{}])
                if not (o.get("kind") == "agg" and o["rv"].get("var") == "None")]
        ok = bool(srcs)
        for o in srcs:
            good = o.get("kind") == "call" and o["call"].matches("HashMap::get")
            recv = f.origin(o["call"].args[0]) if good else {}
            ok = ok and good and recv.get("kind") == "arg" and recv.get("n") == 1 and ".hrefs" in recv.get("proj", [])
        rep.ob("R29.2", f"finish: link #{n} points to a value stored in `hrefs`", ok,
               f"dest_url originates from {[(o.get('kind'), str(o.get('call', ''))) for o in srcs]}", f.loc(bb))

    # written anchors are closed at once, so a following code span link is never inside an <a>
    nid = 0
    for fn in generator_fns():
        for s in synq.strings(fn.body):
            v = s["v"]
            for m in ANCHOR_OPEN_RE.finditer(v):
                nid += 1
                rest = v[m.start():]
                ok = bool(ID_CLOSED_RE.match(rest))
                tag = rest.split(">")[0].replace("\n", " ") + ">"
                rep.ob("R29.2", f"{fn.name}: written anchor `{tag}` is `<a id=\"..\"></a>` (closed at once)", ok,
                       "text after an unclosed <a> would be linked inside it", fn.loc(s))
    rep.floor("R29.2", "literal <a ..> anchors written by the generator", nid, 12)


# ---------------------------------------------------------------------------- R29.3
def collect(rep):
    """per function: ids written, fragments linked, raw link syntax; from the emission model"""
    out = []
    for fn in generator_fns():
        ctx = FnCtx(fn)
        ids, hrefs, bad = [], [], []
        for em, site in emission_runs(ctx):
            for m in ID_RE.finditer(em.text):
                ids.append((em, m.group(1), site))
            for r_ in HREF_RES:
                for m in r_.finditer(em.text):
                    hrefs.append((em, m.group(1), site))
            for m in LINKISH_RE.finditer(em.text):
                if not LINK_OK_RE.match(em.text, m.start()):
                    bad.append((em, em.text[m.start():m.start() + 24], site))
        out.append((fn, ctx, ids, hrefs, bad))
    return out


def r3(rep, c):
    data = collect(rep)
    ninsert = 0
    for fn, ctx, ids, hrefs, bad in data:
        rep.saw(f"{MD}::{fn.name}")
        written = {}
        for em, frag, site in ids:
            written.setdefault(em.expanded(ctx, frag), []).append(control_context(ctx.pm, site))
        for m in synq.method_calls(fn.body, "insert"):
            r_ = strip_ref(m["recv"])
            if not (r_.get("k") == "field" and r_["member"] == "hrefs"):
                continue
            ninsert += 1
            if len(m["args"]) != 2:
                rep.ob("R29.3", f"{fn.name}: hrefs.insert has (key, value)", False, "", fn.loc(m))
                continue
            em = Emission(ctx)
            em.expr(m["args"][1])
            val = em.expanded(ctx)
            rep.ob("R29.3", f"{fn.name}: hrefs value `{val}` is an intra-document fragment", val.startswith("#"),
                   "", fn.loc(m), nontrivial=False)
            frag = val[1:] if val.startswith("#") else val
            ok = frag in written
            rep.ob("R29.3", f"{fn.name}: hrefs value `{val}` is written as <a id=\"{frag}\"> by the same function", ok,
                   f"ids written here: {sorted(written)}", fn.loc(m))
            if ok:
                stmt = next((a for a in [m] + list(ancestors(ctx.pm, m)) if a.get("k") == "expr_stmt"), m)
                rep.ob("R29.3", f"{fn.name}: `{val}` is recorded exactly where its anchor is written (same loop / branch)",
                       control_context(ctx.pm, stmt) in written[frag], "the anchor may be missing when the link is made",
                       fn.loc(m))
    rep.floor("R29.3", "hrefs.insert sites (syntax tree)", ninsert, 10)

    # MIR: the only mutation of hrefs is HashMap::insert, and there are as many as the syntax tree shows
    nmir = 0
    for g in c.fns.values():
        for call in g.calls():
            at = call.arg_types
            if not at or not at[0].startswith("&mut") or mir.base_type(at[0]) != "HashMap":
                continue
            o = g.origin(call.args[0])
            if ".hrefs" not in o.get("proj", []):
                continue
            nmir += 1 if call.matches("HashMap::insert") else 0
            rep.ob("R29.3", f"{fname(g)}: hrefs is mutated through HashMap::insert only ({short_callee(call)})",
                   call.matches("HashMap::insert"), "", g.loc(call.bb), nontrivial=False)
        st = g.field_stores("hrefs")
        if st:
            rep.ob("R29.3", f"{fname(g)}: hrefs is never replaced wholesale", False, "", g.loc(st[0][0]))
    rep.ob("R29.3", "every hrefs insertion in the MIR is one the syntax rule examined", nmir == ninsert,
           f"MIR {nmir} vs syntax tree {ninsert}", MD)


# ---------------------------------------------------------------------------- R29.4
def r4(rep, c):
    data = collect(rep)
    by_fn = {fn.name: (fn, ctx, ids, hrefs, bad) for fn, ctx, ids, hrefs, bad in data}
    if "print_type_header" not in by_fn:
        raise mir.AnchorMissing("InterfaceGenerator::print_type_header")
    hfn, hctx, hids, _, _ = by_fn["print_type_header"]
    rep.ob("R29.4", "print_type_header writes exactly one <a id>", len(hids) == 1, f"{len(hids)}", hfn.loc())
    if len(hids) != 1:
        return
    hem, hfrag, hsite = hids[0]
    hshape = hem.shape(hfrag)
    # the id is a conversion of the `name` parameter only
    roots = [hctx.rtext(conv_chain(hem.holes[int(i)][0], hctx)[0]) for i in MARK_RE.findall(hfrag)]
    pnames = [p for p in hfn.params if p and p != "self"]
    name_param = roots[0] if len(roots) == 1 and roots[0] in pnames else None
    rep.ob("R29.4", "print_type_header: the id is a case conversion of one parameter (the type name)",
           name_param is not None and MARK_RE.fullmatch(hfrag) is not None, f"id = `{hem.expanded(hctx, hfrag)}`", hfn.loc())

    nh = 0
    nbad = 0
    for fn, ctx, ids, hrefs, bad in data:
        all_shapes = {em.shape(frag) for em, frag, site in ids}
        for em, txt, site in bad:
            nbad += 1
            rep.ob("R29.4", f"{fn.name}: link syntax `{em.expanded(ctx, txt)}` has a recognisable target", False,
                   "cannot tell which anchor this link needs", fn.loc(site))
        for em, frag, site in hrefs:
            nh += 1
            sh = em.shape(frag)
            exp = em.expanded(ctx, frag)
            if fn.name == "print_ty":
                rep.ob("R29.4", f"print_ty: link fragment `#{exp}` uses print_type_header's id conversion `{hshape}`",
                       sh == hshape, f"fragment shape `{sh}` vs id shape `{hshape}`: the link would dangle", fn.loc(site))
                # the converted value is the printed type's own name: bound by `if let Some(x) = &<ty>.name`
                hole_roots = [conv_chain(em.holes[int(i)][0], ctx)[0] for i in MARK_RE.findall(frag)]
                ok = False
                if len(hole_roots) == 1 and hole_roots[0].get("k") == "path":
                    x = hole_roots[0]["path"]
                    for a in ancestors(ctx.pm, site):
                        if a.get("k") == "if" and a["cond"].get("k") == "let_cond":
                            pat, scr = a["cond"]["pat"], strip_ref(a["cond"]["e"])
                            if pat.get("k") == "p_tuple_struct" and synq.short(pat["path"]) == "Some" and \
                                    [e.get("name") for e in pat["elems"]] == [x] and scr.get("k") == "field" and \
                                    scr["member"] == "name":
                                ok = True
                rep.ob("R29.4", f"print_ty: link fragment `#{exp}` converts the named type's own name", ok, "", fn.loc(site))
            else:
                rep.ob("R29.4", f"{fn.name}: link fragment `#{exp}` has the shape of an id written by the same function",
                       sh in all_shapes, f"shape `{sh}`, ids here {sorted(all_shapes)}", fn.loc(site))
    rep.floor("R29.4", "fragment links written by the generator (outside hrefs)", nh, 1)

    # MIR: every type callback writes the header (the anchor) for its own `name`
    cbs = [g for g in c.fns.values() if (g.d.get("trait") or "").endswith("::InterfaceGenerator") and fname(g).startswith("type_")]
    rep.floor("R29.4", "type_* callbacks of the markdown InterfaceGenerator", len(cbs), 15)
    ncall = 0
    for g in cbs:
        rep.saw(g)
        hdr = g.calls(["InterfaceGenerator::print_type_header", "type_alias"])
        rets = g.returns()
        if not rets:
            rep.ob("R29.4", f"{fname(g)}: writes the type's anchor on every returning path", True,
                   "diverges (todo!): no document is produced at all", g.loc(), nontrivial=False)
            continue
        rep.ob("R29.4", f"{fname(g)}: writes the type's anchor on every returning path",
               bool(hdr) and every_return_passes(g, [x.bb for x in hdr]), "a named type is linked but never anchored", g.loc())
        for call in hdr:
            ncall += 1
            o = g.origin(call.args[2]) if len(call.args) > 2 else {}
            rep.ob("R29.4", f"{fname(g)}: the anchor is written for the callback's own `name` argument",
                   o.get("kind") == "arg" and o.get("n") == 3 and g.locals[3] == "&str" and
                   [p for p in o.get("proj", []) if p not in ("*", "&")] == [],
                   f"{o.get('kind')} {o.get('place', '')}", g.loc(call.bb))
    rep.floor("R29.4", "header calls in type_* callbacks", ncall, 15)
    # the named types of every rendered interface / world are all defined (anchored) in the document
    nent = 0
    for g in c.fns.values():
        if not (g.d.get("trait") or "").endswith("::WorldGenerator"):
            continue
        ids = [i for i in range(1, g.argc + 1) if "Id<" in g.locals[i] and "Interface>" in g.locals[i]]
        if ids:
            nent += 1
            rep.saw(g)
            blocks = [x.bb for x in g.calls("InterfaceGenerator::types")
                      if len(x.args) > 1 and g.origin(x.args[1]).get("kind") == "arg" and g.origin(x.args[1]).get("n") == ids[0]]
            rep.ob("R29.4", f"{fname(g)}: every type of the interface is defined (types(id)) on every path",
                   bool(blocks) and every_return_passes(g, blocks), "links to the interface's types would dangle", g.loc())
        if any("TypeDef>" in g.locals[i] and "[" in g.locals[i] for i in range(1, g.argc + 1)):
            nent += 1
            rep.saw(g)
            dt = [x.bb for x in g.calls("InterfaceGenerator::define_type") if g.in_cycle(x.bb)]
            rep.ob("R29.4", f"{fname(g)}: every world-level type is defined (define_type in the loop over `types`)",
                   bool(dt), "links to world-level types would dangle", g.loc())
    rep.floor("R29.4", "entry points that define the types of an interface / world", nent, 3)
    # print_type_header's name parameter is its third argument (self, kind, name): the one R29.4 saw converted
    h = c.method("InterfaceGenerator", "print_type_header")
    rep.saw(h)
    conv = [x for x in h.calls(re.compile(r"heck::To\w+Case"))]
    rep.floor("R29.4", "case conversions in print_type_header", len(conv), 1)
    for n, x in enumerate(conv):
        o = through(h, x.args[0])
        rep.ob("R29.4", f"print_type_header: case conversion #{n} is applied to the name argument",
               o.get("kind") == "arg" and o.get("n") == 3, f"{o.get('kind')} {o.get('place', '')}", h.loc(x.bb))


# ---------------------------------------------------------------------------- R29.5
DOC_OWNERS_VIA_CALLBACK = {"TypeDef"}        # core's define_type passes &ty.docs to the type_* callbacks
DOC_OWNERS_NOT_IN_WORLD = {"UnresolvedPackage"}


def documented_structs():
    d = facts.registry_src("wit-parser")
    if d is None:
        raise mir.AnchorMissing("wit-parser source not found in the cargo registry")
    ast = facts.parse_snippet(open(os.path.join(d, "src/lib.rs")).read())
    if "error" in ast:
        raise mir.AnchorMissing("wit-parser lib.rs does not parse")
    out = []

    def rec(items):
        for it in items or []:
            if it.get("k") == "struct_def" and any(x.get("name") == "docs" and x.get("ty", "").replace(" ", "") == "Docs"
                                                   for x in it.get("fields") or []):
                out.append(it["name"])
            if it.get("k") == "mod" and it.get("items"):
                rec(it["items"])
    rec(ast.get("items"))
    return out


def docs_calls(g):
    """calls of InterfaceGenerator::docs in g with the struct whose `.docs` field is passed (or ('param', n))"""
    out = []
    for call in g.calls("InterfaceGenerator::docs"):
        if len(call.args) < 2:
            continue
        op = call.args[1]
        owner = None
        p = op.get("cp") or op.get("mv")
        # follow plain re-borrows to the `&(*x).docs` statement
        for _ in range(6):
            if p is None or p.get("p"):
                break
            l = p["l"]
            if 1 <= l <= g.argc:
                owner = ("param", l)
                break
            ds = [d for d in g.defs.get(l, []) if d[2] != "partial"]
            if len(ds) != 1 or ds[0][2] != "assign":
                break
            rv = ds[0][3]
            if rv["k"] == "ref":
                q = rv["p"]
                pr = q.get("p", [])
                if pr and pr[-1] == ".docs":
                    if pr[:-1] in (["*"], []):
                        owner = ("field", mir.base_type(g.locals[q["l"]]))
                    else:
                        owner = ("field", "?")
                    break
                if pr == ["*"]:
                    p = {"l": q["l"]}
                    continue
                break
            if rv["k"] == "use":
                p = rv["o"].get("cp") or rv["o"].get("mv")
                continue
            break
        out.append((call, owner))
    return out


def r5(rep, c):
    want = [s for s in documented_structs() if s not in DOC_OWNERS_NOT_IN_WORLD]
    rep.floor("R29.5", "wit-parser item kinds carrying a doc comment", len(want), 8)
    rendered = {}
    for g in c.fns.values():
        for call, owner in docs_calls(g):
            if owner and owner[0] == "field":
                rendered.setdefault(owner[1], []).append((g, call))
    for s in want:
        if s in DOC_OWNERS_VIA_CALLBACK:
            continue
        rep.ob("R29.5", f"the doc comment of a wit-parser `{s}` is passed to docs() somewhere in the generator",
               s in rendered, f"rendered kinds: {sorted(rendered)}", MD)
    # unconditional item docs: every returning path of the function that renders the item passes the docs() call
    for s in ("World", "Function"):
        for g in {id(g): g for g, _ in rendered.get(s, [])}.values():
            blocks = [call.bb for g2, call in rendered[s] if g2 is g]
            rep.ob("R29.5", f"{fname(g)}: the `{s}` doc comment is rendered on every path", every_return_passes(g, blocks),
                   "", g.loc())
    # per-member docs: in the member loop, an iteration can only miss docs(&member.docs) through the false edge of an
    # is_some() test on a doc comment (`if x.docs.contents.is_some() { .. docs(&x.docs) .. }`)
    nmem = 0
    for s_ in ("Field", "Flag", "Case", "EnumCase"):
        for g, call in rendered.get(s_, []):
            nmem += 1
            heads = [x.bb for x in g.calls("Iterator::next") if g.dominates(x.bb, call.bb) and g.in_cycle(x.bb)]
            if not heads:
                rep.ob("R29.5", f"{fname(g)}: every {s_} with a doc comment gets it rendered", False,
                       "docs() is not called per member", g.loc(call.bb))
                continue
            head = max(heads, key=lambda b: len(g.dom[b]))
            none_edges = []
            for sw, ft, tt in bool_switches_on_call(g, "Option::is_some"):
                o = g.switch_origin(sw)
                while o.get("kind") == "un":
                    o = o["a"]
                pr = g.origin(o["call"].args[0]).get("proj", [])
                if ".contents" in pr and ".docs" in pr and ft is not None:
                    none_edges.append((sw, ft))
            r = g.reachable(head, avoid=[call.bb], avoid_edges=none_edges)
            back = [p for p in g.pred[head] if p in g.reachable(head)]
            rep.ob("R29.5", f"{fname(g)}: every {s_} with a doc comment gets it rendered",
                   bool(back) and not any(p in r for p in back),
                   "an iteration can skip docs() although the member has a doc comment", g.loc(call.bb))
    rep.floor("R29.5", "per-member docs() calls (field / flag / case / enum case)", nmem, 4)
    # callbacks that receive a Docs: it is rendered (directly or by delegating to a sibling callback) on every path
    ncb = 0
    for g in c.fns.values():
        if fname(g) == "docs" and g.d.get("trait") is None:
            continue
        dparams = [i for i in range(1, g.argc + 1) if mir.base_type(g.locals[i]) == "Docs"]
        for dp in dparams:
            ncb += 1
            rets = g.returns()
            if not rets:
                rep.ob("R29.5", f"{fname(g)}: the doc comment it receives is rendered on every returning path", True,
                       "diverges (todo!)", g.loc(), nontrivial=False)
                continue
            blocks = []
            for call in g.calls():
                if not any(n.startswith("crate::") for n in call.names()):
                    continue
                for a, t in zip(call.args, call.arg_types):
                    if mir.base_type(t) == "Docs":
                        o = g.origin(a)
                        if o.get("kind") == "arg" and o.get("n") == dp:
                            blocks.append(call.bb)
            rep.ob("R29.5", f"{fname(g)}: the doc comment it receives is rendered on every returning path",
                   bool(blocks) and every_return_passes(g, blocks), "a type's doc comment is dropped", g.loc())
    rep.floor("R29.5", "callbacks receiving a Docs", ncb, 15)
    # interfaces: every WorldGenerator entry point that renders an interface renders its doc comment
    nif = 0
    for g in c.fns.values():
        if not (g.d.get("trait") or "").endswith("::WorldGenerator"):
            continue
        if not any("Id<" in g.locals[i] and "Interface>" in g.locals[i] for i in range(1, g.argc + 1)):
            continue
        nif += 1
        blocks = [call.bb for g2, call in rendered.get("Interface", []) if g2 is g]
        rep.ob("R29.5", f"{fname(g)}: the interface's doc comment is rendered on every path",
               bool(blocks) and every_return_passes(g, blocks),
               "the interface section is written without the interface's documentation", g.loc())
    rep.floor("R29.5", "WorldGenerator entry points rendering an interface", nif, 2)
