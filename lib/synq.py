"""Queries over the syntax trees written by tools/synfacts (E2).

Nodes are dicts with "k" (kind) and "sp" [line, col, endline, endcol].
"""
import json
import os
import re
from functools import lru_cache

from . import facts
from .mir import AnchorMissing


@lru_cache(maxsize=None)
def load(rel):
    d = facts.syn_dir()
    p = os.path.join(d, rel.replace("/", "__") + ".json")
    if not os.path.exists(p):
        raise AnchorMissing(f"source file {rel} not found in the working tree")
    return json.load(open(p))


def files():
    return facts.syn_sources()


def walk(n):
    """Pre-order traversal of all dict nodes."""
    st = [n]
    while st:
        x = st.pop()
        if isinstance(x, dict):
            yield x
            # push children in reverse so that traversal is in source order
            vals = [v for v in x.values() if isinstance(v, (dict, list))]
            for v in reversed(vals):
                st.append(v)
        elif isinstance(x, list):
            for v in reversed(x):
                st.append(v)


def kind(n, k):
    return isinstance(n, dict) and n.get("k") == k


def line(n):
    return n["sp"][0] if isinstance(n, dict) and "sp" in n else 0


def loc(rel, n):
    return f"{rel}:{line(n)}"


# ---------------------------------------------------------------------------- functions
class FnInfo:
    def __init__(self, node, file, self_ty=None, trait=None, mod=()):
        self.node = node
        self.file = file
        self.name = node["sig"]["name"]
        self.self_ty = self_ty
        self.trait = trait
        self.mod = mod
        self.body = node.get("body")

    @property
    def params(self):
        out = []
        for p in self.node["sig"]["params"]:
            if p.get("self"):
                out.append("self")
            elif p["pat"].get("k") == "p_ident":
                out.append(p["pat"]["name"])
            else:
                out.append(None)
        return out

    def loc(self, n=None):
        return loc(self.file, n if n is not None else self.node)

    def __repr__(self):
        return f"<fn {self.self_ty or ''}::{self.name} {self.file}:{line(self.node)}>"


def base_name(ty):
    if ty is None:
        return None
    t = re.sub(r"<.*$", "", ty.replace(" ", ""))
    t = t.lstrip("&").replace("mut", "") if t.startswith("&mut") else t.lstrip("&")
    return t.split("::")[-1]


def all_fns(rel):
    """All fn items of a file, including impl/trait methods, nested modules and fns nested in fn bodies."""
    ast = load(rel)
    out = []

    def items(lst, self_ty, trait, mod):
        for it in lst or []:
            k = it.get("k")
            if k == "fn":
                if it.get("body") is not None or True:
                    out.append(FnInfo(it, rel, self_ty, trait, mod))
                    if it.get("body"):
                        nested(it["body"], mod)
            elif k == "impl":
                items(it["items"], base_name(it["self_ty"]), it.get("trait") and base_name(it["trait"]), mod)
            elif k == "trait":
                items(it["items"], it["name"], None, mod)
            elif k == "mod" and it.get("items") is not None:
                items(it["items"], None, None, mod + (it["name"],))
            elif k == "macro" and it.get("items"):
                items(it["items"], self_ty, trait, mod)

    def nested(body, mod):
        for n in walk(body):
            if n.get("k") == "item_stmt":
                items([n["item"]], None, None, mod)

    items(ast.get("items"), None, None, ())
    return out


def find_fn(rel, name, self_ty=None, trait=None, required=True):
    c = [f for f in all_fns(rel) if f.name == name and (self_ty is None or f.self_ty == self_ty)
         and (trait is None or f.trait == trait) and f.body is not None]
    if len(c) == 1:
        return c[0]
    if required:
        raise AnchorMissing(f"fn {self_ty or ''}::{name} (trait {trait}) in {rel}: {len(c)} matches")
    return None


def find_fns(rel, name, self_ty=None):
    return [f for f in all_fns(rel) if f.name == name and (self_ty is None or f.self_ty == self_ty)
            and f.body is not None]


def items_of(rel, kinds=("enum_def", "struct_def", "const", "static")):
    out = []

    def rec(lst):
        for it in lst or []:
            if it.get("k") in kinds:
                out.append(it)
            if it.get("k") == "mod" and it.get("items"):
                rec(it["items"])
    rec(load(rel).get("items"))
    return out


def enum_variants(rel, name):
    for it in items_of(rel, ("enum_def",)):
        if it["name"] == name:
            return [v["name"] for v in it["variants"]]
    raise AnchorMissing(f"enum {name} in {rel}")


# ---------------------------------------------------------------------------- patterns / matches
def pat_alts(p):
    """Expand or-patterns: list of alternatives, each a pattern node without top-level `|`."""
    if p.get("k") == "p_or":
        out = []
        for c in p["cases"]:
            out += pat_alts(c)
        return out
    if p.get("k") == "p_ref":
        return pat_alts(p["pat"])
    return [p]


def pat_head(p):
    """A short name for what a pattern matches at top level: path of variant, '_' for catch-all, literal."""
    k = p.get("k")
    if k in ("p_tuple_struct", "p_struct", "p_path"):
        return p["path"]
    if k == "p_wild":
        return "_"
    if k == "p_ident":
        if p.get("sub"):
            return pat_head(p["sub"])
        # an identifier pattern is a binding (catch-all) unless it names a unit variant/const (uppercase start)
        return p["name"] if p["name"][:1].isupper() else "_"
    if k == "p_lit":
        l = p["lit"]
        return repr(l.get("v")) if l.get("k") == "str" else str(l.get("v"))
    if k == "p_ref":
        return pat_head(p["pat"])
    if k == "p_tuple":
        return "(" + ", ".join(pat_head(e) for e in p["elems"]) + ")"
    if k == "p_range":
        return p["src"]
    return "?"


def short(path):
    return path.split("::")[-1]


class Arm:
    def __init__(self, node):
        self.node = node
        self.pat = node["pat"]
        self.alts = pat_alts(node["pat"])
        self.heads = [pat_head(a) for a in self.alts]
        self.guard = node.get("guard")
        self.body = node["body"]

    def binds(self):
        """identifier bindings introduced by the pattern (all alternatives)."""
        out = []
        for n in walk(self.pat):
            if n.get("k") == "p_ident" and not n["name"][:1].isupper():
                out.append(n["name"])
            if n.get("k") == "p_struct":
                pass
        return out


def arms(m):
    return [Arm(a) for a in m["arms"]]


def matches_in(node):
    return [n for n in walk(node) if n.get("k") == "match"]


def find_match(node, head_prefix, min_arms=2, nth=0):
    """The nth `match` under node whose arm heads (mostly) start with head_prefix, e.g. 'Type::' or 'TypeDefKind::'."""
    c = []
    for m in matches_in(node):
        hs = [h for a in arms(m) for h in a.heads]
        good = [h for h in hs if h.startswith(head_prefix) or short_in(h, head_prefix)]
        if len(good) >= min_arms:
            c.append(m)
    if len(c) <= nth:
        raise AnchorMissing(f"match on {head_prefix}* (#{nth}) not found")
    return c[nth]


def short_in(h, prefix):
    return False


def arm_for(m, head, all_matching=False):
    """Arm(s) of match m that handle variant `head` (full path suffix match, e.g. 'Type::Bool' or 'Bool');
    falls back to the first catch-all arm.  Guards are ignored here (callers look at arm.guard)."""
    res = []
    for a in arms(m):
        for h in a.heads:
            if h == head or h.endswith("::" + head) or short(h) == short(head) and ("::" not in h or "::" not in head):
                res.append(a)
                break
    if res:
        return res if all_matching else res[0]
    for a in arms(m):
        if "_" in a.heads:
            return [a] if all_matching else a
    return [] if all_matching else None


# ---------------------------------------------------------------------------- expressions
_REN = [None]


def render(e, ren=None):
    """Canonical one-line rendering of an expression (for sibling comparison and reports).
    `ren` maps local names to canonical role names (see param_roles)."""
    if ren is not None:
        old = _REN[0]
        _REN[0] = ren
        try:
            return render(e)
        finally:
            _REN[0] = old
    if e is None:
        return ""
    if isinstance(e, list):
        return ", ".join(render(x) for x in e)
    k = e.get("k")
    if k == "path":
        if _REN[0] and e["path"] in _REN[0]:
            return _REN[0][e["path"]]
        return e["path"]
    if k in ("str",):
        return json.dumps(e["v"])
    if k in ("int", "float"):
        return str(e["v"])
    if k == "bool":
        return "true" if e["v"] else "false"
    if k == "char":
        return repr(e["v"])
    if k == "call":
        return f"{render(e['func'])}({render(e['args'])})"
    if k == "mcall":
        return f"{render(e['recv'])}.{e['method']}({render(e['args'])})"
    if k == "field":
        return f"{render(e['base'])}.{e['member']}"
    if k == "index":
        return f"{render(e['base'])}[{render(e['index'])}]"
    if k == "unary":
        return f"{e['op']}{render(e['e'])}"
    if k == "binary":
        return f"({render(e['l'])} {e['op']} {render(e['r'])})"
    if k == "ref":
        return "&" + ("mut " if e.get("mut") else "") + render(e["e"])
    if k == "cast":
        return f"({render(e['e'])} as {e['ty']})"
    if k == "tuple":
        return "(" + render(e["elems"]) + ")"
    if k == "array":
        return "[" + render(e["elems"]) + "]"
    if k == "struct":
        return e["path"] + " { " + ", ".join(f"{f['name']}: {render(f['e'])}" for f in e["fields"]) + " }"
    if k == "macro":
        if "args" in e:
            return f"{e['name']}!({render(e['args'])})"
        return f"{e['name']}!(..)"
    if k == "try":
        return render(e["e"]) + "?"
    if k == "range":
        return f"{render(e.get('start'))}{e.get('limits', '..')}{render(e.get('end'))}"
    if k == "closure":
        return "|" + ", ".join(pat_head(p) if p.get("k") != "p_ident" else p["name"] for p in e["params"]) + "| " + render(e["body"])
    if k == "block":
        return "{ " + "; ".join(render_stmt(s) for s in e["stmts"]) + " }"
    if k == "if":
        s = f"if {render(e['cond'])} {render(e['then'])}"
        if e.get("else"):
            s += " else " + render(e["else"])
        return s
    if k == "let_cond":
        return f"let {pat_head(e['pat'])} = {render(e['e'])}"
    if k == "match":
        return f"match {render(e['scrut'])} {{..}}"
    if k == "return":
        return "return " + render(e.get("e"))
    if k == "assign":
        return f"{render(e['l'])} = {render(e['r'])}"
    if k == "other":
        return e.get("src", "?")
    return k or "?"


ROLE_BY_TYPE = {"ArchitectureSize": "$offset", "&Type": "$ty", "B::Operand": "$addr", "Int": "$tag",
                "Deallocate": "$what", "&Function": "$func", "AbiVariant": "$variant", "LiftLower": "$lift_lower",
                "&Resolve": "$resolve"}


def param_roles(fn, extra=None):
    """Map parameter names to role names derived from their declared types (robust to renaming)."""
    ren = {}
    for i, p in enumerate(fn.node["sig"]["params"]):
        if p.get("self"):
            continue
        if p["pat"].get("k") != "p_ident":
            continue
        ty = p["ty"].replace(" ", "").replace("&'a", "&").replace("&'b", "&")
        ren[p["pat"]["name"]] = ROLE_BY_TYPE.get(ty, f"$p{i}")
    if extra:
        ren.update(extra)
    return ren


def let_names(node, pred):
    """names bound by `let name = init` whose rendered initialiser satisfies pred(init_node)"""
    return [nm for nm, init, st in bindings(node) if init is not None and pred(init)]


def render_stmt(s):
    k = s.get("k")
    if k == "let":
        return f"let {pat_head(s['pat']) if s['pat'].get('k') != 'p_ident' else s['pat']['name']} = {render(s.get('init'))}"
    if k == "expr_stmt":
        return render(s["e"])
    return k


def method_calls(node, method=None, recv=None):
    out = []
    for n in walk(node):
        if n.get("k") == "mcall" and (method is None or n["method"] == method or
                                      (isinstance(method, (list, tuple, set)) and n["method"] in method)):
            if recv is None or render(n["recv"]) == recv:
                out.append(n)
    return out


def fn_calls(node, name=None):
    """free-function / path calls: `abi::call(..)`, `cast(..)`; name matched on the last path segment or full path."""
    out = []
    for n in walk(node):
        if n.get("k") == "call" and n["func"].get("k") == "path":
            p = n["func"]["path"]
            if name is None or p == name or short(p) == name:
                out.append(n)
    return out


def macros(node, name=None):
    out = []
    for n in walk(node):
        if n.get("k") == "macro":
            nm = short(n["name"])
            if name is None or nm == name or (isinstance(name, (list, tuple, set)) and nm in name):
                out.append(n)
    return out


def strings(node):
    return [n for n in walk(node) if n.get("k") == "str"]


def paths(node):
    return [n for n in walk(node) if n.get("k") in ("path", "struct")]


def constructed(node, variants, prefix=None):
    """Names from `variants` that appear as a path / struct-literal / call head in node, in source order.
    Used for `self.emit(&Instruction::X { .. })` with or without `use Instruction::*`."""
    vs = set(variants)
    out = []
    for n in walk(node):
        k = n.get("k")
        p = None
        if k in ("path", "struct"):
            p = n["path"]
        if p is None:
            continue
        segs = p.split("::")
        if segs[-1] in vs and (len(segs) == 1 or prefix is None or segs[-2] == prefix):
            out.append((segs[-1], n))
    return out


# ---------------------------------------------------------------------------- format-like macros
FMT_FIRST = {"format", "panic", "todo", "unimplemented", "unreachable", "print", "println", "eprintln", "eprint",
             "format_args", "bail", "anyhow", "uwrite_noop"}
FMT_SECOND = {"write", "writeln", "uwrite", "uwriteln"}


class Fmt:
    def __init__(self, node):
        self.node = node
        self.name = short(node["name"])
        args = node.get("args") or []
        self.dest = None
        i = 0
        if self.name in FMT_SECOND and args:
            self.dest = args[0]
            i = 1
        self.template = None
        self.template_node = None
        if len(args) > i and args[i].get("k") == "str":
            self.template = args[i]["v"]
            self.template_node = args[i]
            i += 1
        self.positional = []
        self.named = {}
        for a in args[i:]:
            if a.get("k") == "assign" and a["l"].get("k") == "path" and "::" not in a["l"]["path"]:
                self.named[a["l"]["path"]] = a["r"]
            else:
                self.positional.append(a)

    def holes(self):
        """List of hole descriptors in template order: ('pos', index) | ('name', ident), with format spec."""
        if self.template is None:
            return []
        out = []
        pos = 0
        for m in re.finditer(r"\{\{|\}\}|\{([^{}]*)\}", self.template):
            if m.group(0) in ("{{", "}}"):
                continue
            inner = m.group(1)
            name = inner.split(":", 1)[0].strip()
            if name == "":
                out.append(("pos", pos, m.start()))
                pos += 1
            elif name.isdigit():
                out.append(("pos", int(name), m.start()))
            else:
                out.append(("name", name, m.start()))
        return out

    def hole_exprs(self):
        """For every hole: (kind, key, expr-node or None for an implicit capture, offset)."""
        out = []
        for kind, key, off in self.holes():
            if kind == "pos":
                e = self.positional[key] if key < len(self.positional) else None
                out.append((kind, key, e, off))
            else:
                out.append((kind, key, self.named.get(key), off))
        return out


def fmts(node):
    out = []
    for n in macros(node):
        nm = short(n["name"])
        if nm in FMT_FIRST or nm in FMT_SECOND:
            if n.get("args") is not None:
                out.append(Fmt(n))
    return out


# ---------------------------------------------------------------------------- def-use (syntactic, intra-function)
def bindings(fn_body_or_node):
    """All `let` statements and their bound simple names, in source order: list of (name, init, stmt)."""
    out = []
    for n in walk(fn_body_or_node):
        if n.get("k") == "let":
            for b in walk(n["pat"]):
                if b.get("k") == "p_ident":
                    out.append((b["name"], n.get("init"), n))
    return out


def reaching_def(fnnode, name, at_line):
    """Nearest preceding `let name = init` (by source position) inside fnnode; None if not found."""
    best = None
    for nm, init, st in bindings(fnnode):
        if nm == name and line(st) <= at_line:
            if best is None or line(st) >= line(best[1]):
                best = (init, st)
    return best


def contains_call_named(node, names):
    """Does the expression contain a method / function call whose name is in `names`?"""
    for n in walk(node):
        if n.get("k") == "mcall" and n["method"] in names:
            return n["method"]
        if n.get("k") == "call" and n["func"].get("k") == "path" and short(n["func"]["path"]) in names:
            return short(n["func"]["path"])
    return None
