"""C21 — async import calls release parameters and results exactly once (structural clauses)."""
import json
import os
import re

from lib import mir, facts
from .rtcommon import (configs, rt, discr_switches, variant_target, calls_in, bool_switches_on_call, crate_callee,
                       callers_of)

CLAIM = dict(
    level="other", engine="mirfacts+synfacts", design="DESIGN.md §5 C21",
    technique="per-status path specialisation of SubtaskOps::in_progress_update (MIR, drop-flag aware) with min/max "
              "effect counts, value-flow (origin) rules, who-may-call / who-may-construct scans, link-name table",
    text="For each status value (and both values of `started`) every returning path of in_progress_update has exactly "
         "the release / lift / drop effects of the table in DESIGN.md R21.1; flag_started frees the lists once; "
         "`start` unpacks status/handle as the spec says and moves the buffer, lowered params and handle into the "
         "in-progress state; the subtask handle is dropped through [subtask-drop] once, is never cloned/forgotten; "
         "the generic driver cancels only from the InProgress state and feeds the cancel code back into "
         "in_progress_update. Partial: the bindings-generated Subtask callbacks and the host are not analysed.",
    note="mir+syn")

SPEC = {"STATUS_STARTING": 0, "STATUS_STARTED": 1, "STATUS_RETURNED": 2, "STATUS_STARTED_CANCELLED": 3,
        "STATUS_RETURNED_CANCELLED": 4}
SUBTASK_RS = "crates/guest-rust/src/rt/async_support/subtask.rs"
WAITABLE_RS = "crates/guest-rust/src/rt/async_support/waitable.rs"

FLAG = "InProgress::flag_started"
LISTS = "Subtask::params_dealloc_lists"
OWN = "Subtask::params_dealloc_lists_and_own"
LIFT = "Subtask::results_lift"
IMPORT = "Subtask::call_import"
SHIM_DROP = "subtask::drop"
SHIM_CANCEL = "subtask::cancel"
PTR_ADD = re.compile(r"ptr::mut_ptr::.*::add$")
LEAKERS = ["mem::forget", "ManuallyDrop::new", "Box::leak", "Box::into_raw", "Cleanup::forget", "MaybeUninit::new"]
DUPLICATORS = ["ptr::read", "ptr::read_unaligned", "ptr::read_volatile", "mem::transmute_copy", "ptr::copy",
               "ptr::copy_nonoverlapping", re.compile(r"ptr::(const_ptr|mut_ptr)::.*::(read|read_unaligned|read_volatile|copy_to|copy_from)(_nonoverlapping)?$")]
INF = float("inf")


# ----------------------------------------------------------------------------------------------- helpers (local)
def _const_bool(rv):
    if rv.get("k") == "use" and "c" in rv["o"] and rv["o"].get("ty") == "bool" and "v" in rv["o"]:
        return int(rv["o"]["v"])
    return None


def _flag_locals(f):
    """bool locals that are only ever assigned constants and never borrowed (drop flags and the like):
    their value can be propagated along a path."""
    cand = set()
    for b, t in f.switches():
        pl = t["d"].get("cp") or t["d"].get("mv")
        if pl is not None and not pl.get("p") and pl["l"] > f.argc and t.get("dty") == "bool":
            cand.add(pl["l"])
    out = set()
    for l in cand:
        ds = f.defs.get(l, [])
        if ds and all(k == "assign" and _const_bool(p) is not None for _, _, k, p in ds):
            out.add(l)
    for b in range(f.n):
        for s in f.stmts(b):
            if s["k"] == "=" and s["rv"].get("k") in ("ref", "rawptr") and s["rv"]["p"]["l"] in out:
                out.discard(s["rv"]["p"]["l"])
    return out


class Paths:
    """The entry->return paths of `f` under assumptions.

    `resolve(bb)` may force the successor of a switch block (an assumption about an input); switches on drop
    flags are resolved by propagating the constants assigned along the path.  Nodes are (bb, known-flag-values)."""

    def __init__(self, f, resolve=None):
        self.f = f
        self.flags = _flag_locals(f)
        self.succ = {}
        self.start = (0, ())
        todo = [self.start]
        while todo:
            n = todo.pop()
            if n in self.succ:
                continue
            b, fl = n
            fl = dict(fl)
            for s in f.stmts(b):
                if s["k"] == "=" and not s["p"].get("p") and s["p"]["l"] in self.flags:
                    v = _const_bool(s["rv"])
                    if v is None:
                        fl.pop(s["p"]["l"], None)
                    else:
                        fl[s["p"]["l"]] = v
            t = f.term(b)
            out = list(f.succ[b])
            if t["k"] == "switch":
                forced = None
                pl = t["d"].get("cp") or t["d"].get("mv")
                if pl is not None and not pl.get("p") and pl["l"] in self.flags and pl["l"] in fl:
                    tg = f.switch_targets(b)
                    forced = tg.get(fl[pl["l"]], tg["else"])
                elif resolve is not None:
                    forced = resolve(b)
                if forced is not None:
                    out = [forced] if forced in f.succ[b] else []
            key = tuple(sorted(fl.items()))
            self.succ[n] = [(x, key) for x in out]
            todo.extend(self.succ[n])
        self.rets = {n for n in self.succ if f.term(n[0])["k"] == "return"}
        pred = {}
        for n, ss in self.succ.items():
            for s in ss:
                pred.setdefault(s, []).append(n)
        co = set(self.rets)
        st = list(co)
        while st:
            x = st.pop()
            for p in pred.get(x, []):
                if p not in co:
                    co.add(p)
                    st.append(p)
        self.co = co                      # nodes lying on some entry->return path
        self.returns = self.start in co
        self.cyclic = self._cyclic()

    def _next(self, n):
        return [s for s in self.succ[n] if s in self.co]

    def _cyclic(self):
        color = {}
        for root in self.co:
            if root in color:
                continue
            st = [(root, iter(self._next(root)))]
            color[root] = 1
            while st:
                n, it = st[-1]
                adv = False
                for s in it:
                    if color.get(s) == 1:
                        return True
                    if s not in color:
                        color[s] = 1
                        st.append((s, iter(self._next(s))))
                        adv = True
                        break
                if not adv:
                    color[n] = 2
                    st.pop()
        return False

    def blocks(self):
        return {n[0] for n in self.co}

    def minmax(self, blocks):
        """(min, max) number of `blocks` visited over all entry->return paths; None if nothing returns."""
        blocks = set(blocks)
        if not self.returns:
            return None
        if self.cyclic:
            return (0, INF)
        memo = {}
        order = []
        seen = set()
        st = [(self.start, iter(self._next(self.start)))]
        seen.add(self.start)
        while st:                          # post-order
            n, it = st[-1]
            adv = False
            for s in it:
                if s not in seen:
                    seen.add(s)
                    st.append((s, iter(self._next(s))))
                    adv = True
                    break
            if not adv:
                order.append(n)
                st.pop()
        for n in order:
            c = 1 if n[0] in blocks else 0
            ss = self._next(n)
            if n in self.rets or not ss:
                memo[n] = (c, c)
            else:
                memo[n] = (c + min(memo[s][0] for s in ss), c + max(memo[s][1] for s in ss))
        return memo[self.start]

    def after(self, first, then):
        """Is some `then` block visited strictly after a `first` block on an entry->return path?"""
        first, then = set(first), set(then)
        st = [s for n in self.co if n[0] in first for s in self._next(n)]
        seen = set(st)
        while st:
            n = st.pop()
            if n[0] in then:
                return True
            for s in self._next(n):
                if s not in seen:
                    seen.add(s)
                    st.append(s)
        return False


def _strip_not(o):
    neg = False
    while o.get("kind") == "un" and o.get("op") == "Not":
        o = o["a"]
        neg = not neg
    return o, neg


def _fields(proj):
    return [p for p in (proj or []) if p not in ("*", "&")]


def _is_arg(o, n, fields=()):
    return o.get("kind") == "arg" and o["n"] == n and _fields(o.get("proj")) == list(fields)


def _is_call(o, pat, fields=None):
    return o.get("kind") == "call" and o["call"].matches(pat) and (fields is None or _fields(o.get("proj")) == list(fields))


def _pick_bool(tg, val):
    return tg.get(1, tg["else"]) if val else tg.get(0, tg["else"])


def status_resolver(f, code_arg, code, state_arg, started, barrier):
    """Assume `code == code` and (before any block of `barrier`, i.e. before flag_started ran) `state.started == started`."""
    later = set()
    for b in barrier:
        later |= f.reachable(b)

    def resolve(b):
        o, neg = _strip_not(f.switch_origin(b))
        tg = f.switch_targets(b)
        if _is_arg(o, code_arg) and not neg:
            return tg.get(code, tg["else"])
        if o.get("kind") == "bin" and o["op"] in ("Eq", "Ne"):
            for x, y in ((o["a"], o["b"]), (o["b"], o["a"])):
                if _is_arg(x, code_arg) and y.get("kind") == "const" and "v" in y:
                    eq = (y["v"] == code) == (o["op"] == "Eq")
                    return _pick_bool(tg, eq != neg)
        if started is not None and _is_arg(o, state_arg, (".started",)) and b not in later:
            return _pick_bool(tg, bool(started) != neg)
        return None
    return resolve


def is_status_switch(f, b, code_arg):
    o, _ = _strip_not(f.switch_origin(b))
    if _is_arg(o, code_arg):
        return True
    return o.get("kind") == "bin" and o["op"] in ("Eq", "Ne") and any(_is_arg(x, code_arg) for x in (o["a"], o["b"]))


def arg_of_type(f, pred):
    c = [i for i in range(1, f.argc + 1) if pred(f.locals[i])]
    if len(c) != 1:
        raise mir.AnchorMissing(f"{f.npath}: expected one argument of the wanted type, found {len(c)}")
    return c[0]


def state_drops(f, ty_re):
    """blocks that destroy a value whose type matches ty_re: drop terminators and `mem::drop(x)` calls."""
    r = re.compile(ty_re)
    out = [b for b, _ in f.drops(ty_re)]
    for k in f.calls(["mem::drop", "ptr::drop_in_place"]):
        if any(r.search(t) for t in k.arg_types):
            out.append(k.bb)
    return out


def ret_sites(f, blocks):
    """statements assigning the return place `_0` inside `blocks`: list of (bb, stmt)."""
    out = []
    for b in sorted(blocks):
        for s in f.stmts(b):
            if s["k"] == "=" and s["p"]["l"] == 0 and not s["p"].get("p"):
                out.append((b, s))
    return out


def _agg_of(f, o):
    """(adt, variant, [operand origins]) if origin o is an ADT aggregate."""
    if o.get("kind") == "agg" and "adt" in o["rv"]:
        rv = o["rv"]
        return rv["adt"], rv["var"], [f.origin(x) for x in rv["ops"]]
    return None


def classify_ret(f, stmt):
    """The shape of a `Result<Result<_, ()>, InProgress>` return value: ('Err', origin) / ('Ok', 'Ok'|'Err', origin)."""
    a = _agg_of(f, f.stored(stmt))
    if a is None or not a[0].endswith("result::Result"):
        return ("?",)
    if a[1] == "Err":
        return ("Err", a[2][0])
    inner = _agg_of(f, a[2][0])
    if inner is None or not inner[0].endswith("result::Result"):
        return ("Ok", "?", a[2][0])
    return ("Ok", inner[1], inner[2][0])


def chain_to_arg(f, o, n, through, depth=8):
    """Follow receiver/first-argument origins through calls matching `through` down to argument n; returns the
    list of field names met on the way, or None."""
    seen = []
    while depth > 0:
        depth -= 1
        seen += _fields(o.get("proj"))
        if o.get("kind") == "arg":
            return seen if o["n"] == n else None
        if o.get("kind") == "call" and o["call"].matches(through) and o["call"].args:
            o = f.origin(o["call"].args[0])
            continue
        return None
    return None


def fn_short(f):
    """`SubtaskOps::start`, `InProgress::flag_started`, `start::{closure#0}` — a stable display name."""
    st = f.d.get("self_ty")
    last = f.npath.split("::")[-1]
    if "{closure" in last:
        last = "::".join(f.npath.split("::")[-2:])
    return (mir.base_type(st) + "::" + last) if st else last


def in_file(f, rel):
    return f.file == rel or f.file.endswith("/" + rel)


def exactly(rep, rule, inst, mm, n, f, what):
    ok = mm is not None and mm == (n, n)
    if mm is None:
        det = "no returning path under this assumption (a valid status traps)"
    else:
        det = f"{what}: min {mm[0]}, max {mm[1]} over the returning paths, expected exactly {n}"
    rep.ob(rule, inst, ok, det, f.loc())


# ----------------------------------------------------------------------------------------------- run
def run(rep, tier):
    rep.describe(
        "other",
        "Decides structural necessary conditions of C21 on the MIR of the runtime crate. in_progress_update is "
        "specialised per status value (0..4, unknown) and per value of `started`; on every returning path of each "
        "specialisation the number of flag_started / params_dealloc_lists_and_own / results_lift calls and drops "
        "of the in-progress state is exactly the one the property needs, the returned Result has the right shape, "
        "and no release or lift follows the destruction of the state. flag_started asserts !started, sets it and "
        "frees lists once; only it frees lists / writes `started`. `start` calls the import once, splits "
        "`packed & 0xf` / `packed >> 4`, and stores buffer, lowered params and handle in the state with "
        "started=false. SubtaskHandle drops via the `[subtask-drop]` import once, is neither Clone nor Copy, is "
        "constructed at one site and never forgotten; cancel uses `[subtask-cancel]` on in_progress_waitable. The "
        "generic driver reaches in_progress_cancel only from the InProgress state, feeds its code (and the code of "
        "start) into in_progress_update, and leaves a completed operation in the Done state. NOT decided: what the "
        "bindings-generated Subtask methods free, host behaviour, concrete schedules, unwinding.",
        trusted_base=["rustc nightly MIR (opt-level 0, drop-elaborated) of crates/guest-rust", "tools/mirfacts",
                      "tools/synfacts (link_name attributes inside extern_wasm!)", "unwind edges ignored (panic = trap)"],
        assumptions=["native (x86_64) build: extern_wasm! built-ins appear as shim functions of the same path",
                     "the host only reports the status sequences the component model allows"],
    )
    rep.rule("R21.1", "in_progress_update, specialised per status and `started`: STARTING none; STARTED flag_started; "
                      "RETURNED flag_started iff !started then results_lift once, state dropped after; STARTED_CANCELLED "
                      "params_dealloc_lists_and_own once, no flag_started / lift; RETURNED_CANCELLED flag_started iff "
                      "!started; unknown traps; only in_progress_update calls these")
    rep.rule("R21.2", "flag_started asserts !started, stores true, calls params_dealloc_lists(self.params_lower) exactly "
                      "once; nothing else frees lists or writes `started`")
    rep.rule("R21.3", "STATUS_* = 0..4; start calls the import once, status = packed & 0xf, handle = packed >> 4; buffer "
                      "Cleanup, lowered params and handle are moved into InProgress (started=false); results are read at "
                      "the same offset")
    rep.rule("R21.4", "SubtaskHandle: Drop calls [subtask-drop](self.handle) once; not Clone/Copy; one construction site; "
                      "never forgotten; in_progress_cancel = [subtask-cancel](in_progress_waitable(state))")
    rep.rule("R21.5", "generic driver: in_progress_cancel only from the InProgress state; Start => start_cancelled "
                      "(params dropped by Rust); Done / is_done => no cancel")
    rep.rule("R21.6", "generic driver: the status from start and from in_progress_cancel reaches in_progress_update; "
                      "Ok leaves the operation Done, Err(state) stays InProgress")
    for cfg in configs(tier):
        rep.guard("R21", f"config:{cfg}", lambda cfg=cfg: one(rep, rt(cfg), cfg))
    rep.guard("R21.4", "link names", lambda: link_names(rep))


# ----------------------------------------------------------------------------------------------- syn: link names
def _walk(n):
    st = [n]
    while st:
        x = st.pop()
        if isinstance(x, dict):
            yield x
            st.extend(v for v in x.values() if isinstance(v, (dict, list)))
        elif isinstance(x, list):
            st.extend(x)


def link_names(rep):
    p = os.path.join(facts.syn_dir(), SUBTASK_RS.replace("/", "__") + ".json")
    if not os.path.exists(p):
        raise mir.AnchorMissing(f"{SUBTASK_RS} not in the working tree")
    ast = json.load(open(p))
    rep.saw(file=SUBTASK_RS)
    want = {"drop": 'link_name = "[subtask-drop]"', "cancel": 'link_name = "[subtask-cancel]"'}
    found = {}
    mods = [n for n in _walk(ast) if n.get("k") == "foreign_mod"]
    for m in mods:
        for it in m.get("items", []):
            if it.get("k") == "foreign_fn":
                found.setdefault(it["sig"]["name"], []).append((it, m))
    rep.floor("R21.4", "foreign functions declared in subtask.rs", len(found), 2)
    for name, attr in want.items():
        c = found.get(name, [])
        ok = len(c) == 1 and [a.replace(" ", "") for a in c[0][0]["attrs"] if a.replace(" ", "").startswith("link_name")] \
            == [attr.replace(" ", "")]
        rep.ob("R21.4", f"built-in `{name}` of subtask.rs is imported as {attr.split('=')[1].strip()}", ok,
               f"declarations: {[x[0]['attrs'] for x in c]}", f"{SUBTASK_RS}:{c[0][0]['sp'][0]}" if c else SUBTASK_RS)
        if c:
            mod_attrs = [a.replace(" ", "") for a in c[0][1].get("attrs", [])]
            rep.ob("R21.4", f"built-in `{name}` of subtask.rs comes from import module $root",
                   'link(wasm_import_module="$root")' in mod_attrs, f"{mod_attrs}", f"{SUBTASK_RS}:{c[0][1]['sp'][0]}")
    # the signatures: cancel(u32) -> u32, drop(u32)
    for name, ret in (("cancel", "u32"), ("drop", None)):
        for it, _ in found.get(name, []):
            ps = [q.get("ty") for q in it["sig"]["params"]]
            rep.ob("R21.4", f"built-in `{name}` of subtask.rs takes the handle (u32)" + (" and returns the status" if ret else ""),
                   ps == ["u32"] and it["sig"]["ret"] == ret, f"params {ps} ret {it['sig']['ret']}",
                   f"{SUBTASK_RS}:{it['sp'][0]}")


# ----------------------------------------------------------------------------------------------- mir rules
def one(rep, c, cfg):
    tag = f"[{cfg}]"
    WOP = "WaitableOp"

    upd = c.method("SubtaskOps", "in_progress_update", trait=WOP)
    flg = c.method("InProgress", "flag_started")
    sta = c.method("SubtaskOps", "start", trait=WOP)

    # ------------------------------------------------------------------ R21.3 constants
    def r3_consts():
        for name, v in SPEC.items():
            got = c.const(name)
            rep.ob("R21.3", f"{name} = {v} {tag}", got == v, f"the crate defines {name} = {got}", "crates/guest-rust/src/rt/async_support.rs")
    rep.guard("R21.3", f"constants {tag}", r3_consts)

    # ------------------------------------------------------------------ R21.1 arm effects of in_progress_update
    def r1():
        f = upd
        rep.saw(f)
        code_arg = arg_of_type(f, lambda t: t == "u32")
        state_arg = arg_of_type(f, lambda t: "subtask::InProgress<" in t and not t.startswith("&"))
        direct_flag_b = f.call_blocks(FLAG)
        # inline view: a call of a private `if !self.started { self.flag_started(..) }` helper is one flag_started
        # call when started=false and none when started=true
        helpers = [h for h in guarded_flag_helpers(c, flg) if sole_private_helper_of(c, h, [f])]
        helper_calls = [k for h in helpers for k in f.calls(h.npath)]
        helper_b = [k.bb for k in helper_calls]
        flag_b = direct_flag_b + helper_b
        lists_b = f.call_blocks(LISTS)
        own_b = f.call_blocks(OWN)
        lift_b = f.call_blocks(LIFT)
        drop_b = state_drops(f, r"subtask::InProgress<")
        nsw = [b for b, _ in f.switches() if is_status_switch(f, b, code_arg)]
        rep.floor("R21.1", f"status dispatch sites in in_progress_update {tag}", len(nsw), 1)
        rep.floor("R21.1", f"flag_started sites in in_progress_update {tag}", len(flag_b), 3)
        rep.floor("R21.1", f"results_lift sites in in_progress_update {tag}", len(lift_b), 1)
        rep.floor("R21.1", f"params_dealloc_lists_and_own sites in in_progress_update {tag}", len(own_b), 1)
        rep.floor("R21.1", f"drops of the in-progress state in in_progress_update {tag}", len(drop_b), 1)
        for b in flag_b + own_b + lift_b:
            rep.ob("R21.1", f"in_progress_update: {mir.norm(mir.Call(b, f.term(b)).callee).split('::')[-1]} is not called in a loop {tag}",
                   not f.in_cycle(b), "a release / lift call sits in a cycle", f.loc(b))

        # status -> [(started, n_flag, n_own, n_lift, n_drop, ret-shape)]
        OKOK, OKERR, ERR = ("Ok", "Ok"), ("Ok", "Err"), ("Err",)
        table = {
            "STATUS_STARTING": [(False, 0, 0, 0, 0, ERR)],
            "STATUS_STARTED": [(False, 1, 0, 0, 0, ERR)],
            "STATUS_RETURNED": [(False, 1, 0, 1, 1, OKOK), (True, 0, 0, 1, 1, OKOK)],
            "STATUS_STARTED_CANCELLED": [(False, 0, 1, 0, 1, OKERR)],
            "STATUS_RETURNED_CANCELLED": [(False, 1, 0, 0, 1, OKERR), (True, 0, 0, 0, 1, OKERR)],
        }
        for name, rows in table.items():
            for started, nflag, nown, nlift, ndrop, shape in rows:
                who = f"in_progress_update[{name}, started={str(started).lower()}]"
                p = Paths(f, status_resolver(f, code_arg, SPEC[name], state_arg, started, flag_b))
                rep.ob("R21.1", f"{who}: returns (a valid status does not trap) {tag}", p.returns,
                       "every path under this status ends in a panic", f.loc())
                if not p.returns:
                    continue
                exactly(rep, "R21.1", f"{who}: flag_started (frees the lists of the lowered params) x{nflag} {tag}",
                        p.minmax(direct_flag_b if started else flag_b), nflag, f, "flag_started calls")
                exactly(rep, "R21.1", f"{who}: direct params_dealloc_lists x0 {tag}", p.minmax(lists_b), 0, f,
                        "direct params_dealloc_lists calls")
                exactly(rep, "R21.1", f"{who}: params_dealloc_lists_and_own (guest releases owned params) x{nown} {tag}",
                        p.minmax(own_b), nown, f, "params_dealloc_lists_and_own calls")
                exactly(rep, "R21.1", f"{who}: results_lift x{nlift} {tag}", p.minmax(lift_b), nlift, f, "results_lift calls")
                exactly(rep, "R21.1", f"{who}: in-progress state (buffer + subtask handle) destroyed x{ndrop} {tag}",
                        p.minmax(drop_b), ndrop, f, "drops of InProgress")
                rep.ob("R21.1", f"{who}: nothing is released or lifted after the state (buffer) is destroyed {tag}",
                       not p.after(drop_b, flag_b + own_b + lift_b + lists_b),
                       "a release / lift call is reachable after the drop of the in-progress state", f.loc())
                # shape of the value returned
                sites = ret_sites(f, p.blocks())
                good = bool(sites)
                det = "no assignment of the return value found"
                for b, s in sites:
                    k = classify_ret(f, s)
                    if k[:len(shape)] != shape:
                        good, det = False, f"returns {k[:2]} instead of {shape}"
                    elif shape == ERR and not _is_arg(k[1], state_arg):
                        good, det = False, "Err(..) does not carry the in-progress state that was passed in"
                    elif shape == OKOK and not _is_call(k[2], LIFT, ()):
                        good, det = False, "Ok(Ok(..)) is not the value produced by results_lift"
                want = {ERR: "Err(state): still in progress", OKOK: "Ok(Ok(lifted results))", OKERR: "Ok(Err(())): cancelled"}[shape]
                rep.ob("R21.1", f"{who}: returns {want} {tag}", good, det, f.loc(sites[0][0]) if sites else f.loc())
        # unknown status values never return
        known = set(SPEC.values())
        for v in (5, 15, 0xffffffff):
            assert v not in known
            p = Paths(f, status_resolver(f, code_arg, v, state_arg, None, flag_b))
            rep.ob("R21.1", f"in_progress_update[unknown status {v:#x}]: traps {tag}", not p.returns,
                   "an unknown status code is processed as if it were a known one", f.loc())
        # value flow into the release / lift calls
        for k in f.calls(OWN):
            rep.ob("R21.1", f"in_progress_update: params_dealloc_lists_and_own receives state.params_lower {tag}",
                   _is_arg(f.origin(k.args[1]), state_arg, (".params_lower",)), "", f.loc(k.bb))
        for k in f.calls(LIFT):
            o = f.origin(k.args[1])
            ok = _is_call(o, "InProgress::ptr_results", ()) and _is_arg(f.origin(o["call"].args[0]), state_arg)
            rep.ob("R21.1", f"in_progress_update: results_lift reads at state.ptr_results() {tag}", ok, "", f.loc(k.bb))
        for k in f.calls(FLAG) + helper_calls:
            rep.ob("R21.1", f"in_progress_update: flag_started is applied to the state passed in {tag}",
                   _is_arg(f.origin(k.args[0]), state_arg), "", f.loc(k.bb))
    rep.guard("R21.1", f"in_progress_update {tag}", r1)

    # ------------------------------------------------------------------ R21.2 flag_started
    def r2():
        f = flg
        rep.saw(f)
        stores = f.field_stores("started")
        store_b = [b for b, _, _ in stores]
        lists_b = f.call_blocks(LISTS)
        rep.floor("R21.2", f"stores to `started` in flag_started {tag}", len(stores), 1)
        rep.floor("R21.2", f"params_dealloc_lists sites in flag_started {tag}", len(lists_b), 1)
        tests = [b for b, _ in f.switches() if _is_arg(_strip_not(f.switch_origin(b))[0], 1, (".started",))]
        rep.floor("R21.2", f"tests of `started` in flag_started {tag}", len(tests), 1)
        p_true = Paths(f, status_resolver(f, -1, None, 1, True, store_b))
        rep.ob("R21.2", f"flag_started: started=true never returns (assert !started) {tag}", not p_true.returns,
               "the lists could be freed a second time", f.loc())
        p = Paths(f, status_resolver(f, -1, None, 1, False, store_b))
        exactly(rep, "R21.2", f"flag_started[started=false]: params_dealloc_lists x1 {tag}", p.minmax(lists_b), 1, f,
                "params_dealloc_lists calls")
        mm = p.minmax(store_b)
        rep.ob("R21.2", f"flag_started[started=false]: `started` is written on every returning path {tag}",
               mm is not None and mm[0] >= 1, f"{mm}", f.loc())
        rep.ob("R21.2", f"flag_started: every store to `started` stores true {tag}",
               bool(stores) and all(f.stores_const(s, 1) for _, _, s in stores), "", f.loc())
        for b in lists_b:
            rep.ob("R21.2", f"flag_started: params_dealloc_lists is not called in a loop {tag}", not f.in_cycle(b), "", f.loc(b))
        for k in f.calls(LISTS):
            rep.ob("R21.2", f"flag_started: params_dealloc_lists receives self.params_lower {tag}",
                   _is_arg(f.origin(k.args[1]), 1, (".params_lower",)), "", f.loc(k.bb))
        for k in f.calls([OWN, LIFT, IMPORT, SHIM_DROP, SHIM_CANCEL]):
            rep.ob("R21.2", f"flag_started: no other release ({mir.norm(k.callee).split('::')[-1]}) {tag}", False, "", f.loc(k.bb))
    rep.guard("R21.2", f"flag_started {tag}", r2)

    # ------------------------------------------------------------------ who may call / write / construct (crate-wide)
    def who():
        allowed_calls = {
            LISTS: ("R21.2", {"InProgress::flag_started"}, 1),
            OWN: ("R21.1", {"SubtaskOps::in_progress_update"}, 1),
            LIFT: ("R21.1", {"SubtaskOps::in_progress_update"}, 1),
            FLAG: ("R21.1", {"SubtaskOps::in_progress_update"}, 3),
            IMPORT: ("R21.3", {"SubtaskOps::start"}, 1),
            SHIM_DROP: ("R21.4", {"SubtaskHandle::drop"}, 1),
            SHIM_CANCEL: ("R21.4", {"SubtaskOps::in_progress_cancel"}, 1),
        }
        counts = {k: 0 for k in allowed_calls}
        for h in guarded_flag_helpers(c, flg):      # `if !self.started { self.flag_started(..) }` helpers of in_progress_update
            if sole_private_helper_of(c, h, [upd]):
                allowed_calls[FLAG][1].add(fn_short(h))
                counts[FLAG] += len(upd.calls(h.npath)) - 1
        unpackers = set()
        for k in sta.calls():
            h = crate_callee(c, k)
            if h is not None and in_file(h, SUBTASK_RS) and h.d.get("trait") is None and sole_private_helper_of(c, h, [sta]):
                unpackers.add(h.path)
                unpackers |= {x.path for x in c.closures_of(h)}
        n_started = n_inprog = n_handle = 0
        sta_closures = {g.path for g in c.closures_of(sta)}
        for f in c.fns.values():
            me = fn_short(f)
            for pat, (rule, allowed, _) in allowed_calls.items():
                for k in f.calls(pat):
                    counts[pat] += 1
                    rep.ob(rule, f"only {'/'.join(sorted(allowed))} calls {pat}: site in {me} {tag}", me in allowed,
                           f"{pat} is called from {f.npath}", f.loc(k.bb))
            for b, _, s in f.field_stores("started"):
                base = f.locals[s["p"]["l"]]
                if "subtask::InProgress" in base or in_file(f, SUBTASK_RS):
                    n_started += 1
                    rep.ob("R21.2", f"only InProgress::flag_started writes `started`: store in {me} {tag}",
                           me == "InProgress::flag_started", f"`started` written in {f.npath}", f.loc(b))
            for b, _, rv, _ in f.aggregates():
                if rv["adt"].endswith("subtask::InProgress"):
                    n_inprog += 1
                    rep.ob("R21.3", f"InProgress is only constructed by SubtaskOps::start: site in {me} {tag}",
                           f is sta, f"constructed in {f.npath}", f.loc(b))
                    vals = dict(zip(rv["fields"], rv["ops"]))
                    o = f.origin(vals["started"]) if "started" in vals else {}
                    rep.ob("R21.3", f"InProgress is constructed with started = false: site in {me} {tag}",
                           o.get("kind") == "const" and o.get("v") == 0, f"{o}", f.loc(b))
                if rv["adt"].endswith("subtask::SubtaskHandle"):
                    n_handle += 1
                    rep.ob("R21.4", f"SubtaskHandle is only constructed inside SubtaskOps::start: site in {me} {tag}",
                           f is sta or f.path in sta_closures or f.path in unpackers, f"constructed in {f.npath}", f.loc(b))
        for pat, (rule, allowed, minimum) in allowed_calls.items():
            rep.floor(rule, f"call sites of {pat} in the crate {tag}", counts[pat], minimum)
        rep.floor("R21.2", f"stores to InProgress.started in the crate {tag}", n_started, 1)
        rep.floor("R21.3", f"construction sites of InProgress {tag}", n_inprog, 1)
        rep.floor("R21.4", f"construction sites of SubtaskHandle {tag}", n_handle, 1)
        rep.ob("R21.4", f"SubtaskHandle has exactly one construction site {tag}", n_handle == 1, f"{n_handle} sites", sta.loc())
    rep.guard("R21.1", f"who-may-call {tag}", who)

    # ------------------------------------------------------------------ R21.3 start
    def r3():
        f = sta
        rep.saw(f)
        state_arg = arg_of_type(f, lambda t: "subtask::Start<" in t)
        p = Paths(f)
        imp = f.one_call(IMPORT)
        new = f.one_call("Cleanup::new")
        low = f.one_call("Subtask::params_lower")
        for k, nm in ((imp, "call_import"), (new, "Cleanup::new"), (low, "params_lower")):
            exactly(rep, "R21.3", f"start: {nm} x1 on every path {tag}", p.minmax([k.bb]), 1, f, nm)
        rep.ob("R21.3", f"start: the buffer is allocated with abi_layout() {tag}",
               _is_call(f.origin(new.args[0]), "Subtask::abi_layout", ()), "", f.loc(new.bb))
        rep.ob("R21.3", f"start: params are lowered from state.params into the buffer {tag}",
               _is_arg(f.origin(low.args[1]), state_arg, (".params",)) and
               f.origin(low.args[2]).get("kind") == "call" and f.origin(low.args[2])["call"].bb == new.bb and
               _fields(f.origin(low.args[2]).get("proj")) == [".0"], "", f.loc(low.bb))
        o1 = f.origin(imp.args[1])
        rep.ob("R21.3", f"start: call_import receives the lowered params {tag}",
               o1.get("kind") == "call" and o1["call"].bb == low.bb and not _fields(o1.get("proj")), "", f.loc(imp.bb))
        o2 = f.origin(imp.args[2])
        ok = o2.get("kind") == "call" and o2["call"].matches(PTR_ADD)
        if ok:
            a0, a1 = f.origin(o2["call"].args[0]), f.origin(o2["call"].args[1])
            ok = a0.get("kind") == "call" and a0["call"].bb == new.bb and _fields(a0.get("proj")) == [".0"] and \
                _is_call(a1, "Subtask::results_offset", ())
        rep.ob("R21.3", f"start: call_import's results pointer is buffer + results_offset() {tag}", ok, "", f.loc(imp.bb))

        # the returned (code, InProgress { .. })
        sites = [(b, s) for b, s in ret_sites(f, p.blocks())]
        rep.floor("R21.3", f"return-value sites of start {tag}", len(sites), 1)
        for b, s in sites:
            rv = s["rv"]
            if rv.get("k") != "agg" or not rv.get("tuple") or len(rv["ops"]) != 2:
                rep.ob("R21.3", f"start: returns a (code, InProgress) pair built in place {tag}", False, f"{rv.get('k')}", f.loc(b))
                continue
            code = f.origin(rv["ops"][0])
            is_imp = lambda x: x.get("kind") == "call" and x["call"].bb == imp.bb and not _fields(x.get("proj"))
            is_a1 = lambda x: _is_arg(x, 1)
            hp = unpack_helper(c, f, code, imp)
            if hp is not None:          # decoded by a helper applied to the packed value: evaluate the helper's result
                ok, det = helper_component(c, hp[0], hp[2], lambda g, o: (code_from_packed(g, o, is_a1), "status is not `packed & 0xf`"))
            else:
                ok, det = code_from_packed(f, code, is_imp), f"{code.get('kind')} {code.get('op')}"
            rep.ob("R21.3", f"start: status = packed & 0xf {tag}", ok, det, f.loc(b))
            st = _agg_of(f, f.origin(rv["ops"][1]))
            if st is None or not st[0].endswith("subtask::InProgress"):
                rep.ob("R21.3", f"start: second component is an InProgress built in start {tag}", False, "", f.loc(b))
                continue
            agg = f.origin(rv["ops"][1])["rv"]
            vals = {n: f.origin(o) for n, o in zip(agg["fields"], agg["ops"])}
            o = vals.get("params_and_results", {})
            rep.ob("R21.3", f"start: the Cleanup of the buffer is moved into InProgress.params_and_results {tag}",
                   o.get("kind") == "call" and o["call"].bb == new.bb and _fields(o.get("proj")) == [".1"], f"{o.get('kind')}", f.loc(b))
            o = vals.get("params_lower", {})
            rep.ob("R21.3", f"start: InProgress.params_lower is the value passed to the import {tag}",
                   o.get("kind") == "call" and o["call"].bb == low.bb and not _fields(o.get("proj")), f"{o.get('kind')}", f.loc(b))
            o = vals.get("subtask", {})
            hp = unpack_helper(c, f, o, imp)
            if hp is not None:
                ok, det = helper_component(c, hp[0], hp[2], lambda g, x: handle_from_packed(c, g, x, is_a1))
                if ok and not sole_private_helper_of(c, hp[0], [f]):
                    ok, det = False, f"{fn_short(hp[0])} is also called from elsewhere"
            else:
                ok, det = handle_from_packed(c, f, o, is_imp)
            rep.ob("R21.3", f"start: InProgress.subtask = NonZero(packed >> 4) wrapped in SubtaskHandle {tag}", ok, det, f.loc(b))
        rep.ob("R21.3", f"start: the buffer is not dropped or forgotten inside start {tag}",
               not state_drops(f, r"rt::Cleanup\b") and not f.calls(LEAKERS), "", f.loc())
        # the buffer is released by Drop for Cleanup: one dealloc of (self.ptr, self.layout) on every path
        cd = c.method("Cleanup", "drop", trait="Drop")
        rep.saw(cd)
        de = cd.calls("alloc::dealloc")
        rep.floor("R21.3", f"dealloc sites in Drop for Cleanup {tag}", len(de), 1)
        rep.ob("R21.3", f"Drop for Cleanup: deallocates once on every path {tag}",
               len(de) == 1 and cd.all_paths_pass(0, cd.returns(), [k.bb for k in de]) and not any(cd.in_cycle(k.bb) for k in de),
               f"{len(de)} dealloc sites", cd.loc())
        for k in de:
            a0 = cd.origin(k.args[0])
            ok = _is_call(a0, "NonNull::as_ptr", ()) and _is_arg(cd.origin(a0["call"].args[0]), 1, (".ptr",)) and \
                _is_arg(cd.origin(k.args[1]), 1, (".layout",))
            rep.ob("R21.3", f"Drop for Cleanup: deallocates (self.ptr, self.layout) {tag}", ok, "", cd.loc(k.bb))
        # ptr_results: the same offset is used to read the results
        g = c.method("InProgress", "ptr_results")
        rep.saw(g)
        o = g.place_origin({"l": 0})
        ok = o.get("kind") == "call" and o["call"].matches(PTR_ADD) and \
            _is_call(g.origin(o["call"].args[1]), "Subtask::results_offset", ())
        thr = ["Option::unwrap_or", "Option::map", "Option::as_ref", "Option::unwrap", "Option::expect", "NonNull::as_ptr"]
        fields = None
        if ok:
            base = g.origin(o["call"].args[0])
            ds = def_origins(g, base)
            if len(ds) == 1:
                fields = chain_to_arg(g, ds[0], 1, thr)
            else:
                # `match &self.params_and_results { Some(c) => c.ptr.as_ptr(), None => null_mut() }` into a local
                real = [(d, chain_to_arg(g, d, 1, thr)) for d in ds if not _is_call(d, "ptr::null_mut")]
                nulls = [d for d in ds if _is_call(d, "ptr::null_mut")]
                under_none = set()
                for sb, m, so in discr_switches(g, ty_sub="Option<"):
                    if _is_arg(so.get("of", {}), 1, (".params_and_results",)) and variant_target(m, "None") is not None \
                            and variant_target(m, "None") != variant_target(m, "Some"):
                        under_none |= g.edge_region(sb, variant_target(m, "None"))
                if len(real) == 1 and real[0][1] is not None and all(d["bb"] in under_none for d in nulls):
                    fields = real[0][1]
        rep.ob("R21.3", f"ptr_results: self.params_and_results pointer + results_offset() {tag}",
               ok and fields is not None and ".params_and_results" in fields, f"{fields}", g.loc())
    rep.guard("R21.3", f"start {tag}", r3)

    # ------------------------------------------------------------------ R21.4 SubtaskHandle
    def r4():
        d = c.method("SubtaskHandle", "drop", trait="Drop")
        rep.saw(d)
        ks = d.calls(SHIM_DROP)
        rep.floor("R21.4", f"[subtask-drop] sites in Drop for SubtaskHandle {tag}", len(ks), 1)
        exactly(rep, "R21.4", f"Drop for SubtaskHandle: [subtask-drop] x1 on every path {tag}",
                Paths(d).minmax([k.bb for k in ks]), 1, d, "[subtask-drop] calls")
        for k in ks:
            o = d.origin(k.args[0])
            rep.ob("R21.4", f"Drop for SubtaskHandle: drops self.handle {tag}",
                   _is_call(o, "NonZero::get", ()) and _is_arg(d.origin(o["call"].args[0]), 1, (".handle",)), "", d.loc(k.bb))
            rep.ob("R21.4", f"Drop for SubtaskHandle: [subtask-drop] not in a loop {tag}", not d.in_cycle(k.bb), "", d.loc(k.bb))
        adt = c.adt("subtask::SubtaskHandle")
        rep.ob("R21.4", f"SubtaskHandle has a destructor and a single NonZero<u32> field {tag}",
               adt["has_dtor"] and [v["fields"] for v in adt["variants"]] == [[["handle", "core::num::NonZero<u32>"]]],
               f"{adt}", d.loc())
        rep.floor("R21.4", f"impl table: Drop for SubtaskHandle {tag}", len(c.impls_of("Drop", r"subtask::SubtaskHandle\b")), 1)
        for ty in ("subtask::SubtaskHandle", "subtask::InProgress", "rt::Cleanup"):
            for tr in ("Clone", "Copy"):
                im = [i for i in c.impls_of(tr, re.escape(ty) + r"\b") if not i.get("neg")]
                rep.ob("R21.4", f"{ty.split('::')[-1]} is not {tr} {tag}", not im,
                       "a copy would release the same handle / buffer twice", f"{im[0]['sp']['f']}:{im[0]['sp']['l']}" if im else "")
        inp = c.adt("subtask::InProgress")
        ft = dict(inp["variants"][0]["fields"])
        rep.ob("R21.4", f"InProgress owns the handle and the buffer by value {tag}",
               ft.get("subtask", "").replace(" ", "") == "core::option::Option<rt::async_support::subtask::SubtaskHandle>" and
               ft.get("params_and_results", "").replace(" ", "") == "core::option::Option<rt::Cleanup>" and not inp["has_dtor"],
               f"{ft}", "")
        # nothing forgets a handle / state / buffer
        owned = re.compile(r"subtask::(SubtaskHandle|InProgress|Start)\b")
        nscan = nleak = 0
        for f in c.fns.values():
            for k in f.calls(LEAKERS):
                nscan += 1
                sub = in_file(f, SUBTASK_RS)
                drv = in_file(f, WAITABLE_RS) and any(("InProgress" in t or "WaitableOperationState" in t or "::Start" in t)
                                                      for t in k.arg_types)
                if any(owned.search(t) for t in k.arg_types) or sub or drv:
                    nleak += 1
                    rep.ob("R21.4", f"no {mir.norm(k.callee).split('::')[-1]} of a subtask handle / state / buffer: site in {fn_short(f)} {tag}",
                           False, f"{k.callee}({', '.join(k.arg_types)})", f.loc(k.bb))
        rep.floor("R21.4", f"forget / ManuallyDrop / leak sites scanned in the crate {tag}", nscan, 5)
        ndup = 0
        for f in c.fns.values():
            for k in f.calls(DUPLICATORS):
                if any(owned.search(t) or re.search(r"rt::Cleanup\b", t) for t in k.arg_types + [k.ga]):
                    ndup += 1
                    rep.ob("R21.4", f"no bitwise copy ({mir.norm(k.callee).split('::')[-1]}) of a subtask handle / state / buffer: site in {fn_short(f)} {tag}",
                           False, f"{k.callee}({', '.join(k.arg_types)})", f.loc(k.bb))
        rep.ob("R21.4", f"no bitwise copy (ptr::read / transmute_copy / ptr::copy) of SubtaskHandle, InProgress, Start, Cleanup {tag}",
               ndup == 0, f"{ndup} sites", "")
        rep.ob("R21.4", f"no forget / ManuallyDrop / leak of SubtaskHandle, InProgress, Start or in subtask.rs {tag}",
               nleak == 0, f"{nleak} sites", "")

        # cancel
        k_ = c.method("SubtaskOps", "in_progress_cancel", trait=WOP)
        rep.saw(k_)
        ks = k_.calls(SHIM_CANCEL)
        rep.floor("R21.4", f"[subtask-cancel] sites in in_progress_cancel {tag}", len(ks), 1)
        exactly(rep, "R21.4", f"in_progress_cancel: [subtask-cancel] x1 on every path {tag}",
                Paths(k_).minmax([k.bb for k in ks]), 1, k_, "[subtask-cancel] calls")
        for k in ks:
            o = k_.origin(k.args[0])
            rep.ob("R21.4", f"in_progress_cancel: cancels in_progress_waitable(state) {tag}",
                   _is_call(o, ["WaitableOp>::in_progress_waitable", "WaitableOp::in_progress_waitable"], ()) and
                   _is_arg(k_.origin(o["call"].args[1]), 2), "", k_.loc(k.bb))
            r = k_.place_origin({"l": 0})
            rep.ob("R21.4", f"in_progress_cancel: returns the status reported by [subtask-cancel] {tag}",
                   r.get("kind") == "call" and r["call"].bb == k.bb and not _fields(r.get("proj")), "", k_.loc(k.bb))
        w = c.method("SubtaskOps", "in_progress_waitable", trait=WOP)
        rep.saw(w)
        r = w.place_origin({"l": 0})
        fields = None
        if _is_call(r, "NonZero::get", ()):
            fields = chain_to_arg(w, w.origin(r["call"].args[0]), 2, ["Option::unwrap", "Option::as_ref", "Option::expect",
                                                                      "Option::as_mut"])
        rep.ob("R21.4", f"in_progress_waitable: returns state.subtask's handle {tag}",
               fields is not None and ".subtask" in fields and ".handle" in fields, f"{fields}", w.loc())
        rep.ob("R21.4", f"in_progress_waitable / in_progress_cancel do not drop or release anything {tag}",
               not (w.calls([SHIM_DROP, LISTS, OWN, LIFT, FLAG]) + k_.calls([SHIM_DROP, LISTS, OWN, LIFT, FLAG])) and
               not state_drops(w, r"subtask::") and not state_drops(k_, r"subtask::"), "", w.loc())
    rep.guard("R21.4", f"handle {tag}", r4)

    # ------------------------------------------------------------------ R21.5 only a call in progress is cancelled
    def r5():
        f = c.method("WaitableOperation", "cancel")
        rep.saw(f)
        canc = f.call_blocks("WaitableOp::in_progress_cancel")
        stc = f.call_blocks("WaitableOp::start_cancelled")
        rep.floor("R21.5", f"in_progress_cancel sites in WaitableOperation::cancel {tag}", len(canc), 1)
        rep.floor("R21.5", f"start_cancelled sites in WaitableOperation::cancel {tag}", len(stc), 1)
        sws = discr_switches(f, ty_sub="WaitableOperationState")
        rep.floor("R21.5", f"state tests in WaitableOperation::cancel {tag}", len(sws), 1)
        for b in canc:
            ok = any(variant_target(m, "InProgress") is not None and variant_target(m, "InProgress") != variant_target(m, "Start")
                     and variant_target(m, "InProgress") != variant_target(m, "Done")
                     and b in f.edge_region(sb, variant_target(m, "InProgress")) for sb, m, _ in sws)
            rep.ob("R21.5", f"cancel: in_progress_cancel only under state = InProgress {tag}", ok,
                   "the cancel built-in is reachable without the InProgress edge of a state test", f.loc(b))
            rep.ob("R21.5", f"cancel: in_progress_cancel is not called in a loop {tag}", not f.in_cycle(b), "", f.loc(b))
        for sb, m, _ in sws:
            for var in ("Start", "Done"):
                t = variant_target(m, var)
                if t is None or t == variant_target(m, "InProgress"):
                    continue
                rep.ob("R21.5", f"cancel: state = {var} never reaches in_progress_cancel {tag}",
                       not (f.reachable(t) & set(canc)), f"the {var} edge of a state test reaches the cancel built-in", f.loc(sb))
        for b in stc:
            rep.ob("R21.5", f"cancel: start_cancelled only under state = Start {tag}",
                   any(variant_target(m, "Start") is not None and b in f.edge_region(sb, variant_target(m, "Start"))
                       for sb, m, _ in sws), "", f.loc(b))
            rep.ob("R21.5", f"cancel: after start_cancelled nothing is cancelled or started {tag}",
                   not (f.reachable(b) & set(canc)) and not calls_in(f, f.reachable(b) - {b}, ["WaitableOp::start", "WaitableOp::in_progress_update"]),
                   "", f.loc(b))
        rep.ob("R21.5", f"cancel: never starts the operation {tag}", not f.calls("WaitableOp::start"), "", f.loc())
        for b in canc:
            rep.ob("R21.5", f"cancel: in_progress_cancel at most once on a path {tag}",
                   not f.in_cycle(b) and all(b2 == b or b2 not in f.reachable(b) for b2 in canc),
                   "the cancel built-in can be invoked a second time", f.loc(b))
        # a status delivered before the cancellation is processed first; if it completed the call, nothing is cancelled
        pcs = f.calls("WaitableOperation::poll_complete_with_code")
        took = 0
        for sb, m, so in discr_switches(f, ty_sub="Option<u32>"):
            of = so.get("of", {})
            if not (of.get("kind") == "call" and of["call"].matches("Option::take")):
                continue
            took += 1
            some_t = variant_target(m, "Some")
            first = []
            for q in pcs:
                a = _agg_of(f, f.origin(q.args[2]))
                if a and a[1] == "Some" and a[2][0].get("kind") == "call" and a[2][0]["call"].bb == of["call"].bb and \
                        _fields(a[2][0].get("proj")) == ["as Some", ".0"]:
                    first.append(q)
            rep.ob("R21.5", f"cancel: a delivered status is processed before in_progress_cancel {tag}",
                   some_t is not None and bool(first) and f.all_paths_pass(some_t, canc, [q.bb for q in first]),
                   "the cancel built-in is reachable from the Some(code) arm without poll_complete_with_code(Some(code))", f.loc(sb))
            for q in first:
                found = False
                for pb, pm, po in discr_switches(f, ty_sub="Poll<"):
                    pof = po.get("of", {})
                    if pof.get("kind") == "call" and pof["call"].bb == q.bb:
                        found = True
                        rt_ = variant_target(pm, "Ready")
                        rep.ob("R21.5", f"cancel: a call completed by the delivered status is not cancelled {tag}",
                               rt_ is not None and not (f.reachable(rt_) & set(canc)),
                               "the Ready arm of the delivered status reaches the cancel built-in", f.loc(pb))
                rep.ob("R21.5", f"cancel: the outcome of the delivered status is inspected {tag}", found, "", f.loc(q.bb))
        rep.floor("R21.5", f"delivered-status tests in WaitableOperation::cancel {tag}", took, 1)
        # Drop: a finished operation is not cancelled
        d = c.method("WaitableOperation", "drop", trait="Drop")
        rep.saw(d)
        sw = bool_switches_on_call(d, "WaitableOperation::is_done")
        rep.floor("R21.5", f"is_done test in Drop for WaitableOperation {tag}", len(sw), 1)
        for b, ft, tt in sw:
            rep.ob("R21.5", f"Drop for WaitableOperation: is_done()=true => no cancel {tag}",
                   not (d.reachable(tt) & set(d.call_blocks("WaitableOperation::cancel"))), "", d.loc(b))
        rep.ob("R21.5", f"Drop for WaitableOperation: cancel only after the is_done test {tag}",
               all(d.set_dominates({b for b, _, _ in sw}, x) for x in d.call_blocks("WaitableOperation::cancel")), "", d.loc())
        isd = c.method("WaitableOperation", "is_done")
        rep.saw(isd)
        ok = False
        for sb, m, _ in discr_switches(isd, ty_sub="WaitableOperationState"):
            dt = variant_target(m, "Done")
            others = {variant_target(m, v) for v in ("Start", "InProgress")}
            if dt is None or dt in others:
                continue
            # the Done edge yields true, the others false
            def const_on(region):
                vals = set()
                for b, s in ret_sites(isd, region):
                    vals.add(_const_bool(s["rv"]))
                return vals
            ok = const_on(isd.edge_region(sb, dt)) == {1} and all(const_on(isd.edge_region(sb, t)) == {0} for t in others)
        rep.ob("R21.5", f"is_done: true exactly for the Done state {tag}", ok, "", isd.loc())
        # SubtaskOps::start_cancelled gives the parameters back to Rust (dropped once), touches nothing else
        s = c.method("SubtaskOps", "start_cancelled", trait=WOP)
        rep.saw(s)
        exactly(rep, "R21.5", f"start_cancelled: the never-lowered params (Start) are dropped x1 {tag}",
                Paths(s).minmax(state_drops(s, r"subtask::Start<")), 1, s, "drops of Start<T>")
        rep.ob("R21.5", f"start_cancelled: calls no Subtask operation or built-in {tag}",
               not s.calls([re.compile(r"subtask::Subtask::"), SHIM_DROP, SHIM_CANCEL, FLAG]), "", s.loc())
        a = [classify_ret_simple(s, st) for _, st in ret_sites(s, s.live)]
        rep.ob("R21.5", f"start_cancelled: reports Err(()) (no results) {tag}", bool(a) and all(x == "Err" for x in a), f"{a}", s.loc())
    rep.guard("R21.5", f"cancel-only-in-progress {tag}", r5)

    # ------------------------------------------------------------------ R21.6 status codes reach in_progress_update
    def r6():
        f = c.method("WaitableOperation", "cancel")
        pcs = f.calls("WaitableOperation::poll_complete_with_code")
        for k in f.calls("WaitableOp::in_progress_cancel"):
            fed = []
            for q in pcs:
                a = _agg_of(f, f.origin(q.args[2]))
                if a and a[1] == "Some" and a[2][0].get("kind") == "call" and a[2][0]["call"].bb == k.bb and \
                        not _fields(a[2][0].get("proj")):
                    fed.append(q.bb)
            rep.ob("R21.6", f"cancel: the status returned by in_progress_cancel is processed on every path {tag}",
                   bool(fed) and f.all_paths_pass(k.bb, f.returns(), fed),
                   "a path returns without poll_complete_with_code(Some(code of the cancel built-in))", f.loc(k.bb))
        g = c.method("WaitableOperation", "poll_complete_with_code")
        rep.saw(g)
        ups = g.calls("WaitableOp::in_progress_update")
        rep.floor("R21.6", f"in_progress_update sites in poll_complete_with_code {tag}", len(ups), 1)
        code_arg = arg_of_type(g, lambda t: t.replace(" ", "") == "core::option::Option<u32>")
        rep.ob("R21.6", f"poll_complete_with_code: in_progress_update at most once per delivered status {tag}",
               all(not g.in_cycle(k.bb) and not ((g.reachable(k.bb) - {k.bb}) & {q.bb for q in ups}) for k in ups), "", g.loc())
        for k in ups:
            rep.ob("R21.6", f"poll_complete_with_code: in_progress_update receives the delivered code {tag}",
                   _is_arg(g.origin(k.args[2]), code_arg, ("as Some", ".0")), "", g.loc(k.bb))
            o = g.origin(k.args[1])
            took = _is_call(o, "mem::replace", ("as InProgress", ".0"))
            done = took and (_agg_of(g, g.origin(o["call"].args[1])) or (None, None))[1] == "Done"
            rep.ob("R21.6", f"poll_complete_with_code: the in-progress state is taken out, leaving Done {tag}", bool(done), "", g.loc(k.bb))
            # arms of the result
            for sb, m, so in discr_switches(g, ty_sub="Result<"):
                of = so.get("of", {})
                if not (of.get("kind") == "call" and of["call"].bb == k.bb):
                    continue
                okr, err = g.edge_region(sb, variant_target(m, "Ok")), g.edge_region(sb, variant_target(m, "Err"))
                back = [(b, rv) for b, _, rv, _ in g.aggregates("WaitableOperationState", "InProgress")]
                good = [b for b, rv in back if b in err and (lambda x: x.get("kind") == "call" and x["call"].bb == k.bb and
                                                             _fields(x.get("proj")) == ["as Err", ".0"])(g.origin(rv["ops"][0]))]
                rep.ob("R21.6", f"poll_complete_with_code: Err(state) is stored back as InProgress {tag}", bool(good), "", g.loc(sb))
                rep.ob("R21.6", f"poll_complete_with_code: after Ok(result) the operation stays Done (never cancelled again) {tag}",
                       not [b for b, _ in back if b in okr] and not calls_in(g, okr, "WaitableOperation::register_waker"), "", g.loc(sb))
                break
            else:
                rep.ob("R21.6", f"poll_complete_with_code: result of in_progress_update is matched {tag}", False, "", g.loc(k.bb))
        h = c.method("WaitableOperation", "poll_complete")
        rep.saw(h)
        for k in h.calls("WaitableOp::start"):
            after = h.reachable(k.bb)
            some = [b for b, _, rv, _ in h.aggregates("Option", "Some") if b in after and
                    (lambda x: x.get("kind") == "call" and x["call"].bb == k.bb and _fields(x.get("proj")) == [".0"])(h.origin(rv["ops"][0]))]
            keep = [b for b, _, rv, _ in h.aggregates("WaitableOperationState", "InProgress") if b in after and
                    (lambda x: x.get("kind") == "call" and x["call"].bb == k.bb and _fields(x.get("proj")) == [".1"])(h.origin(rv["ops"][0]))]
            rep.ob("R21.6", f"poll_complete: the status and state returned by start are kept {tag}", bool(some) and bool(keep), "", h.loc(k.bb))
            rep.ob("R21.6", f"poll_complete: the status returned by start is processed on every path {tag}",
                   bool(some) and h.all_paths_pass(k.bb, h.returns(), [b for b in h.call_blocks("WaitableOperation::poll_complete_with_code")
                                                                        if b in h.reachable(some[0])]), "", h.loc(k.bb))
    rep.guard("R21.6", f"codes-forwarded {tag}", r6)


def guarded_flag_helpers(c, flg):
    """Inherent methods of InProgress that are exactly `if !self.started { self.flag_started(..) }`: with
    started=true they return without any effect, with started=false every returning path calls flag_started on
    self exactly once; they make no other release call and never write `started` themselves."""
    out = []
    for g in c.fns.values():
        if g is flg or g.d.get("trait") is not None or mir.base_type(g.d.get("self_ty") or "") != "InProgress":
            continue
        if not in_file(g, SUBTASK_RS) or "{closure" in g.path:
            continue
        ks = g.calls(FLAG)
        if not ks or g.field_stores("started") or c.closures_of(g):
            continue
        if any(not (k.matches(FLAG) or k.matches(re.compile(r"^(core::(fmt|panicking)::|std::io::_e?print)"))) for k in g.calls()):
            continue
        if not all(_is_arg(g.origin(k.args[0]), 1) and not g.in_cycle(k.bb) for k in ks):
            continue
        fb = [k.bb for k in ks]
        pt = Paths(g, status_resolver(g, -1, None, 1, True, fb))
        pf = Paths(g, status_resolver(g, -1, None, 1, False, fb))
        if pt.returns and pt.minmax(fb) == (0, 0) and pf.returns and pf.minmax(fb) == (1, 1):
            out.append(g)
    return out


def classify_ret_simple(f, stmt):
    a = _agg_of(f, f.stored(stmt))
    return a[1] if a else "?"


def def_origins(f, o):
    """The origins of every definition of a multi-definition local (origin kind 'place'); [o] otherwise."""
    if o.get("kind") != "place" or "local" not in o or _fields(o.get("proj")):
        return [o]
    out = []
    for b, i, kind, payload in f.defs.get(o["local"], []):
        if kind == "call":
            out.append({"kind": "call", "call": mir.Call(b, payload), "proj": [], "bb": b})
        elif kind == "assign":
            if payload.get("k") == "agg":
                out.append({"kind": "agg", "rv": payload, "bb": b})
            elif payload.get("k") == "use":
                x = dict(f.origin(payload["o"]))
                x["bb"] = b
                out.append(x)
            else:
                out.append({"kind": "unknown", "bb": b})
        else:
            out.append({"kind": "unknown", "bb": b})
    return out


def _shr4(f, nz, is_packed):
    if not _is_call(nz, "NonZero::new"):
        return False
    sh = f.origin(nz["call"].args[0])
    return sh.get("kind") == "bin" and sh["op"] == "Shr" and is_packed(sh["a"]) and \
        sh["b"].get("kind") == "const" and sh["b"].get("v") == 4


def code_from_packed(f, o, is_packed):
    return o.get("kind") == "bin" and o["op"] == "BitAnd" and any(
        is_packed(x) and y.get("kind") == "const" and y.get("v") == 0xf for x, y in ((o["a"], o["b"]), (o["b"], o["a"])))


def handle_from_packed(c, f, o, is_packed):
    """o: origin of the Option<SubtaskHandle>.  Accepts `NonZero::new(packed >> 4).map(|h| SubtaskHandle { handle: h })`
    and the equivalent `match NonZero::new(packed >> 4) { Some(h) => Some(SubtaskHandle { handle: h }), None => None }`."""
    if o.get("kind") == "place":
        ds = def_origins(f, o)
        some = [d for d in ds if (_agg_of(f, d) or (None, None))[1] == "Some"]
        none = [d for d in ds if (_agg_of(f, d) or (None, None))[1] == "None"]
        if len(ds) != 2 or len(some) != 1 or len(none) != 1:
            return False, f"not Option::map and not a Some/None match ({len(ds)} definitions)"
        h = _agg_of(f, _agg_of(f, some[0])[2][0])
        if h is None or not h[0].endswith("subtask::SubtaskHandle"):
            return False, "the Some arm does not wrap a SubtaskHandle"
        nz = h[2][0]
        if not (_is_call(nz, "NonZero::new", ("as Some", ".0")) and _shr4(f, nz, is_packed)):
            return False, "the handle is not the payload of NonZero::new(packed >> 4)"
        for sb, m, so in discr_switches(f, ty_sub="Option<"):
            of = so.get("of", {})
            if of.get("kind") == "call" and of["call"].bb == nz["call"].bb and not _fields(of.get("proj")):
                st, nt = variant_target(m, "Some"), variant_target(m, "None")
                if st is not None and nt is not None and st != nt and some[0]["bb"] in f.edge_region(sb, st) and \
                        none[0]["bb"] in f.edge_region(sb, nt):
                    return True, ""
        return False, "the Some / None definitions are not under the matching arms of NonZero::new(..)"
    if not _is_call(o, "Option::map", ()):
        return False, f"not produced by Option::map ({o.get('kind')})"
    k = o["call"]
    nz = f.origin(k.args[0])
    if not (_is_call(nz, "NonZero::new", ()) and _shr4(f, nz, is_packed)):
        return False, "the mapped option is not NonZero::new(packed >> 4)"
    cl = f.origin(k.args[1])
    name = cl.get("rv", {}).get("closure") if cl.get("kind") == "agg" else None
    g = c.fns.get(name) if name else None
    if g is None:
        return False, "the mapping closure was not found"
    sites = [rv for _, _, rv, _ in g.aggregates() if rv["adt"].endswith("subtask::SubtaskHandle")]
    if len(sites) != 1 or not _is_arg(g.origin(sites[0]["ops"][0]), 2):
        return False, "the closure does not wrap its argument in SubtaskHandle"
    r = g.place_origin({"l": 0})
    if not (r.get("kind") == "agg" and r["rv"].get("adt", "").endswith("subtask::SubtaskHandle")):
        return False, "the closure does not return the SubtaskHandle"
    return True, ""


def unpack_helper(c, f, o, imp):
    """If origin o (in f) is a component of the tuple returned by a same-crate helper applied to the import's
    packed result, return (helper, call, component index)."""
    if o.get("kind") != "call" or _fields(o.get("proj")) not in ([".0"], [".1"]):
        return None
    k = o["call"]
    g = crate_callee(c, k)
    if g is None or len(k.args) != 1:
        return None
    a = f.origin(k.args[0])
    if not (a.get("kind") == "call" and a["call"].bb == imp.bb and not _fields(a.get("proj"))):
        return None
    return g, k, int(_fields(o["proj"])[0][1:])


def helper_component(c, g, idx, check):
    """check(g, origin) on component idx of every tuple the helper g returns."""
    sites = ret_sites(g, g.live)
    if not sites:
        return False, "the helper's return value is not a tuple built in place"
    for b, s in sites:
        rv = s["rv"]
        if rv.get("k") != "agg" or not rv.get("tuple") or len(rv["ops"]) != 2:
            return False, "the helper's return value is not a tuple built in place"
        ok, det = check(g, g.origin(rv["ops"][idx]))
        if not ok:
            return False, f"in {fn_short(g)}: {det}"
    return True, ""


def sole_private_helper_of(c, g, callers):
    """g is only ever called (directly) from `callers` and its address is never taken."""
    cs, taken = callers_of(c, g)
    return bool(cs) and not taken and all(h in callers for h in cs)
