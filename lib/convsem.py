"""E4 convsem — conversion-template evaluator (serves C14 and C04 R4.4).

Input : the text template a backend pushes for a scalar instruction / Bitcast (extracted from the generator's
        syntax tree, operand hole replaced by `__OP__`) and the backend's target language.
Method: a small per-language expression reader feeds an ABSTRACT INTERPRETATION over a bit-provenance domain.
        A value = language type (kind, width, signedness) + one abstract bit per result bit:
            0 | 1 | ('or', S)  = OR of the input bits in S   (in[i] is ('or', {i}))
                  | ('nor', S) = its negation                (NOT in[i] is ('nor', {i}))
                  | 'T'        = unknown
        Transfer functions exist only for the primitives the backends use today (PRIMS / convert()); each carries a
        one-line justification (the language rule).  Arithmetic on a non-constant value yields T.  Anything the
        reader or the table does not know raises Unknown -> the obligation is NOT discharged (fail closed).
Verdict: discharged iff the abstract result equals the canonical-ABI mapping for ALL inputs (symbolic).
Diagnostics only: the same interpreter run on constant inputs (exact constant folding) prints a counter-example.

Assumptions (trusted base): wasm32 (pointers / size_t / usize / uintptr / nint are 32 bit, little endian); two's
complement truncating integer casts; C# compiled in the default unchecked context; operands are substituted as
atoms (every backend passes identifiers or parenthesised expressions); the tables below.
"""
import os
import re

from . import facts, synq
from .mir import AnchorMissing


class Unknown(Exception):
    """The reader / table cannot interpret something: fail closed."""


# =============================================================================================== bit domain
T = "T"


def IN(i):
    return ("or", frozenset([i]))


def bnot(b):
    if b == 0:
        return 1
    if b == 1:
        return 0
    if b == T:
        return T
    return ("nor" if b[0] == "or" else "or", b[1])


def b_anyset(bits):
    """OR-reduction (the `!= 0` test)."""
    if any(b == 1 for b in bits):
        return 1
    s = set()
    for b in bits:
        if b == 0:
            continue
        if b == T or b[0] != "or":
            return T
        s |= b[1]
    return ("or", frozenset(s)) if s else 0


def b_and(a, b):
    if a == 0 or b == 0:
        return 0
    if a == 1:
        return b
    if b == 1:
        return a
    if a == b:
        return a
    if a != T and b != T and a == bnot(b):
        return 0
    return T


def b_or(a, b):
    if a == 1 or b == 1:
        return 1
    if a == 0:
        return b
    if b == 0:
        return a
    if a == b:
        return a
    if a == T or b == T:
        return T
    if a == bnot(b):
        return 1
    if a[0] == "or" and b[0] == "or":
        return ("or", a[1] | b[1])
    return T


def b_xor(a, b):
    if a == 0:
        return b
    if b == 0:
        return a
    if a == 1:
        return bnot(b)
    if b == 1:
        return bnot(a)
    if a == T or b == T:
        return T
    if a == b:
        return 0
    if a == bnot(b):
        return 1
    return T


def b_mux(c, a, b):
    if a == b:
        return a
    if c == 1:
        return a
    if c == 0:
        return b
    if a == 1 and b == 0:
        return c
    if a == 0 and b == 1:
        return bnot(c)
    return T


def show_bit(b):
    if b in (0, 1):
        return str(b)
    if b == T:
        return "?"
    s = sorted(b[1])
    if len(s) == 1:
        body = f"in[{s[0]}]"
    elif s == list(range(s[0], s[-1] + 1)):
        body = f"(in[{s[0]}..{s[-1]}] != 0)"
    else:
        body = "(" + "|".join(f"in[{i}]" for i in s) + ")"
    return body if b[0] == "or" else "!" + body


def show_bits(bits):
    """compact run-length rendering, low bit first"""
    out = []
    i = 0
    n = len(bits)
    while i < n:
        b = bits[i]
        j = i
        if b not in (0, 1, T) and b[0] == "or" and len(b[1]) == 1:
            k0 = next(iter(b[1]))
            # identity run in[k0..] or a repeated bit
            while j + 1 < n and bits[j + 1] == IN(k0 + (j + 1 - i)):
                j += 1
            if j > i:
                out.append(f"[{i}..{j}]=in[{k0}..{k0 + j - i}]")
                i = j + 1
                continue
        while j + 1 < n and bits[j + 1] == b:
            j += 1
        out.append((f"[{i}..{j}]=" if j > i else f"[{i}]=") + show_bit(b))
        i = j + 1
    return " ".join(out)


# =============================================================================================== language types
class LT:
    def __init__(self, name, kind, width, signed=False):
        self.name, self.kind, self.width, self.signed = name, kind, width, signed

    def __repr__(self):
        return self.name


LIT = LT("<integer literal>", "lit", 64, True)


def _norm(s):
    return re.sub(r"\s+", "", s)


def _mk(entries):
    d = {}
    for names, kind, width, signed in entries:
        names = names if isinstance(names, (list, tuple)) else [names]
        t = LT(names[0], kind, width, signed)
        for n in names:
            d[_norm(n)] = t
    return d


_CINTS = [("int8_t", "int", 8, True), ("uint8_t", "int", 8, False), ("int16_t", "int", 16, True),
          ("uint16_t", "int", 16, False), ("int32_t", "int", 32, True), ("uint32_t", "int", 32, False),
          ("int64_t", "int", 64, True), ("uint64_t", "int", 64, False),
          # wasm32: size_t / uintptr_t are 32-bit unsigned (clang wasm32 data model ILP32)
          ("size_t", "int", 32, False), ("uintptr_t", "int", 32, False), ("intptr_t", "int", 32, True),
          ("float", "float", 32, False), ("double", "float", 64, False), ("bool", "bool", 1, False),
          (["uint8_t*", "void*"], "ptr", 32, False)]

# per-language type-name tables (name -> kind, width, signedness); widths of pointer-sized types are wasm32's
LTYPES = {
    "rust": _mk([("i8", "int", 8, True), ("u8", "int", 8, False), ("i16", "int", 16, True), ("u16", "int", 16, False),
                 ("i32", "int", 32, True), ("u32", "int", 32, False), ("i64", "int", 64, True), ("u64", "int", 64, False),
                 ("usize", "int", 32, False), ("isize", "int", 32, True), ("f32", "float", 32, False),
                 ("f64", "float", 64, False), ("bool", "bool", 1, False), ("char", "char", 32, False),
                 ("*mut u8", "ptr", 32, False),
                 (["::core::mem::MaybeUninit::<u64>", "MaybeUninit<u64>"], "mu", 64, False)]),
    "c": _mk(_CINTS),
    "cpp": _mk(_CINTS),
    "csharp": _mk([("sbyte", "int", 8, True), ("byte", "int", 8, False), ("short", "int", 16, True),
                   ("ushort", "int", 16, False), ("int", "int", 32, True), ("uint", "int", 32, False),
                   ("long", "int", 64, True), ("ulong", "int", 64, False), ("nint", "int", 32, True),
                   ("float", "float", 32, False), ("double", "float", 64, False), ("bool", "bool", 1, False)]),
    "go": _mk([("int8", "int", 8, True), (["uint8", "byte"], "int", 8, False), ("int16", "int", 16, True),
               ("uint16", "int", 16, False), (["int32", "rune"], "int", 32, True), ("uint32", "int", 32, False),
               ("int64", "int", 64, True), ("uint64", "int", 64, False), ("uintptr", "int", 32, False),
               ("float32", "float", 32, False), ("float64", "float", 64, False), ("bool", "bool", 1, False)]),
    "d": _mk([("byte", "int", 8, True), ("ubyte", "int", 8, False), ("short", "int", 16, True),
              ("ushort", "int", 16, False), ("int", "int", 32, True), ("uint", "int", 32, False),
              ("long", "int", 64, True), ("ulong", "int", 64, False), ("size_t", "int", 32, False),
              ("float", "float", 32, False), ("double", "float", 64, False), ("bool", "bool", 1, False),
              ("dchar", "char", 32, False), ("void*", "ptr", 32, False)]),
    "moonbit": _mk([("Int", "int", 32, True), ("UInt", "int", 32, False), ("Int64", "int", 64, True),
                    ("UInt64", "int", 64, False), ("Byte", "int", 8, False), ("Float", "float", 32, False),
                    ("Double", "float", 64, False), ("Bool", "bool", 1, False), ("Char", "char", 32, False)]),
}


def ltype(lang, name):
    t = LTYPES[lang].get(_norm(name))
    if t is None:
        raise Unknown(f"type `{name}` is not in the {lang} type table of convsem")
    return t


# =============================================================================================== values
class V:
    def __init__(self, ty, bits, ref=None):
        assert len(bits) == ty.width, (ty, len(bits))
        self.ty, self.bits, self.ref = ty, list(bits), ref

    @property
    def is_const(self):
        return all(b in (0, 1) for b in self.bits)

    def uval(self):
        return sum(b << i for i, b in enumerate(self.bits))

    def sval(self):
        u = self.uval()
        if self.ty.signed and self.bits[-1] == 1:
            u -= 1 << len(self.bits)
        return u

    def show(self):
        if self.is_const:
            if self.ty.kind == "bool":
                return "true" if self.bits[0] else "false"
            if self.ty.kind in ("float", "ptr", "mu"):
                return f"bits 0x{self.uval():x}"
            return str(self.sval())
        return show_bits(self.bits)


def const(ty, value):
    return V(ty, [(value >> i) & 1 for i in range(ty.width)])


def lit(value):
    return const(LIT, value)


def resize(bits, signed, w):
    if w <= len(bits):
        return list(bits[:w])
    return list(bits) + [bits[-1] if signed else 0] * (w - len(bits))


# justification of the integer cast rule, per language (printed in the evidence)
CAST_RULE = {
    "rust": "Rust reference, `as` numeric cast: truncates when narrowing; widening sign-extends a signed source and "
            "zero-extends an unsigned one; same width is a no-op; bool/char -> integer yields 0/1 / the scalar value; "
            "integer -> pointer goes through usize",
    "c": "C11 6.3.1.3 (+ C23 two's complement; clang/gcc define the signed case as wrap): conversion to a narrower "
         "type keeps the low bits, widening extends by the SOURCE type's signedness; conversion to _Bool is `!= 0` "
         "(6.3.1.2); _Bool promotes to 0/1",
    "cpp": "C++20 [conv.integral]: result is the value congruent modulo 2^N (low bits kept, widening by the source "
           "signedness); [conv.bool] integral -> bool is `!= 0`; bool -> integral is 0/1",
    "csharp": "C# spec 10.3.2 explicit numeric conversions in an unchecked context (the default for non-constant "
              "expressions): extra high bits are discarded, widening sign/zero-extends by the source type; "
              "10.2.3 implicit numeric conversions are the value-preserving widenings",
    "go": "Go spec, Conversions between numeric types: sign-extended if the source is signed, zero-extended otherwise, "
          "then truncated to fit the result type; no implicit conversions between named numeric types",
    "d": "D spec, Cast Expressions / Integer Conversions: integral casts truncate or extend by the source type's "
         "signedness; implicit conversion only to a type at least as wide; cast(bool) is `!= 0`; bool is 0/1",
    "moonbit": "MoonBit has no cast syntax; conversions are the methods listed in PRIMS",
}


def _implicit_int_ok(lang, s, d):
    if lang in ("c", "cpp"):
        return True
    if lang == "csharp":
        return (s.width < d.width and (d.signed or not s.signed)) or (s.name, d.name) == ("int", "nint")
    if lang == "d":
        return d.width >= s.width
    return False


def convert(lang, v, dst, explicit):
    """Value conversion `v` -> type dst under the language's rules (explicit cast or implicit conversion)."""
    s = v.ty
    how = "cast" if explicit else "implicit conversion"
    if s.name == dst.name:
        return v
    sk, dk = s.kind, dst.kind
    if sk == "lit":
        if dk in ("int", "char"):
            if v.is_const:
                val = v.sval()
                lo, hi = (-(1 << (dst.width - 1)), (1 << dst.width) - 1)
                if not lo <= val <= hi:
                    raise Unknown(f"literal {val} does not fit {dst.name}")
            return V(dst, resize(v.bits, True, dst.width))
        if dk == "bool" and lang in ("c", "cpp"):
            return V(dst, [b_anyset(v.bits)])
        raise Unknown(f"{lang}: integer literal used as {dst.name}")
    if sk == "int" and dk == "int":
        if not explicit and not _implicit_int_ok(lang, s, dst):
            raise Unknown(f"{lang}: no implicit conversion {s.name} -> {dst.name} (the generated code needs an explicit cast)")
        return V(dst, resize(v.bits, s.signed, dst.width))
    if sk == "bool" and dk == "int":
        if lang in ("c", "cpp", "d") or (lang == "rust" and explicit):
            return V(dst, resize(v.bits, False, dst.width))
        raise Unknown(f"{lang}: no {how} bool -> {dst.name}")
    if sk == "int" and dk == "bool":
        if lang in ("c", "cpp") or (lang == "d" and explicit):
            return V(dst, [b_anyset(v.bits)])
        raise Unknown(f"{lang}: no {how} {s.name} -> bool")
    if sk == "char" and dk == "int":
        if (lang == "rust" and explicit) or (lang == "d" and (explicit or dst.width >= 32)):
            return V(dst, resize(v.bits, False, dst.width))
        raise Unknown(f"{lang}: no {how} {s.name} -> {dst.name}")
    if sk == "int" and dk == "char":
        if lang == "d" and explicit:
            return V(dst, resize(v.bits, s.signed, 32))
        raise Unknown(f"{lang}: no {how} {s.name} -> {dst.name}")
    if sk == "int" and dk == "ptr":
        if explicit and lang in ("c", "cpp", "d", "rust"):
            return V(dst, resize(v.bits, s.signed, 32))
        raise Unknown(f"{lang}: no {how} {s.name} -> pointer")
    if sk == "ptr" and dk == "int":
        if explicit and lang in ("c", "cpp", "d", "rust"):
            # widening a pointer is implementation-defined (clang zero-, gcc sign-extends): upper bits unknown
            return V(dst, list(v.bits[:dst.width]) + [T] * max(0, dst.width - 32))
        raise Unknown(f"{lang}: no {how} pointer -> {dst.name}")
    if sk == "ptr" and dk == "ptr":
        return V(dst, v.bits)
    if sk == "float" and dk == "float" and (explicit or lang in ("c", "cpp", "d", "csharp")):
        return V(dst, [T] * dst.width)  # a value conversion, not bit-preserving
    if {sk, dk} == {"float", "int"} and (explicit or lang in ("c", "cpp")):
        return V(dst, [T] * dst.width)  # numeric conversion, not a reinterpretation
    raise Unknown(f"{lang}: no {how} {s.name} -> {dst.name}")


# =============================================================================================== expression readers
# generic AST (tuples):
#   ('op',) ('var', n) ('int', v) ('bool', b) ('cast', ty, e) ('coerce', ty, e) ('call', name, targs, args)
#   ('mcall', recv, name, targs, args) ('bin', op, l, r) ('cond', c, a, b) ('field', e, n) ('compound', ty, e)
#   ('block', [('let', n, e) | ('expr', e)], tail) ('match', scrut, [(pat, body)]) ('cfgif', debug, release)
#   ('neg', e) ('panic',)
OPERAND = "__OP__"


def _int_lit(text):
    t = text.replace("_", "")
    m = re.match(r"^(0[xX][0-9a-fA-F]+|0[bB][01]+|0[oO][0-7]+|\d+)([A-Za-z]\w*)?$", t)
    if not m:
        raise Unknown(f"integer literal `{text}` not understood")
    body, suffix = m.group(1), m.group(2)
    return int(body, 0) if not body.isdigit() else int(body), suffix


def rust_ast(e):
    """syn JSON (lib/synq node) -> generic AST"""
    k = e.get("k")
    if k == "path":
        return ("op",) if e["path"] == OPERAND else ("var", e["path"])
    if k == "int":
        v, suffix = _int_lit(str(e["v"]) + (e.get("suffix") or ""))
        return ("cast", suffix, ("int", v)) if suffix else ("int", v)
    if k == "bool":
        return ("bool", bool(e["v"]))
    if k == "cast":
        return ("cast", e["ty"], rust_ast(e["e"]))
    if k == "call" and e["func"].get("k") == "path":
        return ("call", e["func"]["path"], [], [rust_ast(a) for a in e["args"]])
    if k == "mcall":
        tf = e.get("turbofish")
        targs = [tf.strip()[3:-1].strip()] if tf else []
        return ("mcall", rust_ast(e["recv"]), e["method"], targs, [rust_ast(a) for a in e["args"]])
    if k == "binary":
        return ("bin", e["op"], rust_ast(e["l"]), rust_ast(e["r"]))
    if k == "unary" and e["op"] == "*":
        return rust_ast(e["e"])  # deref of a reference to a Copy scalar
    if k == "unary" and e["op"] == "-":
        return ("neg", rust_ast(e["e"]))
    if k == "ref":
        return rust_ast(e["e"])
    if k == "block":
        stmts, tail = [], None
        for i, s in enumerate(e["stmts"]):
            if s["k"] == "let" and s["pat"].get("k") == "p_ident" and s.get("init") is not None:
                stmts.append(("let", s["pat"]["name"], rust_ast(s["init"])))
            elif s["k"] == "expr_stmt":
                if i == len(e["stmts"]) - 1 and not s.get("semi"):
                    tail = rust_ast(s["e"])
                else:
                    stmts.append(("expr", rust_ast(s["e"])))
            else:
                raise Unknown(f"rust: statement kind {s['k']} in a conversion template")
        if tail is None:
            raise Unknown("rust: block without a tail expression")
        return ("block", stmts, tail) if stmts else tail
    if k == "if":
        c = e["cond"]
        if e.get("else") is None:
            raise Unknown("rust: `if` without else")
        if c.get("k") == "macro" and synq.short(c["name"]) == "cfg" and synq.render(c.get("args")) == "debug_assertions":
            return ("cfgif", rust_ast(e["then"]), rust_ast(e["else"]))
        return ("cond", rust_ast(c), rust_ast(e["then"]), rust_ast(e["else"]))
    if k == "match":
        arms = []
        for a in e["arms"]:
            if a.get("guard"):
                raise Unknown("rust: match guard in a conversion template")
            p = a["pat"]
            if p.get("k") == "p_wild":
                pat = "_"
            elif p.get("k") == "p_lit" and p["lit"].get("k") in ("bool", "int"):
                pat = bool(p["lit"]["v"]) if p["lit"]["k"] == "bool" else _int_lit(str(p["lit"]["v"]))[0]
            else:
                raise Unknown(f"rust: match pattern {synq.pat_head(p)} in a conversion template")
            arms.append((pat, rust_ast(a["body"])))
        return ("match", rust_ast(e["scrut"]), arms)
    if k == "macro" and synq.short(e["name"]) in ("panic", "unreachable"):
        return ("panic",)
    raise Unknown(f"rust: expression kind `{k}` ({synq.render(e)[:60]}) not understood")


def read_rust(text):
    ast = facts.parse_snippet(text)
    if "error" in ast or "stmts" not in ast or len(ast["stmts"]) != 1 or ast["stmts"][0].get("k") != "expr_stmt":
        raise Unknown(f"rust: template does not parse as one expression: {ast.get('error', '')}")
    return rust_ast(ast["stmts"][0]["e"])


_TOK = re.compile(r"\s*(0[xX][0-9a-fA-F_]+[uUlL]*|\d[\d_]*[uUlL]*|[A-Za-z_]\w*|::|!=|==|<<|>>|&&|\|\||[-+*/%&|^!~?:.,(){}<>\[\]=;])")
_BINPREC = {"|": 3, "^": 4, "&": 5, "==": 6, "!=": 6, "<<": 8, ">>": 8, "+": 9, "-": 9, "*": 10}


class Reader:
    """Pratt reader for the C / C++ / C# / Go / D / MoonBit expression forms the backends emit."""

    def __init__(self, lang, text, variables=()):
        self.lang = lang
        self.text = text
        self.vars = set(variables) | {OPERAND}
        self.toks = []
        pos = 0
        s = text.strip()
        while pos < len(s):
            m = _TOK.match(s, pos)
            if not m:
                raise Unknown(f"{lang}: cannot tokenise `{s[pos:pos + 20]}`")
            self.toks.append(m.group(1))
            pos = m.end()
        self.i = 0

    def peek(self, k=0):
        return self.toks[self.i + k] if self.i + k < len(self.toks) else None

    def next(self):
        t = self.peek()
        if t is None:
            raise Unknown(f"{self.lang}: unexpected end of `{self.text}`")
        self.i += 1
        return t

    def expect(self, t):
        g = self.next()
        if g != t:
            raise Unknown(f"{self.lang}: expected `{t}` but found `{g}` in `{self.text}`")

    def parse(self):
        e = self.ternary()
        if self.peek() is not None:
            raise Unknown(f"{self.lang}: trailing `{self.peek()}` in `{self.text}`")
        return e

    def ternary(self):
        c = self.binary(1)
        if self.peek() == "?" and self.lang in ("c", "cpp", "csharp", "d"):
            self.next()
            a = self.ternary()
            self.expect(":")
            b = self.ternary()
            return ("cond", c, a, b)
        return c

    def binary(self, minp):
        lhs = self.unary()
        while True:
            op = self.peek()
            if op in ("<", ">", "&&", "||", "/", "%"):
                raise Unknown(f"{self.lang}: operator `{op}` not modelled")
            p = _BINPREC.get(op)
            if p is None or p < minp:
                return lhs
            if self.lang in ("go", "moonbit") and op not in ("==", "!=", "+", "-"):
                raise Unknown(f"{self.lang}: precedence of `{op}` not modelled")
            self.next()
            rhs = self.binary(p + 1)
            lhs = ("bin", op, lhs, rhs)

    def try_type(self):
        """type name at the cursor -> normalised name (cursor advanced) or None (cursor unchanged)"""
        save = self.i
        t = self.peek()
        if t is None or not re.match(r"[A-Za-z_]", t):
            return None
        self.next()
        if t in ("union", "struct") and self.lang in ("c", "cpp"):
            n = self.next()
            return f"{t} {n}"
        name = t
        while self.peek() == "*":
            self.next()
            name += "*"
        if _norm(name) in LTYPES[self.lang]:
            return name
        self.i = save
        return None

    def unary(self):
        t = self.peek()
        lang = self.lang
        if t == "(" and lang in ("c", "cpp", "csharp"):
            save = self.i
            self.next()
            ty = self.try_type()
            if ty is not None and self.peek() == ")":
                self.next()
                if self.peek() == "{" and lang in ("c", "cpp"):
                    self.next()
                    e = self.ternary()
                    self.expect("}")
                    return self.postfix(("compound", ty, e))
                return ("cast", ty, self.unary())
            self.i = save
        if t == "-":
            self.next()
            return ("neg", self.unary())
        if t in ("!", "~", "*", "&"):
            raise Unknown(f"{lang}: unary `{t}` not modelled")
        if t == "cast" and lang == "d" and self.peek(1) == "(":
            self.next()
            self.next()
            ty = self.try_type()
            if ty is None:
                raise Unknown(f"d: cast to an unknown type in `{self.text}`")
            self.expect(")")
            return ("cast", ty, self.unary())
        if t == "if" and lang == "moonbit":
            self.next()
            c = self.binary(1)
            self.expect("{")
            a = self.ternary()
            self.expect("}")
            self.expect("else")
            self.expect("{")
            b = self.ternary()
            self.expect("}")
            return ("cond", c, a, b)
        return self.postfix(self.primary())

    def args(self):
        self.expect("(")
        out = []
        if self.peek() == ")":
            self.next()
            return out
        while True:
            out.append(self.ternary())
            t = self.next()
            if t == ")":
                return out
            if t != ",":
                raise Unknown(f"{self.lang}: expected `,` or `)` in `{self.text}`")

    def primary(self):
        t = self.next()
        lang = self.lang
        if re.match(r"\d", t):
            v, suffix = _int_lit(re.sub(r"[uUlL]+$", "", t))
            return ("int", v)
        if t == "(":
            e = self.ternary()
            self.expect(")")
            return e
        if not re.match(r"[A-Za-z_]", t):
            raise Unknown(f"{lang}: unexpected `{t}` in `{self.text}`")
        if t in ("true", "false"):
            return ("bool", t == "true")
        if t == "unchecked" and lang == "csharp" and self.peek() == "(":
            # C# spec 12.8.20: unchecked(e) evaluates e in an unchecked context (same value, no overflow trap)
            self.next()
            e = self.ternary()
            self.expect(")")
            return e
        if t in self.vars:
            return ("op",) if t == OPERAND else ("var", t)
        # functional cast / conversion  T(e)
        if _norm(t) in LTYPES[lang] and self.peek() == "(" and lang in ("go", "cpp"):
            a = self.args()
            if len(a) != 1:
                raise Unknown(f"{lang}: conversion {t}(..) with {len(a)} arguments")
            return ("cast", t, a[0])
        # a dotted / scoped name of a function
        name = t
        while self.peek() in ("::", ".") and re.match(r"[A-Za-z_]", self.peek(1) or ""):
            name += self.next() + self.next()
        targs = []
        if self.peek() == "<" and lang == "cpp":
            self.next()
            while True:
                ty = self.try_type()
                if ty is None:
                    raise Unknown(f"cpp: template argument not a known type in `{self.text}`")
                targs.append(ty)
                s = self.next()
                if s == ">":
                    break
                if s != ",":
                    raise Unknown(f"cpp: malformed template argument list in `{self.text}`")
        if self.peek() == "(":
            return ("call", name, targs, self.args())
        raise Unknown(f"{lang}: free name `{name}` in `{self.text}`")

    def postfix(self, e):
        while self.peek() == ".":
            self.next()
            n = self.next()
            if not re.match(r"[A-Za-z_]", n):
                raise Unknown(f"{self.lang}: `.{n}` in `{self.text}`")
            targs = []
            if self.peek() == "!" and self.lang == "d":
                self.next()
                ty = self.try_type()
                if ty is None:
                    raise Unknown(f"d: template instantiation with an unknown type in `{self.text}`")
                targs.append(ty)
                a = self.args() if self.peek() == "(" else []
                e = ("mcall", e, n, targs, a)
            elif self.peek() == "(":
                e = ("mcall", e, n, targs, self.args())
            else:
                e = ("field", e, n)
        return e


_GO_PRELUDE = re.compile(r"^var (\w+) (\w+) if (.+?) \{ (\w+) = (.+?) \} else \{ (\w+) = (.+?) \}$")


def read_template(lang, text, prelude=""):
    """-> (ast, env_asts) ; env_asts binds temporaries introduced by statements written before the expression"""
    env = {}
    prelude = " ".join(prelude.split())
    if prelude:
        m = _GO_PRELUDE.match(prelude) if lang == "go" else None
        if not m or not (m.group(1) == m.group(4) == m.group(6)):
            raise Unknown(f"{lang}: statements written before the expression are not understood: `{prelude[:80]}`")
        name, ty = m.group(1), m.group(2)
        # Go spec, Assignability: an untyped constant is converted to the variable's declared type
        env[name] = ("cond", Reader(lang, m.group(3)).parse(), ("coerce", ty, Reader(lang, m.group(5)).parse()),
                     ("coerce", ty, Reader(lang, m.group(7)).parse()))
    if lang == "rust":
        if prelude:
            raise Unknown("rust: prelude statements not understood")
        return read_rust(text), env
    return Reader(lang, text, env.keys()).parse(), env
