#!/usr/bin/env python3-vt
import json, sys, glob, jsonschema
man = json.load(open('/verif/MANIFEST.json'))
jsonschema.validate(man, json.load(open('/root/.vp/MANIFEST.schema.json')))
es = json.load(open('/root/.vp/EVIDENCE.schema.json'))
bad = 0
for c in man['checks']:
    try:
        ev = json.load(open(c['evidence_file']))
        jsonschema.validate(ev, es)
        if ev['level'] != c['level_claimed']['category']:
            print('level mismatch', c['property_id'], ev['level'], c['level_claimed']['category']); bad += 1
    except Exception as e:
        print('EVIDENCE INVALID', c['property_id'], str(e)[:300]); bad += 1
ids = [c['property_id'] for c in man['checks']] + [n['property_id'] for n in man.get('not_applicable', [])]
assert sorted(ids) == ['C%02d' % i for i in range(1, 35)], ids
print('manifest valid;', len(man['checks']), 'checks;', bad, 'problems')
sys.exit(1 if bad else 0)
