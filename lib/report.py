"""Obligation bookkeeping, known findings, evidence files and the exit protocol."""
import json
import os
import sys
import time

VERIF = os.path.dirname(os.path.dirname(os.path.abspath(__file__)))


def load_known():
    p = os.path.join(VERIF, "known_findings.json")
    if not os.path.exists(p):
        return {"findings": [], "fixed": []}
    return json.load(open(p))


class Report:
    def __init__(self, pid, tier):
        self.pid = pid
        self.tier = tier
        self.t0 = time.time()
        self.obs = []  # dicts
        self.level = "other"
        self.explanation = ""
        self.trusted_base = []
        self.assumptions = []
        self.extra = {}
        self.rule_text = {}
        self.analysed = {"functions": set(), "files": set()}
        self.known = [k for k in load_known()["findings"] if k["property"] == pid]
        self.known_keys = {k["key"] for k in self.known}
        self.checker_cmd = f"python3 /verif/check.py {pid} --tier {tier}"

    # ------------------------------------------------------------------
    def describe(self, level, explanation, trusted_base=(), assumptions=()):
        self.level = level
        self.explanation = explanation
        self.trusted_base = list(trusted_base)
        self.assumptions = list(assumptions)

    def rule(self, rid, text):
        self.rule_text[rid] = text

    def saw(self, fn=None, file=None):
        if fn is not None:
            self.analysed["functions"].add(fn if isinstance(fn, str) else fn.path)
        if file is not None:
            self.analysed["files"].add(file)

    def ob(self, rule, instance, ok, detail="", loc="", key=None, nontrivial=True):
        """Record one obligation.  `instance` must be stable under reformatting (no line numbers)."""
        key = key or f"{self.pid}|{rule}|{instance}"
        self.obs.append({"rule": rule, "instance": instance, "ok": bool(ok), "detail": detail, "loc": loc,
                         "key": key, "nontrivial": nontrivial})
        return bool(ok)

    def floor(self, rule, what, count, minimum):
        """Non-vacuity: the number of instances a rule matched must not fall below the confirmed count."""
        return self.ob(rule, f"floor:{what}", count >= minimum,
                       f"{count} instance(s) of {what}, at least {minimum} confirmed by hand", nontrivial=False)

    def guard(self, rule, instance, fnc, loc=""):
        """Run fnc(); an AnchorMissing (or any failure to evaluate) fails closed."""
        from .mir import AnchorMissing
        try:
            return fnc()
        except AnchorMissing as e:
            self.ob(rule, instance, False, f"anchor missing: {e}", loc, key=f"{self.pid}|{rule}|{instance}|anchor")
        except Exception as e:  # fail closed, but say what happened
            import traceback
            tb = traceback.format_exc().strip().splitlines()[-3:]
            self.ob(rule, instance, False, f"rule could not be evaluated: {e!r} {' / '.join(tb)}", loc,
                    key=f"{self.pid}|{rule}|{instance}|eval")
        return None

    # ------------------------------------------------------------------
    def finish(self):
        viol = [o for o in self.obs if not o["ok"] and o["key"] not in self.known_keys]
        known_hit = [o for o in self.obs if not o["ok"] and o["key"] in self.known_keys]
        for o in self.obs:
            if o["ok"]:
                continue
            tag = "KNOWN" if o["key"] in self.known_keys else "FAIL"
            print(f"[{tag}] {o['rule']} {o['instance']} {o['loc']}: {o['detail']}")
        seen = set()
        for o in known_hit:
            if o["key"] in seen:
                continue
            seen.add(o["key"])
            what = next((k["what"] for k in self.known if k["key"] == o["key"]), o["detail"])
            print(f"KNOWN-FINDING: property={self.pid} key={o['key']} {what}")
        n = len(self.obs)
        nok = sum(1 for o in self.obs if o["ok"])
        distinct = len({o["key"] for o in self.obs if o["nontrivial"]})
        by_rule = {}
        for o in self.obs:
            r = by_rule.setdefault(o["rule"], {"obligations": 0, "ok": 0})
            r["obligations"] += 1
            r["ok"] += 1 if o["ok"] else 0
        samples = []
        seen_rules = set()
        for o in self.obs:
            if o["rule"] not in seen_rules and o["nontrivial"]:
                seen_rules.add(o["rule"])
                samples.append({k: o[k] for k in ("rule", "instance", "ok", "detail", "loc")})
        for o in viol[:10]:
            samples.append({k: o[k] for k in ("rule", "instance", "ok", "detail", "loc")})
        from . import facts
        cov = {
            "explanation": self.explanation,
            "obligations": n,
            "discharged": nok,
            "known_findings_hit": len(seen),
            "evaluations": n,
            "distinct_nontrivial": distinct,
            "rule": "one evaluation per rule instance (function / call site / match arm / table row) found in the "
                    "current tree; non-trivial = the instance inspected at least one concrete site; distinct by key",
            "samples": samples[:40],
            "per_rule": by_rule,
            "rules": self.rule_text,
            "checker_cmd": self.checker_cmd,
            "trusted_base": self.trusted_base,
            "functions_analysed": len(self.analysed["functions"]),
            "files_analysed": sorted(self.analysed["files"]),
            "fact_cache_key": facts.tree_key(),
            "exhaustive": False,
        }
        cov.update(self.extra)
        level = self.level
        if level == "proof" and nok != n:
            # a proof with open obligations is not a proof: degrade the label honestly
            level = "other"
        ev = {
            "property_id": self.pid,
            "tier": self.tier,
            "seed": int(os.environ.get("VERIF_SEED", "0") or 0),
            "level": level,
            "coverage": cov,
            "assumptions": self.assumptions,
            "wall_s": round(time.time() - self.t0, 3),
            "violations": len(viol),
        }
        evdir = os.environ.get("VERIF_EVIDENCE_DIR")
        if not evdir:
            # runs against a scratch copy (VERIF_REPO) never overwrite the evidence of the real tree
            evdir = os.path.join(VERIF, "evidence") if facts.REPO == "/repo" else os.path.join(VERIF, ".cache", "evidence-scratch")
        os.makedirs(evdir, exist_ok=True)
        evp = os.path.join(evdir, f"{self.pid}.json")
        with open(evp, "w") as fh:
            json.dump(ev, fh, indent=1, sort_keys=True)
            fh.write("\n")
        print(f"{self.pid} [{self.tier}]: {n} obligations, {nok} hold, {len(seen)} known finding(s), "
              f"{len(viol)} violation(s); {len(self.analysed['functions'])} functions analysed; "
              f"{ev['wall_s']} s")
        if viol:
            rp = os.path.join(evdir, f"{self.pid}.violations.json")
            with open(rp, "w") as fh:
                json.dump({"property": self.pid, "violations": viol}, fh, indent=1)
            print(f"VIOLATION property={self.pid} replay={rp}")
            return 1
        return 0
