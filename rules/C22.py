"""C22 — export task executor answers callbacks consistently and frees tasks once (structural clauses)."""
import json
import os
import re

from lib import facts, mir
from .rtcommon import (configs, rt, every_return_passes, bool_switches_on_call, discr_switches, variant_target,
                       calls_in)

CLAIM = dict(
    level="other", engine="mirfacts+synfacts", design="DESIGN.md §5 C22",
    technique="MIR guard-edge / dominator / must-pass-through rules on the executor, constant tables, "
              "who-may-construct / who-may-release rules; syntax tree only for one promoted constant and a link name",
    text="Static path rules on the runtime crate's MIR: every CallbackCode construction site sits under the guard the "
         "property names (Exit: cancel, or Ready and no waitables; Wait: own set, Ready with waitables or Pending and "
         "not woken after going to sleep; Yield: Pending and woken), the context slot is cleared while a callback runs "
         "and restored exactly on non-Exit, the box is rebuilt and dropped exactly on Exit, block_on answers "
         "Exit/Yield/Wait with drop/poll/wait, spawned work is re-polled before Ready, destructors run under the p3 "
         "task scope, event/callback code tables have the canonical values. Partial: schedules are not explored.",
    note="mir+syn")

EVENTS = ["EVENT_NONE", "EVENT_SUBTASK", "EVENT_STREAM_READ", "EVENT_STREAM_WRITE", "EVENT_FUTURE_READ",
          "EVENT_FUTURE_WRITE", "EVENT_CANCEL"]

DEREF = re.compile(r"as core::ops::Deref(Mut)?>::deref(_mut)?$")
PASS = ["Option::unwrap", "Option::expect", "Option::as_ref", "Option::as_mut", "Option::as_deref", DEREF,
        "TryLock::try_lock"]
PTR_CASTS = [re.compile(r"core::ptr::(mut|const)_ptr::<impl \*(mut|const) T>::(cast|cast_mut|cast_const)$")]
SLEEP_WRITES = [re.compile(r"core::sync::atomic::Atomic(U32|::<u32>)?::(store|swap|fetch_\w+|compare_exchange\w*)$")]
SLEEP_STORE = re.compile(r"core::sync::atomic::Atomic(U32|::<u32>)?::store$")
SLEEP_LOAD = re.compile(r"core::sync::atomic::Atomic(U32|::<u32>)?::load$")


# ----------------------------------------------------------------------------- helpers (local to this module)
def strip_not(o):
    neg = False
    while o.get("kind") == "un" and o.get("op") == "Not":
        o = o["a"]
        neg = not neg
    return o, neg


def edge_truth(vals):
    """truth value of a bool switch edge described by its value labels (MIR: [0 -> false] else true)."""
    ints = [v for v in vals if v != "else"]
    if "else" not in vals and ints == [0]:
        return False
    if 0 not in ints and (ints or "else" in vals):
        return True
    return None


def call_guards(f, site, pat):
    """guard edges of `site` whose condition is the bool result of a call matching pat -> [(switch_bb, call, truth)]"""
    out = []
    for b, vals, o in f.guard_edges(site):
        o, neg = strip_not(o)
        if o.get("kind") == "call" and o["call"].matches(pat) and not [p for p in o.get("proj", []) if p != "&"]:
            t = edge_truth(vals)
            if t is not None:
                out.append((b, o["call"], t != neg))
    return out


def cmp_guards(f, site):
    """guard edges of `site` that compare a value with constants -> [(switch_bb, x_origin, {consts}, equal)]:
    on the edge, x is (equal) / is not (not equal) one of the constants."""
    out = []
    for b, vals, o in f.guard_edges(site):
        o, neg = strip_not(o)
        if o.get("kind") == "bin" and o.get("op") in ("Eq", "Ne"):
            a, bb = o["a"], o["b"]
            if bb.get("kind") == "const" and "v" in bb:
                x, k = a, bb["v"]
            elif a.get("kind") == "const" and "v" in a:
                x, k = bb, a["v"]
            else:
                continue
            t = edge_truth(vals)
            if t is None:
                continue
            out.append((b, x, {k}, (t != neg) == (o["op"] == "Eq")))
        elif o.get("kind") in ("arg", "call", "place") and not neg:
            ints = [v for v in vals if v != "else"]
            if "else" not in vals and ints:
                out.append((b, o, set(ints), True))
            elif "else" in vals:
                explicit = {v for v in f.switch_targets(b) if v != "else"} - set(ints)
                if explicit:
                    out.append((b, o, explicit, False))
    return out


def discr_guards(f, site):
    """guard edges of `site` on an enum discriminant -> [(switch_bb, origin, {variant names possible on the edge})]"""
    out = []
    for b, vals, o in f.guard_edges(site):
        if o.get("kind") != "discr":
            continue
        explicit = {v for v in f.switch_targets(b) if v != "else"}
        names = set()
        for v in vals:
            if v == "else":
                names |= {n for vv, n in o["vars"].items() if vv not in explicit}
            else:
                names.add(o["vars"].get(v, str(v)))
        out.append((b, o, names))
    return out


def poll_variant(f, site, pat):
    """set of Poll variants possible at `site` according to dominating switches on the result of a call `pat`."""
    res = None
    for b, o, names in discr_guards(f, site):
        of = o.get("of", {})
        if of.get("kind") == "call" and of["call"].matches(pat) and not [p for p in of.get("proj", []) if p.startswith(".")]:
            res = names if res is None else (res & names)
    return res


def between(f, a, s):
    """blocks on a path a -> s that does not revisit a (a excluded, s included)."""
    fwd = set()
    for x in f.succ[a]:
        fwd |= f.reachable(x, avoid=[a])
    bwd = {s}
    st = [s]
    while st:
        x = st.pop()
        for p in f.pred[x]:
            if p != a and p not in bwd and p in f.live:
                bwd.add(p)
                st.append(p)
    return fwd & bwd


def chase(f, op, through=PASS):
    """follow the receiver chain of an operand through pass-through calls; returns (field names met, terminal origin)"""
    fields = []
    o = f.origin(op)
    for _ in range(40):
        fields += [p for p in o.get("proj", []) if p.startswith(".")]
        if o.get("kind") == "call" and o["call"].matches(through) and o["call"].args:
            o = f.origin(o["call"].args[0])
            continue
        break
    return fields, o


def root(f, op, through):
    return chase(f, op, through)[1]


def is_call(o, pat):
    return o.get("kind") == "call" and o["call"].matches(pat)


def same_call(o, call):
    return o.get("kind") == "call" and o["call"].bb == call.bb


def task_state_root(f, o):
    """the terminal origin is a TaskState: a parameter of that type, a local of that type, or TaskState::new(..)"""
    if is_call(o, "TaskState::new"):
        return True
    if o.get("kind") == "arg":
        return "TaskState<" in f.locals[o["n"]]
    if o.get("kind") == "place" and "local" in o:
        return "TaskState<" in f.locals[o["local"]]
    return False


def own_set(f, op):
    """operand is derived from <TaskState>.shared.waitable_set (the task's own waitable set)"""
    fields, o = chase(f, op)
    return ".waitable_set" in fields and ".shared" in fields and \
        fields.index(".waitable_set") < len(fields) - fields[::-1].index(".shared") and task_state_root(f, o)


def sleep_calls(f, pat):
    """atomic calls matching pat whose receiver is the `.sleep_state` field"""
    out = []
    for call in f.calls(pat):
        if call.args and ".sleep_state" in f.origin(call.args[0]).get("proj", []):
            out.append(call)
    return out


def const_arg(f, call, i):
    o = f.origin(call.args[i])
    return o.get("v") if o.get("kind") == "const" else None


# --- inline view of small same-crate helper methods (a behaviour-preserving extraction must not hide a site)
class Site:
    """a pseudo call: `.bb` the block of the (call) site, `.value` the constant stored (None if not a constant
    store), `.store` True for a plain store"""
    __slots__ = ("bb", "value", "store", "call")

    def __init__(self, bb, value, store, call):
        self.bb, self.value, self.store, self.call = bb, value, store, call


def local_callee(c, call):
    """the Fn of a direct call to a function of this crate, or None"""
    if call.ind is not None:
        return None
    for n in call.names():
        g = c.fns.get(n)
        if g is not None:
            return g
    return None


def store_helper(h):
    """h stores one of its parameters into `<self>.shared.sleep_state` on every path and does nothing else:
    returns the parameter number, or None"""
    if h.d.get("self_ty") is None or "TaskState<" not in h.d["self_ty"] or "Shared" in h.d["self_ty"]:
        return None
    st = sleep_calls(h, SLEEP_STORE)
    if not st or len(sleep_calls(h, SLEEP_WRITES)) != len(st):
        return None
    ks = set()
    for x in st:
        o = h.origin(x.args[1])
        fields, term = chase(h, x.args[0])
        if o.get("kind") != "arg" or o.get("proj") or ".shared" not in fields or term.get("kind") != "arg" \
                or term["n"] != 1:
            return None
        ks.add(o["n"])
    if len(ks) != 1 or any(not x.matches([DEREF, SLEEP_STORE]) for x in h.calls()):
        return None
    if not every_return_passes(h, [x.bb for x in st]) or any(h.in_cycle(x.bb) for x in st):
        return None
    return next(iter(ks))


def wait_helper(h):
    """h returns `CallbackCode::Wait(<self>.shared.waitable_set ... .as_raw())` on every path and does nothing else"""
    if h.d.get("self_ty") is None or "TaskState<" not in h.d["self_ty"] or "Shared" in h.d["self_ty"]:
        return False
    ag = h.aggregates("CallbackCode")
    if not ag or any(rv["var"] != "Wait" for _, _, rv, _ in ag):
        return False
    for b, i, rv, s in ag:
        if s["p"]["l"] != 0 or s["p"].get("p"):
            return False
        o = root(h, rv["ops"][0], [])
        if not is_call(o, "WaitableSet::as_raw"):
            return False
        fields, term = chase(h, o["call"].args[0])
        if not (".waitable_set" in fields and ".shared" in fields and term.get("kind") == "arg" and term["n"] == 1):
            return False
    if len(h.defs.get(0, [])) != len(ag) or not every_return_passes(h, [b for b, _, _, _ in ag]):
        return False
    return all(x.matches(PASS + ["WaitableSet::as_raw"]) for x in h.calls())


def sleep_sites(c, f, writes_only=True):
    """every write of sleep_state in f: direct atomic calls and calls of a store helper (value resolved at the
    call site)"""
    out = []
    for x in sleep_calls(f, SLEEP_WRITES):
        st = bool(x.matches(SLEEP_STORE))
        out.append(Site(x.bb, const_arg(f, x, 1) if st else None, st, x))
    for x in f.calls():
        h = local_callee(c, x)
        if h is None or h.path == f.path:
            continue
        k = store_helper(h)
        if k is not None and k - 1 < len(x.args):
            out.append(Site(x.bb, const_arg(f, x, k - 1), True, x))
    return out


def wait_sites(c, f):
    """[(bb, own_set: bool)] for every site of f that yields CallbackCode::Wait: aggregates and wait-helper calls"""
    out = []
    for b, i, rv, s in f.aggregates("CallbackCode", "Wait"):
        o = root(f, rv["ops"][0], [])
        out.append((b, is_call(o, "WaitableSet::as_raw") and own_set(f, o["call"].args[0])))
    for x in f.calls():
        h = local_callee(c, x)
        if h is not None and h.path != f.path and wait_helper(h):
            out.append((x.bb, task_state_root(f, f.origin(x.args[0]))))
    return out


def set_unwrap_sites(c, f):
    """blocks of f where the content of `.waitable_set` is unwrapped: directly, or inside a TaskState helper"""
    out = [x.bb for x in set_unwraps(f)]
    for x in f.calls():
        h = local_callee(c, x)
        if h is not None and h.path != f.path and h.d.get("self_ty") and "TaskState<" in h.d["self_ty"] \
                and "Shared" not in h.d["self_ty"] and wait_helper(h) and set_unwraps(h):
            out.append(x.bb)
    return out



def set_unwraps(f):
    """`Option::unwrap/expect` calls on the content of `.waitable_set` (panic if the task has no set yet)"""
    out = []
    for call in f.calls(["Option::unwrap", "Option::expect"]):
        o = f.origin(call.args[0])
        if is_call(o, ["Option::as_ref", "Option::as_mut", "Option::as_deref"]):
            fields, _ = chase(f, call.args[0])
            if ".waitable_set" in fields:
                out.append(call)
    return out


def meth(c, ty, name, trait=None):
    """method `name` of the impl whose self type's last path segment is exactly `ty` (lib.mir.base_type cuts a
    path like `TaskState<'_>::with_p3_task_set::ResetTask` at the first `<`, so Crate.method confuses the two)."""
    out = []
    for f in c.fns.values():
        st = f.d.get("self_ty")
        if st is None or mir.norm(st).split("::")[-1] != ty or not f.npath.endswith("::" + name):
            continue
        tr = f.d.get("trait")
        if (trait is None) != (tr is None) or (trait is not None and not mir.suffix_match(tr, trait)):
            continue
        out.append(f)
    if len(out) != 1:
        raise mir.AnchorMissing(f"method `{ty}::{name}` (trait {trait}) in crate {c.name}: {len(out)} matches")
    return out[0]


def const_flags(f):
    """locals whose every definition is a constant assignment (source-level bool flags, drop flags)"""
    out = set()
    for l, ds in f.defs.items():
        if len(ds) >= 2 and all(k == "assign" and rv["k"] == "use" and "c" in rv["o"] and "v" in rv["o"]
                                for _, _, k, rv in ds):
            out.add(l)
    return out


def flag_reach(f, starts, stop):
    """blocks reachable from `starts` without expanding `stop` blocks, pruning switch edges that contradict the
    constant last assigned on the path to a flag local (path-sensitive only in such flags)"""
    flags = const_flags(f)
    seen = set()
    st = [(b, ()) for b in starts]
    while st:
        b, env = st.pop()
        if (b, env) in seen:
            continue
        seen.add((b, env))
        if b in stop:
            continue
        d = dict(env)
        for s in f.stmts(b):
            if s["k"] == "=" and not s["p"].get("p") and s["p"]["l"] in flags:
                d[s["p"]["l"]] = int(s["rv"]["o"]["v"])
        succ = f.succ[b]
        t = f.term(b)
        if t["k"] == "switch":
            o = f.origin(t["d"])
            if o.get("kind") == "place" and o.get("local") in d and not o.get("proj"):
                tg = f.switch_targets(b)
                succ = [x for x in [tg.get(d[o["local"]], tg["else"])] if x in f.succ[b]]
        env2 = tuple(sorted(d.items()))
        for s2 in succ:
            st.append((s2, env2))
    return {b for b, _ in seen}


def _place_op(discr_origin):
    """operand naming the place whose discriminant a `discr` origin reads (to chase where the enum came from)"""
    m = re.match(r"^\(?\*?_(\d+)", discr_origin["place"])
    return {"cp": {"l": int(m.group(1))}} if m else {"c": 1}


def returns_call(f, call, also=()):
    """every definition of the return place is the destination of `call`, a copy of its result, or (also) an
    aggregate of one of the ADTs named in `also`"""
    ds = f.defs.get(0, [])
    if not ds:
        return False
    for b, i, kind, payload in ds:
        if kind == "call":
            if b != call.bb:
                return False
        elif kind == "assign" and payload["k"] == "use":
            if not same_call(f.origin(payload["o"]), call) or f.origin(payload["o"]).get("proj"):
                return False
        elif kind == "assign" and payload["k"] == "cast":
            if not same_call(f.origin(payload["o"]), call):
                return False
        elif kind == "assign" and payload["k"] == "agg" and any(payload.get("adt", "").endswith(a) for a in also):
            continue
        else:
            return False
    return True


def ws_triple(f, nm):
    """WaitableSet::{poll,wait} returns (built-in result, payload[0], payload[1]) of the buffer it passed"""
    aggs = [s for b in sorted(f.live) for s in f.stmts(b)
            if s["k"] == "=" and s["p"]["l"] == 0 and not s["p"].get("p") and s["rv"]["k"] == "agg"
            and "tuple" in s["rv"]]
    if len(aggs) != 1 or len(aggs[0]["rv"]["ops"]) != 3 or len(f.defs.get(0, [])) != 1:
        return False
    ops = aggs[0]["rv"]["ops"]
    o0 = f.origin(ops[0])
    if not (o0.get("kind") == "call" and mir.norm(o0["call"].callee).endswith("waitable_set::" + nm)
            and not o0.get("proj") and len(o0["call"].args) == 2):
        return False
    buf = f.origin(o0["call"].args[1])
    m = re.fullmatch(r"_(\d+)(\.\*)*", buf.get("place", "")) if buf.get("kind") == "place" else None
    if not m:
        return False
    # the buffer is not written or mutably borrowed again after the built-in filled it
    after = set()
    for x in f.succ[o0["call"].bb]:
        after |= f.reachable(x)
    for b in after:
        for s in f.stmts(b):
            if s["k"] == "=" and (s["p"]["l"] == int(m.group(1)) or
                                  (s["rv"]["k"] in ("ref", "rawptr") and s["rv"].get("m")
                                   and s["rv"]["p"]["l"] == int(m.group(1)))):
                return False
    idx = []
    for op in ops[1:]:
        p = op.get("mv") or op.get("cp")
        ds = [d for d in f.defs.get(p["l"], []) if d[2] == "assign"] if p and not p.get("p") else []
        if len(ds) != 1 or ds[0][3]["k"] != "use":
            return False
        src = ds[0][3]["o"].get("cp") or ds[0][3]["o"].get("mv")
        if not src or src["l"] != int(m.group(1)) or len(src.get("p", [])) != 1:
            return False
        mi = re.fullmatch(r"\[_(\d+)\]", src["p"][0])
        mc = re.fullmatch(r"\[(\d+)( of \d+)?\]", src["p"][0])
        idx.append(f.origin({"cp": {"l": int(mi.group(1))}}).get("v") if mi else int(mc.group(1)) if mc else None)
    return idx == [0, 1]


def diverges(f, b):
    return not (f.reachable(b) & set(f.returns()))


def short(f):
    return mir.norm(f.path).replace("crate::rt::async_support::", "")


# --- syntax tree (only for what MIR cannot show: a promoted constant operand and a link name)
def syn_file(rel):
    p = os.path.join(facts.syn_dir(), rel.replace("/", "__") + ".json")
    if not os.path.exists(p):
        raise mir.AnchorMissing(f"syntax facts for {rel}")
    return json.load(open(p))


def walk(n):
    if isinstance(n, dict):
        yield n
        for v in n.values():
            yield from walk(v)
    elif isinstance(n, list):
        for v in n:
            yield from walk(v)


def syn_compared_variant(f, call):
    """the `CallbackCode::X` a `==` / `!=` at the source line of `call` compares with -> (variant, is_eq) or None"""
    tree = syn_file(f.file)
    name = f.npath.split("::")[-1]
    fns = [it for it in tree["items"] if it.get("k") == "fn" and it["sig"]["name"] == name]
    hits = []
    for fn in fns:
        for n in walk(fn):
            if n.get("k") == "binary" and n.get("op") in ("==", "!=") and n["sp"][0] <= call.line <= n["sp"][2]:
                for side in (n["l"], n["r"]):
                    if side.get("k") == "path" and re.search(r"(^|::)CallbackCode::\w+$", side["path"]):
                        hits.append((side["path"].split("::")[-1], n["op"] == "=="))
    return hits[0] if len(hits) == 1 else None


# ----------------------------------------------------------------------------- driver
def run(rep, tier):
    rep.describe(
        "other",
        "Decides structural necessary conditions of C22 on the MIR of the runtime crate: the guard under which each "
        "CallbackCode is constructed in TaskState::callback (Exit / Wait on the own set / Yield), the polling "
        "sleep-state protocol around poll_next, delivery of the event triple, the context-slot protocol and the "
        "single release of the boxed task in `callback` / `start_task`, the block_on driver's answers, the constant "
        "tables, the destructor running under the p3 task scope with a restoring guard, the spawn executor re-polling "
        "newly spawned work before reporting Ready, TaskCancelOnDrop, and (R22.8, added) that the Option holding the "
        "waitable set is only unwrapped where the set is known to exist. It does NOT explore event schedules, the host's behaviour or the futures crate.",
        trusted_base=["rustc nightly MIR (opt-level 0) of crates/guest-rust", "unwind edges ignored (panic = trap)",
                      "tools/mirfacts", "tools/synfacts (one `==` operand hidden in a promoted constant; link names)"],
        assumptions=["native (x86_64) build of the runtime: extern_wasm! built-ins appear as shim functions",
                     "FuturesUnordered::poll_next returns Ready(None) only when empty (futures crate)"],
    )
    for cfg in configs(tier):
        rep.guard("R22", f"config:{cfg}", lambda cfg=cfg: one(rep, rt(cfg), cfg))


def one(rep, c, cfg):
    tag = f"[{cfg}]"
    EV = {n: c.const(n) for n in EVENTS}
    POLLING, WOKEN, SLEEPING = (c.const("SLEEP_STATE_POLLING"), c.const("SLEEP_STATE_WOKEN"),
                                c.const("SLEEP_STATE_SLEEPING"))

    def executor():
        outer = meth(c, "TaskState", "callback")
        inner = [g for g in c.closures_of(outer) if g.calls("Tasks::poll_next")]
        if len(inner) != 1:
            raise mir.AnchorMissing(f"closure of TaskState::callback that polls the tasks: {len(inner)} matches")
        return outer, inner[0]

    # ------------------------------------------------------------------ R22.1 callback codes
    def r1():
        outer, f = executor()
        rep.saw(outer)
        rep.saw(f)
        # upvar k of the closure  <->  parameter of TaskState::callback
        upvar = {}
        for b in sorted(outer.live):
            for s in outer.stmts(b):
                if s["k"] == "=" and s["rv"]["k"] == "agg" and s["rv"].get("closure") == f.path:
                    for k, op in enumerate(s["rv"]["ops"]):
                        o = outer.origin(op)
                        if o.get("kind") == "arg":
                            upvar[k] = o["n"]

        def triple(o):
            """identify a component of an event triple: ('param', i) for event{i} of TaskState::callback,
            ('poll', bb, i) for component i of a WaitableSet::poll() result"""
            if o.get("kind") == "arg" and o["n"] == 1:
                idx = [p for p in o.get("proj", []) if re.fullmatch(r"\.\d+", p)]
                if idx and int(idx[0][1:]) in upvar:
                    return ("param", upvar[int(idx[0][1:])] - 2)
            if is_call(o, "WaitableSet::poll"):
                idx = [p for p in o.get("proj", []) if re.fullmatch(r"\.\d+", p)]
                if idx:
                    return ("poll", o["call"].bb, int(idx[0][1:]))
            return None

        # --- the outer function: Exit only under EVENT_CANCEL, everything else runs the closure
        sites = outer.aggregates("CallbackCode")
        rep.floor("R22.1", f"CallbackCode sites in TaskState::callback {tag}", len(sites), 1)
        for b, i, rv, s in sites:
            vals = None
            for sb, x, ks, eq in cmp_guards(outer, b):
                if x.get("kind") == "arg" and x["n"] == 2 and not x.get("proj") and eq:
                    vals = ks if vals is None else vals & ks
            rep.ob("R22.1", f"TaskState::callback: {rv['var']} constructed only under event0 = EVENT_CANCEL {tag}",
                   rv["var"] == "Exit" and vals == {EV["EVENT_CANCEL"]},
                   f"site is reachable with event0 in {sorted(vals) if vals else 'any value'}", outer.loc(b))
        run_cl = [call for call in outer.calls("TaskState::with_p3_task_set")
                  if outer.origin(call.args[1]).get("kind") == "agg"
                  and outer.origin(call.args[1])["rv"].get("closure") == f.path]
        rep.floor("R22.1", f"with_p3_task_set(executor closure) call in TaskState::callback {tag}", len(run_cl), 1)
        sw0 = [b for b, t in outer.switches() if outer.switch_origin(b).get("kind") == "arg"
               and outer.switch_origin(b)["n"] == 2 and not outer.switch_origin(b).get("proj")]
        rep.floor("R22.1", f"switch on event0 in TaskState::callback {tag}", len(sw0), 1)
        for b in sw0:
            tg = outer.switch_targets(b)
            for name in EVENTS[:-1]:
                t = tg.get(EV[name], tg["else"])
                rep.ob("R22.1", f"TaskState::callback: {name} runs the executor closure and returns its code {tag}",
                       outer.all_paths_pass(t, outer.returns(), [x.bb for x in run_cl]) and
                       len(run_cl) == 1 and returns_call(outer, run_cl[0], also=["::CallbackCode"]) and
                       not (outer.reachable(t) & {sb for sb, _, _, _ in sites}),
                       "an ordinary event can return without polling, or can reach the cancel answer", outer.loc(b))
            tc = tg.get(EV["EVENT_CANCEL"], tg["else"])
            rep.ob("R22.1", f"TaskState::callback: EVENT_CANCEL answers Exit without polling {tag}",
                   outer.all_paths_pass(tc, outer.returns(), [sb for sb, _, rv, _ in sites if rv["var"] == "Exit"]) and
                   not (outer.reachable(tc) & {x.bb for x in run_cl}) and not diverges(outer, tc),
                   "a cancelled task keeps running instead of being released", outer.loc(b))
            unknown = [v for v in tg if v != "else" and v not in EV.values()]
            rep.ob("R22.1", f"TaskState::callback: event codes outside the table never return {tag}",
                   not unknown and all(v in tg for v in EV.values()) and diverges(outer, tg["else"]),
                   f"unexpected accepted values {unknown}, a table value handled by the default arm, or the default "
                   "arm returns", outer.loc(b))

        # --- the executor closure
        polls = f.calls("Tasks::poll_next")
        rep.floor("R22.1", f"tasks.poll_next call sites {tag}", len(polls), 1)
        exits = f.aggregates("CallbackCode", "Exit")
        waits = wait_sites(c, f)  # inline view: aggregates and calls of a helper that returns Wait(own set)
        yields = f.aggregates("CallbackCode", "Yield")
        rep.floor("R22.1", f"Exit sites in the executor closure {tag}", len(exits), 1)
        rep.floor("R22.1", f"Wait sites in the executor closure {tag}", len(waits), 2)
        rep.floor("R22.1", f"Yield sites in the executor closure {tag}", len(yields), 1)
        allsites = [b for b, _, _, _ in exits + yields] + [b for b, _ in waits]
        rep.ob("R22.1", f"executor: every return passes a CallbackCode construction site {tag}",
               every_return_passes(f, allsites), "a path returns a code that was not decided by a guarded site", f.loc())

        def rw_guard(site, want):
            """a remaining_work() test with outcome `want` guards the site, was evaluated after the poll whose
            outcome guards the site as well, and nothing that can change the waitables map runs in between"""
            for sb, call, truth in call_guards(f, site, "TaskState::remaining_work"):
                if truth != want:
                    continue
                if poll_variant(f, call.bb, "Tasks::poll_next") != poll_variant(f, site, "Tasks::poll_next"):
                    continue
                mid = between(f, call.bb, site)
                if calls_in(f, mid, ["Tasks::poll_next", "TaskState::deliver_waitable_event"]):
                    continue
                return True
            return False

        for b, i, rv, s in exits:
            pv = poll_variant(f, b, "Tasks::poll_next")
            rep.ob("R22.1", f"executor: Exit only under Poll::Ready {tag}", pv == {"Ready"},
                   f"Exit reachable with poll outcome {sorted(pv) if pv else 'unconstrained'}: the task would be freed "
                   "while Rust work is pending", f.loc(b))
            rep.ob("R22.1", f"executor: Exit only under remaining_work() = false tested after the poll {tag}",
                   rw_guard(b, False), "Exit reachable while waitables are still registered", f.loc(b))

        woken_sw = []  # switches that test sleep_state.load() against WOKEN

        def woken_guard(site):
            """-> True / False: the site is guarded by load(sleep_state) == / != WOKEN; None if unguarded"""
            res = None
            for sb, x, ks, eq in cmp_guards(f, site):
                if is_call(x, SLEEP_LOAD) and ".sleep_state" in f.origin(x["call"].args[0]).get("proj", []) \
                        and ks == {WOKEN}:
                    # the load happens after the poll and no store intervenes between load and the site
                    if poll_variant(f, x["call"].bb, "Tasks::poll_next") != {"Pending"}:
                        continue
                    if [w for w in sleep_sites(c, f) if w.bb in between(f, x["call"].bb, sb)]:
                        continue
                    woken_sw.append(sb)
                    res = eq
            return res

        for b, i, rv, s in yields:
            pv = poll_variant(f, b, "Tasks::poll_next")
            rep.ob("R22.1", f"executor: Yield only under Poll::Pending {tag}", pv == {"Pending"},
                   f"Yield reachable with poll outcome {sorted(pv) if pv else 'unconstrained'}", f.loc(b))
            rep.ob("R22.1", f"executor: Yield only when sleep_state = WOKEN after the poll {tag}",
                   woken_guard(b) is True, "Yield reachable without a wake-up during polling", f.loc(b))

        n_ready = n_pending = 0
        for b, own in waits:
            pv = poll_variant(f, b, "Tasks::poll_next")
            arm = "/".join(sorted(pv)) if pv else "unguarded"
            rep.ob("R22.1", f"executor: Wait ({arm} arm) names the task's own waitable set {tag}", own,
                   "the waited set is not <task>.shared.waitable_set", f.loc(b))
            if pv == {"Ready"}:
                n_ready += 1
                rep.ob("R22.1", f"executor: Wait after Poll::Ready only under remaining_work() = true {tag}",
                       rw_guard(b, True), "Wait with no Rust work and no registered waitable: the task never exits",
                       f.loc(b))
            elif pv == {"Pending"}:
                n_pending += 1
                wg = woken_guard(b)
                rep.ob("R22.1", f"executor: Wait after Poll::Pending only when sleep_state != WOKEN {tag}",
                       wg is False, "a task that was woken during polling goes to sleep (lost wake-up)", f.loc(b))
                stores = [x for x in sleep_sites(c, f) if x.store and x.value == SLEEPING
                          and f.dominates(x.bb, b) and x.bb != b]
                reads = [x for x in f.calls("read_inter_task_stream") if f.dominates(x.bb, b)]
                ok = False
                for st in stores:
                    clean = not [w for w in sleep_sites(c, f) if w.bb in between(f, st.bb, b) and w.bb != b]
                    after_test = any(f.dominates(sb, st.bb) for sb in woken_sw)
                    ordered = any(f.dominates(st.bb, r.bb) and r.bb != st.bb for r in reads)
                    ok = ok or (clean and after_test and ordered)
                rep.ob("R22.1", f"executor: Wait after Poll::Pending follows store(SLEEPING) then read_inter_task_stream {tag}",
                       ok, "the task can wait without having published SLEEPING / armed the wake-up stream first",
                       f.loc(b))
            else:
                rep.ob("R22.1", f"executor: Wait is decided by the poll outcome {tag}", False,
                       f"Wait reachable with poll outcome {sorted(pv) if pv else 'unconstrained'}", f.loc(b))
        rep.ob("R22.1", f"executor: one Wait under Ready and one under Pending {tag}", n_ready >= 1 and n_pending >= 1,
               f"{n_ready} under Ready, {n_pending} under Pending", f.loc())

        # --- the polling window: sleep_state is POLLING when poll_next starts, on every turn of the loop
        pst = [x for x in sleep_sites(c, f) if x.store and x.value == POLLING]
        other = [x for x in sleep_sites(c, f) if x.bb not in {y.bb for y in pst}]
        rep.floor("R22.1", f"store(SLEEP_STATE_POLLING) sites {tag}", len(pst), 1)
        S = {x.bb for x in pst}
        for p in polls:
            again = all(f.all_paths_pass(s, [p.bb], S) for s in f.succ[p.bb])
            rep.ob("R22.1", f"executor: store(POLLING) precedes every poll_next, also on re-entry of the loop {tag}",
                   f.set_dominates(S, p.bb) and again,
                   "a poll can start with a stale WOKEN/SLEEPING state: spurious Yield or cross-task write", f.loc(p.bb))
            rep.ob("R22.1", f"executor: no other sleep_state write between store(POLLING) and poll_next {tag}",
                   not any(p.bb in f.reachable(w.bb, avoid=S) for w in other if w.bb != p.bb), "", f.loc(p.bb))
        wst = [x for x in sleep_sites(c, f) if x.store and x.value == WOKEN]
        rep.floor("R22.1", f"store(SLEEP_STATE_WOKEN) on entry {tag}", len(wst), 1)

        # --- delivery of the event triple
        dels = f.calls("TaskState::deliver_waitable_event")
        rep.floor("R22.1", f"deliver_waitable_event sites in the executor {tag}", len(dels), 2)
        kinds = set()
        for d in dels:
            g = [(x, ks, eq) for sb, x, ks, eq in cmp_guards(f, d.bb) if triple(x) is not None]
            e0 = [triple(x) for x, ks, eq in g if ks == {EV["EVENT_NONE"]} and not eq]
            a1, a2 = triple(f.origin(d.args[1])), triple(f.origin(d.args[2]))
            ok = bool(e0) and a1 is not None and a2 is not None and e0[0][:-1] == a1[:-1] == a2[:-1] and \
                (e0[0][-1], a1[-1], a2[-1]) == (0, 1, 2)
            kind = e0[0][0] if e0 else "unknown"
            kinds.add(kind)
            rep.ob("R22.1", f"executor: deliver_waitable_event({kind} event) gets (event1, event2) of a triple whose "
                            f"event0 != EVENT_NONE {tag}", ok,
                   f"guard {e0}, arguments {a1}, {a2}", f.loc(d.bb))
            rep.ob("R22.1", f"executor: after delivering a {kind} event the tasks are polled before answering {tag}",
                   f.all_paths_pass(d.bb, f.returns(), [p.bb for p in polls if p.bb != d.bb]),
                   "an event is consumed and the callback answers without polling the woken future", f.loc(d.bb))
            if kind == "poll":
                pc = [x for x in f.calls("WaitableSet::poll") if x.bb == e0[0][1]]
                rep.ob("R22.1", f"executor: the set polled for further events is the task's own {tag}",
                       bool(pc) and own_set(f, pc[0].args[0]), "", f.loc(d.bb))
        rep.ob("R22.1", f"executor: both the callback's event and polled events are delivered {tag}",
               kinds == {"param", "poll"}, f"kinds {sorted(kinds)}", f.loc())
        for d in dels:
            # the callback's own event is delivered once, before the loop
            a1 = triple(f.origin(d.args[1]))
            if a1 and a1[0] == "param":
                rep.ob("R22.1", f"executor: the callback's event is delivered once (not in the loop) {tag}",
                       not f.in_cycle(d.bb), "", f.loc(d.bb))

        # --- remaining_work() is `!shared.waitables.is_empty()`
        rw = meth(c, "TaskState", "remaining_work")
        rep.saw(rw)
        ie = [x for x in rw.calls(["BTreeMap::is_empty", "BTreeMap::len"])
              if {".waitables", ".shared"} <= set(chase(rw, x.args[0])[0])]
        ret = [s for b in sorted(rw.live) for s in rw.stmts(b)
               if s["k"] == "=" and s["p"]["l"] == 0 and not s["p"].get("p")]
        ok = len(ie) == 1 and ie[0].matches("BTreeMap::is_empty") and len(ret) == 1 and ret[0]["rv"]["k"] == "un" and \
            ret[0]["rv"]["op"] == "Not" and same_call(rw.origin(ret[0]["rv"]["a"]), ie[0])
        rep.ob("R22.1", f"remaining_work() is the negation of shared.waitables.is_empty() {tag}", ok,
               "the Exit/Wait decision does not look at the registered waitables", rw.loc())

        # --- who may construct a CallbackCode
        n = 0
        for g in c.fns.values():
            ag = g.aggregates("CallbackCode")
            if ag:
                ok = g.path in (outer.path, f.path)
                if not ok and wait_helper(g):
                    # a helper that only builds Wait(own set): fine if the executor is its only caller (each call
                    # site was judged above as a Wait site)
                    callers = [(h2, x) for h2 in c.fns.values() for x in h2.calls()
                               if local_callee(c, x) is g]
                    ok = bool(callers) and all(h2.path == f.path for h2, _ in callers)
                    n += len(callers) if ok else len(ag)
                else:
                    n += len(ag)
                rep.ob("R22.1", f"CallbackCode constructed in {short(g)} {tag}",
                       ok, "a callback code is decided outside the executor", g.loc(ag[0][0]))
        rep.floor("R22.1", f"CallbackCode construction sites in the crate {tag}", n, 5)
    rep.guard("R22.1", f"callback-codes {tag}", r1)

    # ------------------------------------------------------------------ R22.2 context slot and release
    def r2():
        f = c.fn("async_support::callback")
        rep.saw(f)
        get = f.one_call("task_state::get")
        inner = f.one_call("TaskState::callback")
        sets = f.calls("task_state::set")
        rep.floor("R22.2", f"task_state::set calls in callback {tag}", len(sets), 2)

        def is_null(op):
            o = root(f, op, PTR_CASTS)
            return is_call(o, ["ptr::null_mut", "ptr::null"]) or (o.get("kind") == "const" and o.get("v") == 0)

        def is_state(op):
            return same_call(root(f, op, PTR_CASTS), get)

        nulls = [s for s in sets if is_null(s.args[0])]
        restores = [s for s in sets if is_state(s.args[0])]
        rep.ob("R22.2", f"callback: every task_state::set stores null or the pointer read by task_state::get {tag}",
               len(nulls) + len(restores) == len(sets), "a foreign pointer is stored in the context slot", f.loc())
        rep.ob("R22.2", f"callback: the receiver of TaskState::callback is the pointer read by task_state::get {tag}",
               is_state(inner.args[0]), "", f.loc(inner.bb))
        rep.ob("R22.2", f"callback: forwards (event0, event1, event2) in order {tag}",
               [f.origin(a).get("n") if f.origin(a).get("kind") == "arg" else None for a in inner.args[1:]] == [1, 2, 3],
               "", f.loc(inner.bb))
        rep.ob("R22.2", f"callback: task_state::set(null) dominates TaskState::callback {tag}",
               f.set_dominates({s.bb for s in nulls}, inner.bb) and bool(nulls),
               "the task state stays reachable through the context slot while the callback runs", f.loc(inner.bb))
        rep.ob("R22.2", f"callback: the slot is not refilled before TaskState::callback {tag}",
               not any(inner.bb in f.reachable(s.bb, avoid={x.bb for x in nulls}) for s in restores), "", f.loc(inner.bb))
        nn = [(b, ft, tt) for b, ft, tt in bool_switches_on_call(f, re.compile(r"::is_null$"))
              if is_state(strip_not(f.switch_origin(b))[0]["call"].args[0])]
        rep.floor("R22.2", f"null test of the state pointer in callback {tag}", len(nn), 1)
        for b, ft, tt in nn:
            rep.ob("R22.2", f"callback: a null state pointer never reaches TaskState::callback {tag}",
                   tt is not None and inner.bb not in f.reachable(tt) and f.dominates(b, inner.bb), "", f.loc(b))

        # which edge is `rc == Exit`
        decision = None
        for b, m, o in discr_switches(f, ty_sub="CallbackCode"):
            if same_call(o.get("of", {}), inner):
                et = variant_target(m, "Exit")
                decision = (b, et, {v: variant_target(m, v) for v in ("Yield", "Wait")})
        how = "discriminant switch"
        if decision is None:
            for pat, positive in (("PartialEq::eq", True), ("PartialEq::ne", False)):
                for b, ft, tt in bool_switches_on_call(f, pat):
                    call = strip_not(f.switch_origin(b))[0]["call"]
                    if not any(same_call(f.origin(a), inner) for a in call.args):
                        continue
                    sv = syn_compared_variant(f, call)
                    rep.saw(file=f.file)
                    if sv is None:
                        continue
                    variant, is_eq = sv
                    how = f"`{'==' if is_eq else '!='} CallbackCode::{variant}` (operand read from the syntax tree)"
                    if is_eq != positive:
                        continue  # the operator at that line is not the call we are looking at
                    if variant == "Exit" and positive:
                        decision = (b, tt, {"Yield/Wait": ft})
                    elif variant == "Exit":
                        decision = (b, ft, {"Yield/Wait": tt})
                    else:
                        decision = (b, None, {})
        rep.ob("R22.2", f"callback: the release decision tests the code returned by TaskState::callback against Exit {tag}",
               decision is not None and decision[1] is not None,
               f"no switch on the returned code compares with CallbackCode::Exit ({how})", f.loc())
        if decision is not None and decision[1] is not None:
            b, et, others = decision
            fr = [x for x in f.calls("Box::from_raw")]
            rep.floor("R22.2", f"Box::from_raw sites in callback {tag}", len(fr), 1)
            rep.ob("R22.2", f"callback: exactly one Box::from_raw, of the state pointer, not in a loop {tag}",
                   len(fr) == 1 and is_state(fr[0].args[0]) and not f.in_cycle(fr[0].bb), f"{len(fr)} sites", f.loc())
            drops = [x.bb for x in f.calls("mem::drop") if any(same_call(f.origin(x.args[0]), y) for y in fr)] + \
                    [db for db, t in f.drops(r"Box<.*TaskState")]
            rep.ob("R22.2", f"callback: Exit => the box is rebuilt and dropped on every path {tag}",
                   bool(fr) and bool(drops) and f.all_paths_pass(et, f.returns(), [x.bb for x in fr]) and
                   f.all_paths_pass(et, f.returns(), drops) and all(f.set_dominates({x.bb for x in fr}, d) for d in drops),
                   "an exiting task is leaked (its destructors never run)", f.loc(b))
            rep.ob("R22.2", f"callback: Exit => task_state::set(state) is not called {tag}",
                   not (f.reachable(et) & {s.bb for s in restores}), "a dangling pointer is left in the context slot", f.loc(b))
            for lbl, ot in sorted(others.items()):
                rep.ob("R22.2", f"callback: {lbl} => task_state::set(state) on every path {tag}",
                       ot is not None and bool(restores) and f.all_paths_pass(ot, f.returns(), [s.bb for s in restores]),
                       "the task state is lost between callbacks", f.loc(b))
                rep.ob("R22.2", f"callback: {lbl} => the task is not released {tag}",
                       ot is not None and not (f.reachable(ot) & set([x.bb for x in fr] + drops)),
                       "a task that will be called back is freed", f.loc(b))
        enc = f.calls("CallbackCode::encode")
        rep.ob("R22.2", f"callback: returns encode(code of TaskState::callback) on every path {tag}",
               len(enc) == 1 and every_return_passes(f, [enc[0].bb]) and same_call(f.origin(enc[0].args[0]), inner) and
               returns_call(f, enc[0]), "", f.loc())

        # start_task
        g = c.fn("async_support::start_task")
        rep.saw(g)
        into = g.one_call("Box::into_raw")
        cb = g.one_call("async_support::callback")
        gsets = g.calls("task_state::set")
        rep.floor("R22.2", f"task_state::set calls in start_task {tag}", len(gsets), 1)
        rep.ob("R22.2", f"start_task: boxes TaskState::new(..) {tag}",
               is_call(root(g, into.args[0], ["Box::new"]), "TaskState::new"), "", g.loc(into.bb))
        rep.ob("R22.2", f"start_task: task_state::set stores the Box::into_raw pointer {tag}",
               all(same_call(root(g, s.args[0], PTR_CASTS), into) for s in gsets), "", g.loc())
        rep.ob("R22.2", f"start_task: task_state::set dominates callback {tag}",
               g.set_dominates({s.bb for s in gsets}, cb.bb) and not any(s.bb in g.reachable(cb.bb) for s in gsets),
               "the first callback finds no task state", g.loc(cb.bb))
        rep.ob("R22.2", f"start_task: the first callback is (EVENT_NONE, 0, 0), called once {tag}",
               [const_arg(g, cb, i) for i in range(3)] == [EV["EVENT_NONE"], 0, 0] and not g.in_cycle(cb.bb), "", g.loc(cb.bb))
        asserts = [(b, ft, tt) for b, ft, tt in bool_switches_on_call(g, re.compile(r"::is_null$"))
                   if is_call(root(g, strip_not(g.switch_origin(b))[0]["call"].args[0], PTR_CASTS), "task_state::get")]
        rep.floor("R22.2", f"`task_state::get().is_null()` test in start_task {tag}", len(asserts), 1)
        for b, ft, tt in asserts:
            rep.ob("R22.2", f"start_task: an occupied context slot is never overwritten {tag}",
                   ft is not None and not (g.reachable(ft) & {s.bb for s in gsets}) and
                   all(g.dominates(b, s.bb) for s in gsets), "", g.loc(b))
        rep.ob("R22.2", f"start_task: returns the code of the first callback {tag}",
               every_return_passes(g, [cb.bb]) and returns_call(g, cb),
               "", g.loc())

        # who may touch the slot / release a TaskState
        n = 0
        for h in c.fns.values():
            ss = h.calls("task_state::set")
            if ss:
                n += len(ss)
                rep.ob("R22.2", f"task_state::set called in {short(h)} {tag}", h.path in (f.path, g.path),
                       "the context slot is written outside start_task / callback", h.loc(ss[0].bb))
            bs = [x for x in h.calls("Box::from_raw")
                  if "TaskState<" in x.ga or any("TaskState<" in t for t in x.arg_types)]
            if bs:
                n += len(bs)
                rep.ob("R22.2", f"Box::<TaskState>::from_raw called in {short(h)} {tag}", h.path == f.path,
                       "a second owner of the boxed task can free it again", h.loc(bs[0].bb))
            fs = [x for x in h.calls(["mem::forget", "ManuallyDrop::new"])
                  if any("TaskState<" in t and "Shared" not in t for t in x.arg_types)]
            if fs:
                n += len(fs)
                rep.ob("R22.2", f"TaskState forgotten in {short(h)} {tag}", False,
                       "destructors of the task never run", h.loc(fs[0].bb))
        rep.floor("R22.2", f"slot writers / releasers found {tag}", n, 4)
    rep.guard("R22.2", f"slot-and-release {tag}", r2)

    # ------------------------------------------------------------------ R22.3 block_on
    def r3():
        f = c.fn("async_support::block_on")
        rep.saw(f)
        cb = f.one_call("TaskState::callback")
        sws = [(b, m, o) for b, m, o in discr_switches(f, ty_sub="CallbackCode") if same_call(o.get("of", {}), cb)]
        rep.floor("R22.3", f"match on the callback code in block_on {tag}", len(sws), 1)
        rep.ob("R22.3", f"block_on: drives the TaskState it created {tag}",
               task_state_root(f, root(f, cb.args[0], [])), "", f.loc(cb.bb))
        for b, m, o in sws:
            et, yt, wt = (variant_target(m, v) for v in ("Exit", "Yield", "Wait"))
            drops = [x.bb for x in f.calls("mem::drop") if any("TaskState<" in t for t in x.arg_types)] + \
                    [db for db, t in f.drops(r"TaskState<") if "Shared" not in t["ty"]]
            rep.ob("R22.3", f"block_on: Exit => the task is dropped, then the result is returned, no further callback {tag}",
                   et is not None and bool(drops) and f.all_paths_pass(et, f.returns(), drops) and
                   cb.bb not in f.reachable(et) and bool(f.reachable(et) & set(f.returns())),
                   "", f.loc(b))
            rep.ob("R22.3", f"block_on: returns only after Exit {tag}",
                   all(r in f.edge_region(b, et) for r in f.returns()) if et is not None else False,
                   "block_on can return while the task is still running", f.loc(b))
            # a Yield may be answered before any waitable exists: skipping the poll is allowed exactly on the
            # `None` edge of a test of the (own) Option<WaitableSet>
            absent = [variant_target(m2, "None") for sb, m2, o2 in discr_switches(f, ty_sub="Option<")
                      if "WaitableSet" in o2["ty"] and variant_target(m2, "None") is not None
                      and ".waitable_set" in chase(f, _place_op(o2))[0]]
            for v, t, want, never, skip in (("Yield", yt, "WaitableSet::poll", "WaitableSet::wait", absent),
                                            ("Wait", wt, "WaitableSet::wait", "WaitableSet::poll", [])):
                if t is None:
                    rep.ob("R22.3", f"block_on: {v} arm exists {tag}", False, "", f.loc(b))
                    continue
                reg = f.edge_region(b, t)
                w = calls_in(f, reg, want)
                rep.ob("R22.3", f"block_on: {v} => {want.split('::')[1]}s the task's own set and calls back with that event {tag}",
                       len(w) >= 1 and not calls_in(f, reg, never) and
                       f.all_paths_pass(t, [cb.bb], [x.bb for x in w] + skip) and
                       not (f.reachable(t, avoid=[cb.bb]) & set(f.returns()))
                       and all(own_set(f, x.args[0]) for x in w),
                       f"{len(w)} {want} call(s) in the arm; {len(calls_in(f, reg, never))} {never} call(s)", f.loc(b))
        for nm in ("poll", "wait"):
            h = c.method("WaitableSet", nm)
            rep.saw(h)
            rep.ob("R22.3", f"WaitableSet::{nm} returns (event0, payload[0], payload[1]) of the built-in {tag}",
                   ws_triple(h, nm), "the event triple handed to the executor is permuted or not the built-in's", h.loc())
        # the event passed to the callback: (EVENT_NONE,0,0) first, afterwards what poll/wait returned
        # resolved component-wise, so a tuple local and three separate locals are judged alike
        def comp(l, proj, idx, out, depth=0):
            if depth > 8:
                out.append("other")
                return
            for bb, i, kind, payload in f.defs.get(l, []):
                if kind == "partial":
                    out.append("other")
                elif kind == "call":
                    out.append("set" if mir.Call(bb, payload).matches(["WaitableSet::poll", "WaitableSet::wait"])
                               and proj == [f".{idx}"] else "other")
                elif payload["k"] == "agg" and "tuple" in payload and len(proj) == 1 and proj[0] == f".{idx}" \
                        and idx < len(payload["ops"]):
                    operand(payload["ops"][idx], [], idx, out, depth + 1)
                elif payload["k"] == "use":
                    operand(payload["o"], proj, idx, out, depth + 1)
                else:
                    out.append("other")

        def operand(op, proj, idx, out, depth=0):
            if "c" in op:
                want = EV["EVENT_NONE"] if idx == 0 else 0
                out.append("none" if not proj and "v" in op and int(op["v"]) == want else "other")
                return
            pl = op.get("cp") or op.get("mv")
            if pl is None:
                out.append("other")
                return
            comp(pl["l"], list(pl.get("p", [])) + proj, idx, out, depth)
        kinds = []
        ok = len(cb.args) == 4
        for idx, a in enumerate(cb.args[1:]):
            ks = []
            operand(a, [], idx, ks)
            kinds.append(ks)
            ok = ok and "other" not in ks and ks.count("none") >= 1 and ks.count("set") >= 2
        rep.ob("R22.3", f"block_on: the callback receives (EVENT_NONE,0,0) first and then exactly the polled/waited event {tag}",
               ok, f"definitions of the event triple: {kinds}", f.loc(cb.bb))
    rep.guard("R22.3", f"block_on {tag}", r3)

    # ------------------------------------------------------------------ R22.4 tables
    def r4():
        for i, name in enumerate(EVENTS):
            rep.ob("R22.4", f"{name} = {i} {tag}", EV[name] == i, f"value {EV[name]}", "")
        adt = c.adt("CallbackCode")
        rep.ob("R22.4", f"CallbackCode has the variants Exit, Yield, Wait(u32) {tag}",
               [(v["name"], [t for _, t in v["fields"]]) for v in adt["variants"]] ==
               [("Exit", []), ("Yield", []), ("Wait", ["u32"])], str(adt["variants"]), "")
        f = c.method("CallbackCode", "encode")
        rep.saw(f)

        def sym(o):
            k = o.get("kind")
            if k == "const":
                return ("c", o.get("v"))
            if k == "bin":
                a, b = sym(o["a"]), sym(o["b"])
                if o["op"] in ("BitOr", "Add") and repr(a) > repr(b):
                    a, b = b, a
                return ("|" if o["op"] in ("BitOr", "Add") else o["op"], a, b)
            if k == "arg":
                return ("arg", o["n"], tuple(p for p in o.get("proj", []) if p.startswith(".") or p.startswith("as ")))
            return (k,)

        def bin_origin(rv):
            if rv["k"] == "bin":
                return {"kind": "bin", "op": rv["op"], "a": f.origin(rv["a"]), "b": f.origin(rv["b"])}
            if rv["k"] == "use":
                return f.origin(rv["o"])
            return {"kind": rv["k"]}
        sws = [(b, m, o) for b, m, o in discr_switches(f, ty_sub="CallbackCode")
               if o.get("of", {}).get("kind") == "arg" and o["of"]["n"] == 1]
        rep.floor("R22.4", f"match on self in CallbackCode::encode {tag}", len(sws), 1)
        want = {"Exit": lambda s: s == ("c", 0), "Yield": lambda s: s == ("c", 1),
                "Wait": lambda s: len(s) == 3 and s[0] == "|" and ("c", 2) in s[1:] and
                any(len(x) == 3 and x[0] == "Shl" and x[1][0] == "arg" and x[1][1] == 1 and ".0" in x[1][2]
                    and x[2] == ("c", 4) for x in s[1:])}
        for b, m, o in sws:
            for v in ("Exit", "Yield", "Wait"):
                t = variant_target(m, v)
                reg = f.edge_region(b, t) if t is not None else set()
                vals = []
                for bb in sorted(reg):
                    for s in f.stmts(bb):
                        if s["k"] == "=" and s["p"]["l"] == 0 and not s["p"].get("p"):
                            vals.append(sym(bin_origin(s["rv"])))
                rep.ob("R22.4", f"CallbackCode::encode({v}) = {'0' if v == 'Exit' else '1' if v == 'Yield' else '2 | (set << 4)'} {tag}",
                       len(vals) == 1 and want[v](vals[0]), f"returned value(s): {vals}", f.loc(b))
    rep.guard("R22.4", f"tables {tag}", r4)

    # ------------------------------------------------------------------ R22.5 destructor under the p3 task scope
    def r5():
        f = meth(c, "TaskState", "drop", trait="Drop")
        rep.saw(f)
        w = meth(c, "TaskState", "with_p3_task_set")
        rep.saw(w)
        cancel = f.call_blocks("cancel_inter_task_stream_read")
        rep.floor("R22.5", f"cancel_inter_task_stream_read call in Drop for TaskState {tag}", len(cancel), 1)
        # only publishing a sleep state (an atomic write to shared.sleep_state) may precede the cancellation:
        # everything that can run destructors or user code comes after it
        quiet = {x.bb for x in sleep_sites(c, f)} | {x.bb for x in f.calls(DEREF)}
        rep.ob("R22.5", f"Drop for TaskState: the wakeup read is cancelled before anything is destroyed {tag}",
               all(f.set_dominates(set(cancel), x.bb) for x in f.calls() if x.bb not in cancel and x.bb not in quiet) and
               all(f.set_dominates(set(cancel), b) for b, t in f.drops()),
               "tasks can be destroyed (or the p3 scope entered) while the wake-up stream read is still pending", f.loc())
        sw = bool_switches_on_call(f, "Tasks::is_empty")
        rep.floor("R22.5", f"tasks.is_empty() test in Drop for TaskState {tag}", len(sw), 1)
        scoped = [x for x in f.calls("TaskState::with_p3_task_set")]
        cls = c.closures_of(f)
        dropper = [g for g in cls if g.drops(r"::Tasks<")]
        for b, ft, tt in sw:
            ok = bool(scoped) and ft is not None and f.all_paths_pass(ft, f.returns(), [x.bb for x in scoped]) and \
                all(f.origin(x.args[1]).get("kind") == "agg" and
                    f.origin(x.args[1])["rv"].get("closure") in [g.path for g in dropper] for x in scoped)
            rep.ob("R22.5", f"Drop for TaskState: pending tasks are destroyed inside with_p3_task_set {tag}", ok,
                   "futures are dropped without a current p3 task: their waitables cannot be unregistered", f.loc(b))
        for g in dropper:
            rep.saw(g)
            db = [b for b, t in g.drops(r"::Tasks<") if t["p"].get("p") and t["p"]["p"][-1] == ".tasks"]
            rep.ob("R22.5", f"Drop for TaskState: the scoped closure destroys `tasks` on every path {tag}",
                   bool(db) and every_return_passes(g, db), "", g.loc())
        rep.floor("R22.5", f"closure of Drop for TaskState that destroys the tasks {tag}", len(dropper), 1)
        rep.ob("R22.5", f"Drop for TaskState: `tasks` is not destroyed outside the scoped closure {tag}",
               not f.drops(r"::Tasks<") and not f.calls(["mem::take", "mem::replace", "mem::swap"]), "", f.loc())

        # with_p3_task_set
        sets = w.calls("cabi::wasip3_task_set")
        rep.floor("R22.5", f"wasip3_task_set call in with_p3_task_set {tag}", len(sets), 1)
        guards = w.aggregates("ResetTask")
        rep.floor("R22.5", f"ResetTask construction in with_p3_task_set {tag}", len(guards), 1)
        invoke = [x for x in w.calls(re.compile(r"FnOnce(<.*>)?::call_once$")) if w.origin(x.args[0]).get("kind") == "arg"
                  and w.origin(x.args[0])["n"] == 2]
        rep.floor("R22.5", f"invocation of `f` in with_p3_task_set {tag}", len(invoke), 1)
        gd = [b for b, t in w.drops(r"ResetTask")]
        for x in sets:
            o = w.origin(x.args[0])
            while is_call(o, PTR_CASTS):
                o = w.origin(o["call"].args[0])
            v2 = o.get("rv", {}) if o.get("kind") == "agg" else {}
            v1 = w.origin(v2["ops"][0]) if v2.get("ops") else {}
            v1 = v1.get("rv", {}) if v1.get("kind") == "agg" else {}
            ok = v2.get("adt", "").endswith("wasip3_task_v2") and v1.get("adt", "").endswith("wasip3_task")
            if ok:
                idx = [n for n, _ in c.adt("wasip3_task")["variants"][0]["fields"]].index("ptr")
                fields, term = chase(w, v1["ops"][idx], PTR_CASTS + [DEREF])
                ok = ".shared" in fields and term.get("kind") == "arg" and term["n"] == 1
            rep.ob("R22.5", f"with_p3_task_set: the installed task points at this task's shared state {tag}", ok,
                   "waitables registered while polling / dropping land in another task's set", w.loc(x.bb))
        for b, i, rv, s in guards:
            o = w.origin(rv["ops"][0])
            rep.ob("R22.5", f"with_p3_task_set: the guard holds the pointer returned by wasip3_task_set {tag}",
                   is_call(o, "cabi::wasip3_task_set"), "the previous task is not what gets restored", w.loc(b))
        for x in invoke:
            rep.ob("R22.5", f"with_p3_task_set: task installed and guard armed before `f` runs {tag}",
                   w.set_dominates({b for b, _, _, _ in guards}, x.bb) and w.set_dominates({s.bb for s in sets}, x.bb),
                   "", w.loc(x.bb))
            rep.ob("R22.5", f"with_p3_task_set: the guard is dropped after `f` on every path {tag}",
                   bool(gd) and all(w.all_paths_pass(s, w.returns(), gd) for s in w.succ[x.bb]) and
                   not any(b in w.reachable(0, avoid=[x.bb]) for b in gd),
                   "the previous task is restored before `f` ran, or never", w.loc(x.bb))
            rep.ob("R22.5", f"with_p3_task_set: `f` receives self and its result is returned {tag}",
                   returns_call(w, x) and w.origin(x.args[1]).get("kind") == "agg" and
                   [w.origin(op).get("n") for op in w.origin(x.args[1])["rv"]["ops"]] == [1], "", w.loc(x.bb))
        rep.ob("R22.5", f"with_p3_task_set: the guard is never forgotten {tag}",
               not w.calls(["mem::forget", "ManuallyDrop::new"]), "", w.loc())
        d = meth(c, "ResetTask", "drop", trait="Drop")
        rep.saw(d)
        rs = [x for x in d.calls("cabi::wasip3_task_set")
              if d.origin(x.args[0]).get("kind") == "arg" and ".0" in d.origin(x.args[0]).get("proj", [])]
        rep.ob("R22.5", f"ResetTask::drop restores the saved pointer on every path {tag}",
               len(rs) == 1 and every_return_passes(d, [rs[0].bb]) and len(d.calls("cabi::wasip3_task_set")) == 1,
               "", d.loc())
    rep.guard("R22.5", f"destructor-scope {tag}", r5)

    # ------------------------------------------------------------------ R22.6 spawned work finishes before Ready
    def r6():
        f = c.method("Tasks", "poll_next")
        rep.saw(f)
        spawn = "spawn_disabled" not in f.path
        if cfg == "full":
            rep.ob("R22.6", f"the full config analyses the async-spawn executor {tag}", spawn, f.path, f.loc())
        ready = [(b, i, rv, s) for b, i, rv, s in f.aggregates("Poll", "Ready")]
        rep.floor("R22.6", f"Poll::Ready sites in Tasks::poll_next {tag}", len(ready), 1)
        e = c.method("Tasks", "is_empty")
        rep.saw(e)
        if spawn:
            inner = f.calls("poll_next_unpin") + f.calls(re.compile(r"FuturesUnordered.*::poll_next$"))
            rep.floor("R22.6", f"FuturesUnordered poll sites {tag}", len(inner), 1)
            ext = f.calls(re.compile(r"Extend(<.*>)?>::extend$")) + f.calls(["FuturesUnordered::push"])
            rep.floor("R22.6", f"sites adding spawned futures to the set {tag}", len(ext), 1)
            chk = [x for x in f.calls(["Vec::is_empty", "Vec::len"])]
            rep.floor("R22.6", f"SPAWNED.is_empty() test {tag}", len(chk), 1)
            P = [x.bb for x in inner]
            for b, i, rv, s in ready:
                names = None
                for sb, o, ns in discr_guards(f, b):
                    of = o.get("of", {})
                    if of.get("kind") == "call" and of["call"].bb in P:
                        inner_opt = any(p.startswith(".") for p in of.get("proj", []))
                        if inner_opt:
                            names = ns
                pv = None
                for sb, o, ns in discr_guards(f, b):
                    of = o.get("of", {})
                    if of.get("kind") == "call" and of["call"].bb in P and not any(p.startswith(".") for p in of.get("proj", [])):
                        pv = ns
                rep.ob("R22.6", f"spawn::Tasks::poll_next: Ready(()) only when the set reported Ready(None) {tag}",
                       pv == {"Ready"} and names == {"None"},
                       f"outer {sorted(pv) if pv else None}, inner {sorted(names) if names else None}", f.loc(b))
                rep.ob("R22.6", f"spawn::Tasks::poll_next: SPAWNED is examined between the poll and Ready(()) {tag}",
                       all(f.all_paths_pass(s2, [b], [x.bb for x in chk]) for p in P for s2 in f.succ[p]),
                       "work spawned by the last poll is forgotten", f.loc(b))
            for x in ext:
                rep.ob("R22.6", f"spawn::Tasks::poll_next: newly spawned work is polled before any return {tag}",
                       not (flag_reach(f, f.succ[x.bb], set(P)) & set(f.returns())),
                       "the executor can report Ready/Pending with unpolled spawned futures (no waker registered, "
                       "or exit with work left)", f.loc(x.bb))
            sw = bool_switches_on_call(f, "Vec::is_empty")
            for b, ft, tt in sw:
                rep.ob("R22.6", f"spawn::Tasks::poll_next: a non-empty SPAWNED is drained into the set {tag}",
                       ft is not None and bool(ext) and any(x.bb in f.edge_region(b, ft) for x in ext) and
                       bool(calls_in(f, f.edge_region(b, ft), "Vec::drain")), "", f.loc(b))
            rep.floor("R22.6", f"switch on SPAWNED.is_empty() {tag}", len(sw), 1)
            rep.ob("R22.6", f"spawn::Tasks::is_empty is FuturesUnordered::is_empty of the set {tag}",
                   len(e.calls("FuturesUnordered::is_empty")) == 1 and
                   every_return_passes(e, e.call_blocks("FuturesUnordered::is_empty")) and
                   returns_call(e, e.calls("FuturesUnordered::is_empty")[0]), "", e.loc())
        else:
            polls = f.calls("Future::poll")
            rep.floor("R22.6", f"Future::poll sites in spawn_disabled {tag}", len(polls), 1)
            for b, i, rv, s in ready:
                g = call_guards(f, b, ["Tasks::is_empty", "Option::is_none"])
                rep.ob("R22.6", f"spawn_disabled::Tasks::poll_next: Ready(()) only when the future is gone {tag}",
                       any(t for _, _, t in g) and
                       all(f.all_paths_pass(s2, [b], [cl.bb for _, cl, t in g if t]) for p in polls for s2 in f.succ[p.bb]),
                       "Ready is reported while the root future is still stored (or the test precedes the poll)", f.loc(b))
            clears = [(b, i, s) for b, i, s in f.field_stores("future") if f.stores_variant(s, "None")]
            rep.floor("R22.6", f"`future = None` stores in spawn_disabled {tag}", len(clears), 1)
            for b, i, s in clears:
                g = call_guards(f, b, "Poll::is_ready")
                pg = poll_variant(f, b, "Future::poll")
                rep.ob("R22.6", f"spawn_disabled::Tasks::poll_next: the future is discarded only after it returned Ready {tag}",
                       (any(t and is_call(f.origin(cl.args[0]), "Future::poll") for _, cl, t in g)) or pg == {"Ready"},
                       "a pending future is dropped and the task reports completion", f.loc(b))
            rep.ob("R22.6", f"spawn_disabled::Tasks::is_empty is `future.is_none()` {tag}",
                   len(e.calls("Option::is_none")) == 1 and
                   ".future" in e.origin(e.calls("Option::is_none")[0].args[0]).get("proj", []) and
                   returns_call(e, e.calls("Option::is_none")[0]), "", e.loc())
    rep.guard("R22.6", f"tasks {tag}", r6)

    # ------------------------------------------------------------------ R22.7 TaskCancelOnDrop
    def r7():
        f = c.method("TaskCancelOnDrop", "drop", trait="Drop")
        rep.saw(f)
        shims = [x for x in f.calls() if mir.norm(x.callee).startswith(f.npath + "::")]
        rep.floor("R22.7", f"built-in call in Drop for TaskCancelOnDrop {tag}", len(shims), 1)
        rep.ob("R22.7", f"TaskCancelOnDrop::drop calls the cancel built-in exactly once on every path {tag}",
               len(shims) == 1 and every_return_passes(f, [shims[0].bb]) and not f.in_cycle(shims[0].bb),
               f"{len(shims)} call(s)", f.loc())
        # the link name (not visible in native MIR) from the syntax tree
        tree = syn_file(f.file)
        rep.saw(file=f.file)
        names = []
        for it in tree["items"]:
            if it.get("k") == "impl" and it.get("trait") == "Drop" and it.get("self_ty", "").startswith("TaskCancelOnDrop"):
                for n in walk(it):
                    if n.get("k") == "foreign_mod":
                        for ff in n["items"]:
                            if ff.get("k") == "foreign_fn":
                                names.append((ff["sig"]["name"], " ".join(ff["attrs"]), " ".join(n["attrs"])))
        callee = mir.norm(shims[0].callee).split("::")[-1] if shims else None
        hit = [x for x in names if x[0] == callee]
        rep.ob("R22.7", f"TaskCancelOnDrop::drop: the built-in is `[task-cancel]` of `[export]$root` {tag}",
               len(hit) == 1 and '"[task-cancel]"' in hit[0][1] and '"[export]$root"' in hit[0][2], str(names), f.loc())
        g = c.method("TaskCancelOnDrop", "forget")
        rep.saw(g)
        fg = g.calls("mem::forget")
        rep.ob("R22.7", f"TaskCancelOnDrop::forget forgets self on every path (no cancel after task.return) {tag}",
               len(fg) == 1 and every_return_passes(g, [fg[0].bb]) and g.origin(fg[0].args[0]).get("kind") == "arg" and
               not g.drops(r"TaskCancelOnDrop"), "", g.loc())
        rep.ob("R22.7", f"TaskCancelOnDrop is not Clone/Copy {tag}",
               not c.impls_of("Clone", r"TaskCancelOnDrop") and not c.impls_of("Copy", r"TaskCancelOnDrop"), "", "")
        n = 0
        for h in c.fns.values():
            for b, i, rv, s in h.aggregates("TaskCancelOnDrop"):
                n += 1
                rep.ob("R22.7", f"TaskCancelOnDrop constructed in {short(h)} {tag}",
                       h.npath.endswith("TaskCancelOnDrop::new"), "", h.loc(b))
        rep.floor("R22.7", f"TaskCancelOnDrop construction sites {tag}", n, 1)
    rep.guard("R22.7", f"cancel-on-drop {tag}", r7)

    # ------------------------------------------------------------------ R22.8 the waitable set is unwrapped only where it exists
    def r8():
        outer, f = executor()
        g = c.fn("async_support::block_on")
        n = 0
        for ub in set_unwrap_sites(c, f):
            n += 1
            call = Site(ub, None, False, None)
            pv = poll_variant(f, call.bb, "Tasks::poll_next")
            why = []
            if any(t for _, _, t in call_guards(f, call.bb, "TaskState::remaining_work")):
                why.append("remaining_work() = true")
            if any(f.dominates(x.bb, call.bb) for x in f.calls("read_inter_task_stream")):
                why.append("after read_inter_task_stream")
            wg = [eq for sb, x, ks, eq in cmp_guards(f, call.bb)
                  if is_call(x, SLEEP_LOAD) and ks == {WOKEN}]
            where = f"{'/'.join(sorted(pv)) if pv else 'any'} arm" + (", woken" if True in wg else ", not woken" if False in wg else "")
            rep.ob("R22.8", f"executor ({where}): waitable_set is unwrapped only where the set must exist {tag}",
                   bool(why), "the Option<WaitableSet> is None until the first waitable is registered: this unwrap "
                   "traps for a task that has not registered any", f.loc(call.bb))
        rep.floor("R22.8", f"unwraps of the waitable set in the executor {tag}", n, 3)
        n_exec = n
        cb = g.one_call("TaskState::callback")
        for call in set_unwraps(g):
            n += 1
            arms = set()
            for sb, o, ns in discr_guards(g, call.bb):
                if same_call(o.get("of", {}), cb):
                    arms = ns
            where = "/".join(sorted(arms)) if arms else "unguarded"
            rep.ob("R22.8", f"block_on ({where} arm): waitable_set is unwrapped only where the set must exist {tag}",
                   arms == {"Wait"},
                   "the executor answers Yield also when remaining_work() = false and no waitable was ever registered "
                   "(e.g. block_on(async { yield_async().await })): waitable_set is still None and this unwrap traps",
                   g.loc(call.bb))
        rep.floor("R22.8", f"unwraps of the waitable set in block_on {tag}", n - n_exec, 1)
        # the set, once created, is never taken away (so remaining_work() = true implies it exists, with C18 R18.4)
        m = 0
        for h in c.fns.values():
            for call in h.calls(re.compile(r"as core::ops::DerefMut>::deref_mut$")):
                if any("Option<rt::async_support::waitable_set::WaitableSet>" in t for t in call.arg_types):
                    m += 1
                    users = [x for x in h.calls(["Option::get_or_insert_with", "Option::get_or_insert"])
                             if same_call(root(h, x.args[0], []), call)]
                    rep.ob("R22.8", f"mutable access to waitable_set in {short(h)} only creates the set {tag}",
                           len(users) == 1 and
                           not h.calls(["Option::take", "Option::replace", "Option::insert", "mem::take", "mem::replace"]),
                           "the waitable set can be removed or replaced while waitables are registered", h.loc(call.bb))
        rep.floor("R22.8", f"mutable accesses to waitable_set {tag}", m, 1)
    rep.guard("R22.8", f"set-presence {tag}", r8)
