"""C18 — async runtime registers, delivers and unregisters waitables exactly (structural clauses)."""
from lib import mir
from .rtcommon import (configs, rt, every_return_passes, bool_switches_on_call, discr_switches, variant_target,
                       calls_in, ind_calls, inline_sites, site_dominated, site_after, sites_on_all_paths_after,
                       every_return_passes_site, callers_of)

CLAIM = dict(
    level="other", engine="mirfacts+witness", design="DESIGN.md §5 C18",
    technique="MIR dominator / must-pass-through / who-may-write rules with an inline view through private same-crate "
              "helpers and closures passed to them (visibility read from the syntax tree) + compile_fail witnesses (!Unpin)",
    text="Static path rules on the runtime crate's MIR: the waitable leaves the set before the cancel built-in on "
         "every path, delivery removes it from sets and map before the single callback, register/unregister always "
         "update both set and map, only three functions (or private helpers called only by them) mutate the map, Drop of an unfinished operation always "
         "cancels, moving between tasks never registers before leaving. Partial: schedules are not explored.",
    note="mir")

MUT_MAP = ["BTreeMap::insert", "BTreeMap::remove", "BTreeMap::clear", "BTreeMap::retain", "BTreeMap::entry",
           "BTreeMap::append", "BTreeMap::pop_first", "BTreeMap::pop_last", "BTreeMap::get_mut",
           "BTreeMap::iter_mut", "BTreeMap::values_mut", "BTreeMap::remove_entry", "BTreeMap::split_off",
           "BTreeMap::extract_if", "BTreeMap::first_entry", "BTreeMap::last_entry", "BTreeMap::try_insert",
           "BTreeMap::into_iter", "BTreeMap::into_values", "BTreeMap::into_keys"]


def run(rep, tier):
    rep.describe(
        "other",
        "Decides structural necessary conditions of C18 on the MIR of the runtime crate: the operation leaves the "
        "waitable set (unregister_waker, or a delivered completion) on every path before the cancel built-in; "
        "delivery removes the waitable from all sets and from the task's map before the callback and calls it once; "
        "register/unregister always touch both the set and the map; only three functions mutate the map; dropping an "
        "unfinished operation always cancels; a CabiTask unregisters on drop; moving to another task never registers "
        "before leaving the old one. It does NOT decide behaviour under a concrete interleaving or the host's side.",
        trusted_base=["rustc nightly MIR (opt-level 0) of crates/guest-rust", "unwind edges ignored (panic = trap)",
                      "tools/mirfacts"],
        assumptions=["native (x86_64) build of the runtime: extern_wasm! built-ins appear as shim functions"],
    )
    for cfg in configs(tier):
        rep.guard("R18", f"config:{cfg}", lambda cfg=cfg: one(rep, rt(cfg), cfg))
    if tier == "thorough" or True:
        from .witness import run_witness
        rep.guard("R18.11", "witness", lambda: run_witness(rep, "C18", "R18.11"))


def map_calls(g, pat):
    """blocks of g calling a BTreeMap method matching pat on the `waitables` map (value type CabiWaitable)."""
    return [x.bb for x in g.calls(pat) if x.arg_types and "CabiWaitable" in x.arg_types[0]]


def is_private(f):
    """the function is not `pub` (syntax facts; unknown -> False): it cannot be reached from outside the crate."""
    from lib import synq
    name = f.npath.split("::")[-1]
    for x in synq.all_fns(f.file):
        sp = x.node.get("sp") or []
        if x.name == name and len(sp) >= 3 and sp[0] <= f.line <= sp[2] and sp[2] == f.d["sp"].get("el"):
            return x.node.get("vis", "pub") != "pub"
    return False


def one(rep, c, cfg):
    tag = f"[{cfg}]"

    # R18.1 leave the set before cancelling
    def r1():
        f = c.method("WaitableOperation", "cancel")
        rep.saw(f)
        A = f.call_blocks("WaitableOperation::unregister_waker") + f.call_blocks("WaitableOperation::poll_complete_with_code")
        B = f.call_blocks("WaitableOp::in_progress_cancel")
        rep.floor("R18.1", f"in_progress_cancel sites {tag}", len(B), 1)
        unreg = f.call_blocks("WaitableOperation::unregister_waker")
        rep.floor("R18.1", f"unregister_waker sites in cancel {tag}", len(unreg), 1)
        for b in B:
            rep.ob("R18.1", f"cancel: leaves waitable set before in_progress_cancel {tag}",
                   f.set_dominates(set(A), b),
                   "a path reaches the cancel built-in without unregister_waker and without a delivered completion code",
                   f.loc(b))
        # the delivered-code alternative must be on the Some(code) edge of completion_status.code.take()
        ok = False
        for b, m, o in discr_switches(f, ty_sub="Option<u32>"):
            of = o.get("of", {})
            if of.get("kind") == "call" and of["call"].matches("Option::take"):
                none_t = variant_target(m, "None")
                some_t = variant_target(m, "Some")
                rn = f.edge_region(b, none_t)
                rs = f.edge_region(b, some_t)
                ok = bool(calls_in(f, rn, "WaitableOperation::unregister_waker")) and \
                    not calls_in(f, rn, "WaitableOperation::poll_complete_with_code") and \
                    bool(calls_in(f, rs, "WaitableOperation::poll_complete_with_code"))
        rep.ob("R18.1", f"cancel: None(code) arm unregisters, Some(code) arm processes the delivered code {tag}", ok,
               "the arms of `completion_status.code.take()` do not have the expected effects", f.loc())
    rep.guard("R18.1", f"cancel {tag}", r1)

    # R18.2 deliver_waitable_event
    def r2():
        f = c.method("TaskState", "deliver_waitable_event")
        rep.saw(f)
        # inline view: private helpers of the runtime (and closures handed to them) are looked through
        kn = ["WaitableSet::remove_waitable_from_all_sets"]
        rm_sets = inline_sites(c, f, lambda g: g.call_blocks("WaitableSet::remove_waitable_from_all_sets"), kn)
        rm_map = inline_sites(c, f, lambda g: map_calls(g, "BTreeMap::remove"), kn)
        cbs = inline_sites(c, f, lambda g: [x.bb for x in ind_calls(g, "callback")], kn)
        rep.floor("R18.2", f"callback call in deliver_waitable_event {tag}", len(cbs), 1)
        rep.floor("R18.2", f"map removal in deliver_waitable_event {tag}", len(rm_map), 1)
        for s in rm_map + cbs:
            rep.ob("R18.2", f"deliver: remove_waitable_from_all_sets dominates bb-kind {'callback' if s in cbs else 'map-remove'} {tag}",
                   site_dominated(rm_sets, s), "the waitable can still be in a set when delivered", s.loc())
        for s in cbs:
            rep.ob("R18.2", f"deliver: map removal dominates callback {tag}", site_dominated(rm_map, s),
                   "callback may run while the entry is still registered", s.loc())
            rep.ob("R18.2", f"deliver: callback not in a loop {tag}", s.once(),
                   "completion could be delivered more than once", s.loc())
        rep.ob("R18.2", f"deliver: exactly one callback site {tag}", len(cbs) == 1, f"{len(cbs)} sites", f.loc())
    rep.guard("R18.2", f"deliver {tag}", r2)

    # R18.3 / R18.4
    def r34():
        f = c.method("SharedTaskState", "waitable_unregister")
        rep.saw(f)
        rep.ob("R18.3", f"waitable_unregister: every return passes remove_waitable_from_all_sets {tag}",
               every_return_passes(f, f.call_blocks("WaitableSet::remove_waitable_from_all_sets")) and
               bool(f.call_blocks("WaitableSet::remove_waitable_from_all_sets")), "", f.loc())
        rep.ob("R18.3", f"waitable_unregister: every return passes BTreeMap::remove {tag}",
               every_return_passes_site(f, inline_sites(
                   c, f, lambda g: map_calls(g, "BTreeMap::remove"), ["WaitableSet::remove_waitable_from_all_sets"])),
               "", f.loc())
        g = c.method("SharedTaskState", "waitable_register")
        rep.saw(g)
        rep.ob("R18.4", f"waitable_register: every return passes add_waitable {tag}",
               every_return_passes(g, g.call_blocks("SharedTaskState::add_waitable")) and
               bool(g.call_blocks("SharedTaskState::add_waitable")), "", g.loc())
        rep.ob("R18.4", f"waitable_register: every return passes BTreeMap::insert {tag}",
               every_return_passes_site(g, inline_sites(
                   c, g, lambda h: map_calls(h, "BTreeMap::insert"), ["SharedTaskState::add_waitable"])),
               "", g.loc())
        h = c.method("SharedTaskState", "add_waitable")
        rep.saw(h)
        rep.ob("R18.4", f"add_waitable: every return passes WaitableSet::join {tag}",
               every_return_passes(h, h.call_blocks("WaitableSet::join")) and bool(h.call_blocks("WaitableSet::join")),
               "", h.loc())
        # cabi entry points forward to the two methods
        for nm, tgt in (("cabi_waitable_register", "SharedTaskState::waitable_register"),
                        ("cabi_waitable_unregister", "SharedTaskState::waitable_unregister")):
            k = c.method("SharedTaskState", nm)
            rep.saw(k)
            rep.ob("R18.4", f"{nm} forwards to {tgt} on every path {tag}",
                   every_return_passes(k, k.call_blocks(tgt)) and bool(k.call_blocks(tgt)), "", k.loc())
    rep.guard("R18.3", f"register/unregister {tag}", r34)

    # R18.5 who may mutate SharedTaskState.waitables
    def r5():
        allowed = [c.method("SharedTaskState", "waitable_register"), c.method("SharedTaskState", "waitable_unregister"),
                   c.method("TaskState", "deliver_waitable_event")]

        def may_write(f, depth=2):
            """one of the three functions, a closure of one, or a private (non-`pub`) helper, never used as a value,
            that is only ever called from functions that may write."""
            if any(f is a or f.path.startswith(a.path + "::{closure") for a in allowed):
                return True
            if depth <= 0:
                return False
            callers, taken = callers_of(c, f)
            return bool(callers) and not taken and is_private(f) and all(may_write(h, depth - 1) for h in callers)
        nsite = {"insert": 0, "remove": 0}
        for f in c.fns.values():
            for call in f.calls(MUT_MAP):
                at = call.arg_types
                if at and "CabiWaitable" in at[0]:
                    m = mir.norm(call.callee).split('::')[-1]
                    if m in nsite:
                        nsite[m] += 1
                    rep.ob("R18.5", f"map mutation {m} in {f.npath.split('::')[-1]} {tag}", may_write(f),
                           "SharedTaskState.waitables is mutated outside register/unregister/deliver", f.loc(call.bb))
        # structural minimum: one insertion and one removal (two removals may share a helper)
        rep.floor("R18.5", f"insert sites of the waitables map {tag}", nsite["insert"], 1)
        rep.floor("R18.5", f"remove sites of the waitables map {tag}", nsite["remove"], 1)
    rep.guard("R18.5", f"only_writers {tag}", r5)

    # R18.6 Drop for WaitableOperation
    def r6():
        f = c.method("WaitableOperation", "drop", trait="Drop")
        rep.saw(f)
        sw = bool_switches_on_call(f, "WaitableOperation::is_done")
        rep.floor("R18.6", f"is_done test in Drop for WaitableOperation {tag}", len(sw), 1)
        for b, ft, tt in sw:
            rep.ob("R18.6", f"drop: is_done()=false => cancel on every path {tag}",
                   f.all_paths_pass(ft, f.returns(), f.call_blocks("WaitableOperation::cancel")) and
                   bool(f.call_blocks("WaitableOperation::cancel")),
                   "an unfinished operation can be dropped without being cancelled", f.loc(b))
        # every return is preceded by the is_done test or a cancel
        rep.ob("R18.6", f"drop: no return bypasses the is_done test {tag}",
               every_return_passes(f, [b for b, _, _ in sw]), "", f.loc())
    rep.guard("R18.6", f"drop-op {tag}", r6)

    # R18.7 Drop for CabiTask
    def r7():
        f = c.method("CabiTask", "drop", trait="Drop")
        rep.saw(f)
        sws = discr_switches(f, place_pred=lambda o: o["place"].endswith(".registered"))
        rep.floor("R18.7", f"`registered` test in Drop for CabiTask {tag}", len(sws), 1)
        for b, m, o in sws:
            st = variant_target(m, "Some")
            rep.ob("R18.7", f"CabiTask::drop: registered=Some => unregister on every path {tag}",
                   st is not None and f.all_paths_pass(st, f.returns(), f.call_blocks("CabiTask::unregister"))
                   and bool(f.call_blocks("CabiTask::unregister")), "", f.loc(b))
        dr = [x.bb for x in ind_calls(f, "drop")]
        rep.ob("R18.7", f"CabiTask::drop: vtable.drop on every path {tag}",
               bool(dr) and every_return_passes(f, dr), "", f.loc())
        g = c.method("CabiTask", "unregister")
        rep.saw(g)
        un = [x.bb for x in ind_calls(g, "waitable_unregister")]
        rep.ob("R18.7", f"CabiTask::unregister calls vtable.waitable_unregister on every path {tag}",
               bool(un) and every_return_passes(g, un), "", g.loc())
        st = g.field_stores("registered")
        rep.ob("R18.7", f"CabiTask::unregister clears `registered` {tag}",
               any(g.stores_variant(s, "None") for _, _, s in st), "", g.loc())
    rep.guard("R18.7", f"drop-task {tag}", r7)

    # R18.8 moving between tasks
    def r8():
        f = c.method("WaitableOperation", "register_waker")
        rep.saw(f)
        # inline view (private helpers such as a take-task / restore wrapper and the closure it runs)
        kn = ["CabiTask::new", "CabiTask::unregister", "cabi::wasip3_task_set"]
        reg = inline_sites(c, f, lambda g: [x.bb for x in ind_calls(g, "waitable_register")], kn)
        ins = inline_sites(c, f, lambda g: g.call_blocks("Option::insert"), kn)
        rep.floor("R18.8", f"waitable_register call in register_waker {tag}", len(reg), 1)
        rep.floor("R18.8", f"Option::insert(CabiTask) in register_waker {tag}", len(ins), 1)
        bad = [i for r in reg for i in ins if site_after(r, i)]
        rep.ob("R18.8", f"register_waker: the task is replaced (old task left) never after registering {tag}",
               not bad, "Option::<CabiTask>::insert reachable after waitable_register", reg[0].loc() if reg else f.loc())
        # the CabiTask stored is a clone made by CabiTask::new, and `registered` is set to Some(waitable)
        st = inline_sites(c, f, lambda g: [b for b, _, s in g.field_stores("registered") if g.stores_variant(s, "Some")], kn)
        rep.ob("R18.8", f"register_waker: records the registered waitable on the stored task {tag}",
               bool(st), "", f.loc())
        # the task pointer is restored (wasip3_task_set called again after registering)
        sets = inline_sites(c, f, lambda g: g.call_blocks("cabi::wasip3_task_set"), kn)
        later = [s for s in sets if any(site_after(r, s) for r in reg)]
        rep.ob("R18.8", f"register_waker: wasip3_task_set restored on every path {tag}",
               len(sets) >= 2 and all(sites_on_all_paths_after(r, later) for r in reg),
               "", f.loc())
    rep.guard("R18.8", f"register_waker {tag}", r8)

    # R18.9 cabi_wake
    def r9():
        f = c.fn("register_waker::cabi_wake")
        rep.saw(f)
        st = f.field_stores("code")
        wk = f.call_blocks("Waker::wake")
        rep.floor("R18.9", f"wake call in cabi_wake {tag}", len(wk), 1)
        ok = bool(st) and all(any(f.dominates(b, w) for b, _, _ in st) for w in wk)
        rep.ob("R18.9", f"cabi_wake stores the code before waking {tag}", ok, "", f.loc())
        ok2 = all(f.stores_variant(s, "Some") for _, _, s in st)
        rep.ob("R18.9", f"cabi_wake stores Some(code) {tag}", ok2 and bool(st), "", f.loc())
    rep.guard("R18.9", f"cabi_wake {tag}", r9)

    # R18.10 poll_complete / poll_complete_with_code
    def r10():
        f = c.method("WaitableOperation", "poll_complete")
        rep.saw(f)
        found = False
        for b, m, o in discr_switches(f, ty_sub="WaitableOperationState"):
            if "Done" in m and "Start" in m:
                found = True
                dt = variant_target(m, "Done")
                rep.ob("R18.10", f"poll_complete: Done state never returns (panics) {tag}",
                       not (f.reachable(dt) & set(f.returns())), "re-polling a finished operation would proceed", f.loc(b))
                stt = variant_target(m, "Start")
                rg = f.edge_region(b, stt)
                rep.ob("R18.10", f"poll_complete: Start state calls S::start exactly at one site {tag}",
                       len(calls_in(f, rg, "WaitableOp::start")) == 1, "", f.loc(b))
                ip = variant_target(m, "InProgress")
                rg2 = f.edge_region(b, ip)
                rep.ob("R18.10", f"poll_complete: InProgress state takes the delivered code {tag}",
                       len(calls_in(f, rg2, "Option::take")) == 1 and not calls_in(f, rg2, "WaitableOp::start"), "", f.loc(b))
        rep.ob("R18.10", f"poll_complete: state switch found {tag}", found, "", f.loc())
        g = c.method("WaitableOperation", "poll_complete_with_code")
        rep.saw(g)
        ok = False
        for b, m, o in discr_switches(g, ty_sub="Option<u32>"):
            st = variant_target(m, "Some")
            if st is None:
                continue
            rg = g.edge_region(b, st)
            stores = [s for bb, _, s in g.field_stores("registered") if bb in rg]
            upd = calls_in(g, rg, "WaitableOp::in_progress_update")
            nt = variant_target(m, "None")
            rgn = g.edge_region(b, nt) if nt is not None else set()
            ok = bool(stores) and all(g.stores_variant(s, "None") for s in stores) and len(upd) == 1 and \
                not calls_in(g, rgn, "WaitableOp::in_progress_update")
        rep.ob("R18.10", f"poll_complete_with_code: a delivered code clears `registered` and calls in_progress_update once {tag}",
               ok, "", g.loc())
        regs = g.call_blocks("WaitableOperation::register_waker")
        rep.ob("R18.10", f"poll_complete_with_code: registers the waker only with a context {tag}",
               len(regs) == 1 and any(True for b, m, o in discr_switches(g, ty_sub="Option<&mut")
                                      if variant_target(m, "Some") is not None and
                                      regs[0] in g.edge_region(b, variant_target(m, "Some"))), "", g.loc())
    rep.guard("R18.10", f"poll {tag}", r10)

    # R18.12 unregister_waker: every path unregisters (through the stored task or the current one)
    def r12():
        f = c.method("WaitableOperation", "unregister_waker")
        rep.saw(f)
        kn = ["CabiTask::unregister"]
        via_task = inline_sites(c, f, lambda g: g.call_blocks("CabiTask::unregister"), kn)
        via_cur = inline_sites(c, f, lambda g: [x.bb for x in ind_calls(g, "waitable_unregister")], kn)
        rep.ob("R18.12", f"unregister_waker: every return passes an unregister call {tag}",
               bool(via_task) and bool(via_cur) and every_return_passes_site(f, via_task + via_cur), "", f.loc())
    rep.guard("R18.12", f"unregister_waker {tag}", r12)
