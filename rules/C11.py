"""C11 — C guest bindings release exactly the memory and handles they own (structural clauses)."""
import re

from lib import mir, synq
from lib.synq import render
from .rtcommon import bool_switches_on_call
from .C13 import dtor_name_obligations, lookup, contains

AnchorMissing = mir.AnchorMissing

REL = "crates/c/src/lib.rs"
ABI = "crates/core/src/abi.rs"
PRED = "abi::guest_export_needs_post_return"

CLAIM = dict(
    level="other", engine="synfacts+mirfacts", design="DESIGN.md §5 C11",
    technique="MIR guard edges of the abi::post_return call; parsing of the C templates of the destructor / drop / "
              "free helpers; sibling comparison of the free-helper TypeDefKind table with the generator's own "
              "`needs_deallocate` predicate; def-use of the GuestDeallocate* templates",
    text="Decides for the C backend: the destructor export is named after the WIT resource and its wrapper calls the "
         "user's `<ns>_<name>_destructor` exactly once with its argument; `<ns>_<name>_drop_own` forwards to the "
         "`[resource-drop]` import once; the post-return function is generated exactly on the true edge of "
         "guest_export_needs_post_return (sync exports), named `cabi_post_` + the export's own name, with the body "
         "abi::post_return produced; the GuestDeallocate* templates free operand 0 once, after the element block, "
         "guarded by a non-zero length, striding by the size of the instruction's own element; the generated `*_free` "
         "helpers walk exactly the kinds `needs_deallocate` says own memory, component by component and under the "
         "right discriminant; no other instruction template frees or drops anything; auto-dropped borrows are recorded "
         "only for borrows of imported resources in exports and dropped once before returning. Partial: no malloc/free "
         "ledger of a run is established.",
    note="mir+syn")


# ============================================================================ helpers
def walk_ctx(root):
    """pre-order (node, chain); chain = ((node, branch), ..) of enclosing `if` / match-arm nodes, outermost first"""
    st = [(root, ())]
    while st:
        n, ch = st.pop()
        if isinstance(n, list):
            for v in reversed(n):
                st.append((v, ch))
        elif isinstance(n, dict):
            yield n, ch
            if n.get("k") == "if":
                if n.get("else") is not None:
                    st.append((n["else"], ch + ((n, "else"),)))
                st.append((n["then"], ch + ((n, "then"),)))
                st.append((n["cond"], ch))
                continue
            if n.get("k") == "for":
                st.append((n["body"], ch + ((n, "loop"),)))
                st.append((n["iter"], ch))
                continue
            for v in reversed([v for v in n.values() if isinstance(v, (dict, list))]):
                st.append((v, ch))


def conjuncts(c):
    while c.get("k") == "paren":
        c = c["e"]
    if c.get("k") == "binary" and c["op"] == "&&":
        return conjuncts(c["l"]) + conjuncts(c["r"])
    return [c]


def pos(n):
    return tuple(n["sp"][:2])


def unbrace(s):
    return s.replace("{{", "{").replace("}}", "}")


def the_fn(name, self_ty=None, trait=None):
    return synq.find_fn(REL, name, self_ty=self_ty, trait=trait)


def emit_table():
    fs = [f for f in synq.all_fns(REL) if f.name == "emit" and f.trait == "Bindgen" and f.body is not None]
    if len(fs) != 1:
        raise AnchorMissing(f"{REL}: `impl Bindgen .. fn emit`: {len(fs)} candidates")
    f = fs[0]
    ms = [x for x in synq.matches_in(f.body) if len([h for a in synq.arms(x) for h in a.heads if "Instruction::" in h]) >= 20]
    if len(ms) != 1:
        raise AnchorMissing(f"{REL}: emit: {len(ms)} `match` tables over Instruction")
    return f, ms[0]


def explicit_arms(m, name):
    return [a for a in synq.arms(m) if any(h.endswith("Instruction::" + name) or h == name for h in a.heads)]


def pat_ren(arm):
    """names bound by the arm's struct pattern -> `$field`"""
    ren = {}
    for alt in arm.alts:
        if alt.get("k") == "p_struct":
            for fld in alt["fields"]:
                if fld["pat"].get("k") == "p_ident":
                    ren[fld["pat"]["name"]] = "$" + fld["name"]
    return ren


def inst_alt(init, inst, ren):
    """`match <x> { Instruction::<inst> { fields } => value, .. }` evaluated for one alternative of an or-pattern arm:
    the rendered value of the `inst` arm with its pattern fields as `$field`; None if `init` is not such a match"""
    if inst is None or init.get("k") != "match":
        return None
    hit = [a for a in synq.arms(init) if any(h.endswith("Instruction::" + inst) for h in a.heads) and a.guard is None]
    if len(hit) != 1 or len(hit[0].alts) != 1:
        return None
    r2 = dict(ren)
    r2.update(pat_ren(hit[0]))
    b = hit[0].body
    while b.get("k") == "block" and len(b["stmts"]) == 1 and b["stmts"][0].get("k") == "expr_stmt" and not b["stmts"][0].get("semi"):
        b = b["stmts"][0]["e"]
    if b.get("k") == "block":
        return None
    return render(b, r2)


def arm_ren(arm, inst=None):
    """local name -> canonical text: struct-pattern fields get `$field`, simple `let x = e` are inlined in source order;
    for an or-pattern arm, an inner `match` over the instruction is resolved for the alternative `inst`"""
    ren = pat_ren(arm)
    for nm, init, st in synq.bindings(arm.body):
        if init is not None and st["pat"].get("k") == "p_ident" and st["pat"]["name"] == nm:
            v = inst_alt(init, inst, ren)
            ren[nm] = v if v is not None else render(init, ren)
    return ren


class Tm:
    """one emitted piece of C text inside an arm: a format-like template (with holes) or a plain string"""

    def __init__(self, text, node, fm=None):
        self.text, self.node, self.fm = text, node, fm

    def holes(self, ren):
        """[(name-or-None, rendered value, offset)]"""
        out = []
        if self.fm is None:
            return out
        for kind, key, e, off in self.fm.hole_exprs():
            if e is None and kind == "name":
                out.append((key, ren.get(key, key), off))
            elif e is not None:
                nm = e["path"] if e.get("k") == "path" and "::" not in e["path"] else None
                out.append((nm, render(e, ren), off))
            else:
                out.append((None, None, off))
        return out


def templates(node):
    """C text emitted under `node`, in source order"""
    out, claimed = [], set()
    for fm in synq.fmts(node):
        if fm.template_node is not None:
            claimed.add(id(fm.template_node))
            out.append(Tm(fm.template, fm.template_node, fm))
    for s in synq.strings(node):
        if id(s) not in claimed:
            out.append(Tm(s["v"], s))
    return sorted(out, key=lambda t: pos(t.node))


def block_vars(arm_body):
    """names bound (first tuple position) to an element block popped from `self.blocks`"""
    out = set()
    for nm, init, st in synq.bindings(arm_body):
        if init is not None and re.match(r"^self\.blocks\.pop\(\)(\.unwrap\(\))?$", render(init)):
            p = st["pat"]
            if p.get("k") == "p_tuple" and p["elems"] and p["elems"][0].get("k") == "p_ident" and p["elems"][0]["name"] == nm:
                out.add(nm)
            elif p.get("k") == "p_ident":
                out.add(nm)
    return out


# ============================================================================ R11.1 destructor export
def parse_c_functions(text):
    """(name, params, body) of C function definitions written in a format template (`{{` / `}}` are literal braces)"""
    out = []
    for m in re.finditer(r"([A-Za-z_{][\w{}]*)\s*\(([^()]*)\)\s*\{\{(.*?)\}\}", text, re.S):
        out.append((m.group(1), m.group(2).strip(), m.group(3), m.start()))
    return out


def c_statements(body):
    return [s.strip() for s in body.split(";") if s.strip()]


def last_ident(params):
    m = re.search(r"([A-Za-z_]\w*)\s*$", params)
    return m.group(1) if m else None


def r11_1(rep):
    dtor_name_obligations(rep, "R11.1", "c")
    f = the_fn("type_resource", self_ty="InterfaceGenerator")
    rep.saw(f"{REL}::type_resource")
    sites = []
    for n, ch in walk_ctx(f.body):
        if n.get("k") == "str" and "[dtor]" in n["v"]:
            sites.append((n, ch))
    rep.floor("R11.1", "templates with a `[dtor]` export in type_resource", len(sites), 1)
    for n, ch in sites:
        t = n["v"]
        at = t.index("[dtor]")
        fns = [x for x in parse_c_functions(t) if x[3] > at]
        wrapper = fns[0] if fns else None
        ok_shape = wrapper is not None and re.search(r"__export_name__\(\"[^\"]*\[dtor\][^\"]*\"\)\)\)\s*void\s+$", t[:wrapper[3]]) is not None
        rep.ob("R11.1", "type_resource: the `[dtor]` export attribute is attached to a `void` wrapper function", ok_shape,
               f"wrapper `{wrapper[0] if wrapper else None}`", f.loc(n))
        if not wrapper:
            continue
        name, params, body, _ = wrapper
        arg = last_ident(params)
        stmts = c_statements(unbrace(body))
        calls = [re.match(r"^([\w{}]+)\s*\(\s*([^()]*?)\s*\)$", s) for s in stmts]
        dcalls = [m for m in calls if m and m.group(1).endswith("_destructor")]
        rep.ob("R11.1", "type_resource: the destructor wrapper calls the user's `{ns}_{snake}_destructor` exactly once, and nothing else",
               len(stmts) == 1 and len(dcalls) == 1, f"wrapper body: {stmts}", f.loc(n))
        rep.ob("R11.1", "type_resource: the destructor receives the wrapper's own argument (the resource's rep)",
               len(dcalls) == 1 and arg is not None and dcalls[0].group(2) == arg, f"wrapper parameter `{arg}`, call {stmts}", f.loc(n))
        # the callee is the function declared to the user in the header, for the same namespace / resource
        protos = []
        for s in synq.strings(f.body):
            for m in re.finditer(r"\bvoid\s+([\w{}]+_destructor)\s*\(([^()]*)\)\s*;", s["v"]):
                protos.append((m.group(1), s))
        rep.ob("R11.1", "type_resource: the called destructor is the one whose prototype the header declares",
               len(protos) == 1 and len(dcalls) == 1 and protos[0][0] == dcalls[0].group(1),
               f"declared {[p for p, _ in protos]}, called {[m.group(1) for m in dcalls]}", f.loc(n))
        if protos:
            holes = re.findall(r"\{(\w+)\}", protos[0][0])
            srcs = {}
            for h in holes:
                b = lookup(f.node, h, n)
                srcs[h] = render(b[1].get("init")) if b and b[0] == "let" else None
            rep.ob("R11.1", "type_resource: the destructor's name is built from the owner namespace and the resource's own name",
                   len(holes) == 2 and any(v and "owner_namespace" in v for v in srcs.values()) and
                   any(v and re.match(r"^\w+\.to_snake_case\(\)$", v) and v.split(".")[0] in [p for p in f.params] for v in srcs.values()),
                   f"{srcs}", f.loc(n))
        # exported resources only, once per resource
        br = [(render(i["cond"]), b) for i, b in ch if i.get("k") == "if"]
        rep.ob("R11.1", "type_resource: the destructor export is generated for exported resources only (else-branch of `in_import`)",
               br == [("self.in_import", "else")], f"enclosing conditions: {br}", f.loc(n))
        rep.ob("R11.1", "type_resource: the destructor export is generated once per resource (not in a loop)",
               not any(b == "loop" for i, b in ch), "", f.loc(n))
    # drop_own / drop_borrow forward to the [resource-drop] import exactly once
    drops = []
    for n, ch in walk_ctx(f.body):
        if n.get("k") == "str" and "[resource-drop]" in n["v"]:
            drops.append((n, ch))
    rep.floor("R11.1", "templates importing `[resource-drop]` in type_resource", len(drops), 1)
    for n, ch in drops:
        t = n["v"]
        m = re.search(r"__import_name__\(\"\[resource-drop\][^\"]*\"\)\)\)\s*extern\s+void\s+([\w{}]+)\s*\(\s*int32_t\b[^()]*\)\s*;", t)
        imp = m.group(1) if m else None
        fns = parse_c_functions(t)
        own = [x for x in fns if x[0].endswith("_drop_own")]
        ok = False
        det = f"import `{imp}`, functions {[x[0] for x in fns]}"
        if imp and len(own) == 1:
            arg = last_ident(own[0][1])
            stmts = c_statements(unbrace(own[0][2]))
            ok = len(stmts) == 1 and re.match(r"^" + re.escape(imp) + r"\s*\(\s*" + re.escape(arg or "?") + r"\.__handle\s*\)$", stmts[0]) is not None
            det = f"import `{imp}`; drop_own body {stmts}"
        rep.ob("R11.1", "type_resource: `{ns}_{snake}_drop_own` passes its handle to the `[resource-drop]` import exactly once", ok, det, f.loc(n))
        rep.ob("R11.1", "type_resource: the drop helper is generated for every resource (imported or exported), once",
               not ch, f"enclosing: {[(render(i.get('cond')) if i.get('k') == 'if' else 'for', b) for i, b in ch]}", f.loc(n))
        if imp and re.fullmatch(r"\{\w+\}", imp):
            b = lookup(f.node, imp[1:-1], n)
            dfn = b[1].get("init") if b and b[0] == "let" else None
            dtext = dfn["args"][0]["v"] if dfn is not None and dfn.get("k") == "macro" and dfn.get("args") and dfn["args"][0].get("k") == "str" else None
            others = []
            for s in synq.strings(f.body):
                for x in parse_c_functions(s["v"]):
                    if x[0].endswith("_drop_borrow"):
                        others.append((x, s))
            for x, s in others:
                arg = last_ident(x[1])
                stmts = c_statements(unbrace(x[2]))
                okb = dtext is not None and len(stmts) == 1 and stmts[0] == f"{dtext}({arg}.__handle)"
                rep.ob("R11.1", "type_resource: `{ns}_{snake}_drop_borrow` calls the same drop import, once", okb,
                       f"drop import `{dtext}`; body {stmts}", f.loc(s))
            rep.ob("R11.1", "type_resource: the recorded `drop_fn` (used to auto-drop borrows) is that same import",
                   any(n_.get("k") == "struct" and synq.short(n_["path"]) == "ResourceInfo" and
                       any(fl["name"] == "drop_fn" and render(fl["e"]) == imp[1:-1] for fl in n_["fields"]) for n_ in synq.walk(f.body)),
                   f"`{imp}`", f.loc(n))


# ============================================================================ R11.2 post-return
def r11_2_mir(rep):
    c = mir.load("ws", "wit_bindgen_c", "rlib")
    sites = [(f, cl) for f in c.fns.values() for cl in f.calls("abi::post_return")]
    rep.floor("R11.2", "calls of abi::post_return in wit_bindgen_c", len(sites), 1)
    for f, cl in sites:
        rep.saw(f)
        nm = f.npath.split("::")[-1]
        fplace = f.origin(cl.args[1]).get("place")
        sw = []
        for sb, ft, tt in bool_switches_on_call(f, PRED):
            o = f.switch_origin(sb)
            while o.get("kind") == "un":
                o = o["a"]
            if fplace is not None and f.origin(o["call"].args[1]).get("place") == fplace:
                sw.append((sb, ft, tt))
        guarded = [(sb, tt) for sb, ft, tt in sw if cl.bb not in f.reachable(0, avoid_edges=[(sb, tt)])]
        rep.ob("R11.2", f"{nm}: abi::post_return(func) is reached only through the true edge of guest_export_needs_post_return(func)",
               bool(guarded), f"{len(sw)} test(s) of the predicate on the same function" +
               ("" if guarded else "; the call is reachable without passing a true edge"), f.loc(cl.bb))
        total = any(f.all_paths_pass(tt, f.returns(), {cl.bb}) for sb, tt in guarded)
        rep.ob("R11.2", f"{nm}: every path of the predicate's true edge generates the post-return, once",
               total and not f.in_cycle(cl.bb),
               "" if total and not f.in_cycle(cl.bb) else "a path from the true edge returns without abi::post_return, or the call is in a loop",
               f.loc(cl.bb))
        # the predicate is consulted on every synchronous path: nothing but `is_async` (and loop exits) also guards the call
        other = []
        for sb, vals, o in f.guard_edges(cl.bb):
            o2 = o
            while o2.get("kind") == "un":
                o2 = o2["a"]
            if o2.get("kind") == "call" and o2["call"].matches(PRED):
                continue
            if o2.get("kind") == "call" and o2["call"].matches("AsyncFilterSet::is_async"):
                if list(vals) != [0]:
                    other.append("is_async on its true edge")
                continue
            if o2.get("kind") == "discr" and isinstance(o2.get("of"), dict) and o2["of"].get("kind") == "call" and \
                    re.search(r"Iterator>::next$|::next$", o2["of"]["call"].callee):
                continue
            other.append(f"{o2.get('kind')} at {f.loc(sb)}")
        rep.ob("R11.2", f"{nm}: besides the predicate, only `!is_async` decides whether the post-return is generated",
               not other, f"additional guards: {other}" if other else "guards: predicate (true), is_async (false), loop exits", f.loc(cl.bb))


def r11_2_syn(rep):
    """what is written on that edge"""
    fn = the_fn("export", self_ty="InterfaceGenerator")
    rep.saw(f"{REL}::export")
    pr_call = None
    for n, ch in walk_ctx(fn.body):
        if n.get("k") == "call" and n["func"].get("k") == "path" and n["func"]["path"].endswith("abi::post_return"):
            pr_call = (n, ch)
    if pr_call is None:
        raise AnchorMissing("InterfaceGenerator::export: no abi::post_return call")
    call, ch = pr_call
    ifs = [(i, b) for i, b in ch if i.get("k") == "if"]
    branch = None
    for i, b in ifs:
        c0 = i["cond"]
        while c0.get("k") == "paren":
            c0 = c0["e"]
        if c0.get("k") == "path":      # a condition computed into a local beforehand is looked through
            lb = lookup(fn.node, c0["path"], i)
            if lb and lb[0] == "let" and lb[1].get("init") is not None:
                c0 = lb[1]["init"]
        asks = [c for c in synq.fn_calls(c0, "guest_export_needs_post_return")]
        if asks and b == "then":
            branch = i
            pred_call = asks[0]
            rep.ob("R11.2", "export: the predicate is the whole condition of the post-return branch", c0 is asks[0],
                   f"condition `{render(i['cond'])}`", fn.loc(i))
    if branch is None:
        raise AnchorMissing("export: abi::post_return is not inside an `if guest_export_needs_post_return(..)` branch")
    blk = branch["then"]
    funcp = [p["pat"]["name"] for p in fn.node["sig"]["params"] if not p.get("self") and p["pat"].get("k") == "p_ident" and
             p["ty"].replace(" ", "") == "&Function"]
    pa = pred_call
    rep.ob("R11.2", "export: predicate and abi::post_return are asked about the exported function itself",
           len(funcp) == 1 and render(pa["args"][-1]) == funcp[0] and render(call["args"][1]) == funcp[0],
           f"predicate({render(pa['args'][-1])}), post_return({render(call['args'][1])})", fn.loc(call))
    # name: cabi_post_ + the very name given to the export attribute
    names = [(s, fm) for fm in synq.fmts(fn.body) if fm.template for s in [fm.template_node] if "cabi_post_" in fm.template]
    rep.floor("R11.2", "`cabi_post_` export-name templates", len(names), 1)
    exp = [fm for fm in synq.fmts(fn.body) if fm.template and re.search(r"__export_name__\(\\?\"\{\w*\}\{\w+\}", fm.template)
           and "cabi_post_" not in fm.template and "[callback]" not in fm.template]
    for s, fm in names:
        m = re.search(r"__export_name__\(\\?\"cabi_post_\{(\w+)\}\\?\"\)", fm.template)
        inside = contains(blk, s)
        rep.ob("R11.2", "export: the `cabi_post_` export name is written inside the predicate's branch", inside, "", fn.loc(s))
        main = re.search(r"\{\w*\}\{(\w+)\}", exp[0].template).group(1) if len(exp) == 1 else None
        b = lookup(fn.node, m.group(1), fm.node) if m else None
        src = render(b[1].get("init")) if b and b[0] == "let" else None
        rep.ob("R11.2", "export: the post-return is exported as `cabi_post_` + the name the function itself is exported under",
               m is not None and main == m.group(1) and src is not None and "legacy_core_export_name" in src,
               f"post-return hole {{{m.group(1) if m else None}}}, export attribute hole {{{main}}}, bound to {src}", fn.loc(s))
    # the body and parameters of the generated function
    bg = [render(a["e"]) for a in call["args"] if a.get("k") == "ref" and a.get("mut")]
    F = bg[0] if len(bg) == 1 else None
    st = blk["stmts"]
    ci = next((i for i, s in enumerate(st) if contains(s, call)), None)
    destr = [(i, s) for i, s in enumerate(st) if s.get("k") == "let" and s.get("init") is not None and render(s["init"]) == F and
             s["pat"].get("k") == "p_struct" and any(fl["name"] == "src" for fl in s["pat"]["fields"])]
    srcname = None
    if destr:
        fl = [x for x in destr[0][1]["pat"]["fields"] if x["name"] == "src"][0]
        srcname = fl["pat"]["name"] if fl["pat"].get("k") == "p_ident" else None
    writes = [(i, c) for i, s in enumerate(st) for c in synq.method_calls(s, "c_fns") if srcname and any(mentions(a, srcname) for a in c["args"])]
    rep.ob("R11.2", "export: the body of the post-return function is the code abi::post_return emitted into its bindgen",
           F is not None and ci is not None and len(destr) == 1 and destr[0][0] > ci and len(writes) == 1 and writes[0][0] > destr[0][0],
           f"bindgen `{F}`, `src` taken at statement {[i for i, _ in destr]}, written at {[i for i, _ in writes]}, call at {ci}", fn.loc(call))
    loops = [s["e"] for s in st if s.get("k") == "expr_stmt" and s["e"].get("k") == "for"]
    okp, det = False, "no loop over the export's wasm results"
    for lp in loops:
        if not re.search(r"\.results\.iter\(\)\.enumerate\(\)$", render(lp["iter"])):
            continue
        nm = [n_ for n_, init, s_ in synq.bindings(lp["body"]) if init is not None and init.get("k") == "macro"]
        printed = [fm for fm in synq.fmts(lp["body"]) if fm.dest is not None and render(fm.dest).endswith(".c_fns") and
                   any(k_ == "name" and key == (nm[0] if nm else None) for k_, key, e, off in fm.hole_exprs())]
        pushed = [render(c["recv"]) for c in synq.method_calls(lp["body"], "push") if nm and any(mentions(a, nm[0]) for a in c["args"])]
        assigned = [render(n_["r"]) for n_ in synq.walk(blk) if n_.get("k") == "assign" and render(n_["l"]) == f"{F}.params"]
        sigb = lookup(fn.node, render(lp["iter"]).split(".")[0], lp)
        sigsrc = render(sigb[1].get("init")) if sigb and sigb[0] == "let" else ""
        okp = len(nm) == 1 and len(printed) == 1 and len(assigned) == 1 and assigned[0] in pushed and "wasm_signature" in sigsrc
        det = f"name `{nm}`, printed in {len(printed)} signature template(s), pushed to {pushed}, {F}.params = {assigned}; signature from {sigsrc[:50]}"
    rep.ob("R11.2", "export: the post-return takes the export's own wasm results, under the names GetArg resolves to", okp, det, fn.loc(blk))


def mentions(node, name):
    return any(n.get("k") == "path" and n["path"] == name for n in synq.walk(node))


# ============================================================================ R11.3 (a) GuestDeallocate* templates
FREE = re.compile(r"\bfree\s*\(")


def name_def(tms, ren, var):
    """template that declares C local `{var}` = <value>: returns (template, rendered value)"""
    for t in tms:
        hs = t.holes(ren)
        m = re.search(r"\{" + re.escape(var) + r"\}\s*=\s*\{(\w*)\}", t.text)
        if not m:
            continue
        for nm, val, off in hs:
            if off == m.start(1) - 1:
                return t, val
    return None, None


def r11_3_templates(rep):
    f, m = emit_table()
    rep.saw(f"{REL}::emit")
    nfree = 0
    for inst, own in (("GuestDeallocateList", [r"\.sizes(\(\))?\.size\(\$element\)\.format\("]),
                      ("GuestDeallocateMap", [r"\.sizes(\(\))?\.record\(\[\*?\$key, \*?\$value\]\)\.size\.format\("])):
        arms = explicit_arms(m, inst)
        if len(arms) != 1:
            raise AnchorMissing(f"emit: {len(arms)} arms for Instruction::{inst}")
        a = arms[0]
        ren = arm_ren(a, inst)
        tms = templates(a.body)
        frees = [t for t in tms if FREE.search(t.text)]
        nfree += len(frees)
        rep.ob("R11.3", f"{inst}: the buffer is freed by exactly one template", len(frees) == 1, f"{len(frees)} free template(s)", f.loc(a.node))
        if len(frees) != 1:
            continue
        fr = frees[0]
        hs = fr.holes(ren)
        P = hs[0][0] if len(hs) == 1 else None
        dt, dv = name_def(tms, ren, P) if P else (None, None)
        rep.ob("R11.3", f"{inst}: what is freed is the list pointer (operand 0)", dv is not None and dv.lstrip("&") == "operands[0]",
               f"free({{{P}}}), `{P}` = {dv}", f.loc(fr.node))
        # the length, its guard and the loop
        loops = [t for t in tms if re.search(r"\bfor\s*\(", t.text)]
        L = I = None
        if len(loops) == 1:
            mm = re.search(r"\{(\w+)\}\s*<\s*\{(\w+)\}", loops[0].text)
            if mm:
                I, L = mm.group(1), mm.group(2)
        lt, lv = name_def(tms, ren, L) if L else (None, None)
        rep.ob("R11.3", f"{inst}: the element loop runs `i < len` with len = operand 1", lv is not None and lv.lstrip("&") == "operands[1]",
               f"loop `{loops[0].text.strip() if loops else None}`, `{L}` = {lv}", f.loc(a.node))
        guards = [t for t in tms if L and re.search(r"if\s*\(\s*\{" + re.escape(L) + r"\}\s*>\s*0\s*\)", t.text)]
        rep.ob("R11.3", f"{inst}: the free is guarded by `len > 0` (cabi_realloc returns a non-heap pointer for empty lists)",
               len(guards) == 1 and pos(guards[0].node) < pos(fr.node) and (lt is None or pos(lt.node) < pos(guards[0].node)),
               f"{len(guards)} guard template(s)", f.loc(a.node))
        base = [t for t in tms if re.search(r"\bbase\s*=", t.text)]
        okb, det = False, f"{len(base)} `base =` template(s)"
        if len(base) == 1 and P and I:
            bm = re.search(r"base\s*=\s*\{(\w+)\}\s*\+\s*\{(\w+)\}\s*\*\s*\{(\w*)\}", base[0].text)
            bh = {off: val for nm, val, off in base[0].holes(ren)}
            stride = bh.get(bm.start(3) - 1) if bm else None
            okb = bool(bm) and bm.group(1) == P and bm.group(2) == I and stride is not None and all(re.search(o, stride) for o in own)
            det = f"`{base[0].text.strip()}` with stride `{stride}`"
        rep.ob("R11.3", f"{inst}: element i lives at ptr + i * (canonical size of the instruction's own element type)", okb, det, f.loc(a.node))
        bv = block_vars(a.body)
        bodies = [t for t in tms if any(nm in bv for nm, val, off in t.holes(ren))]
        rep.ob("R11.3", f"{inst}: the element block is emitted once, inside the loop, and the buffer is freed after it",
               len(bodies) == 1 and len(loops) == 1 and len(base) == 1 and
               pos(loops[0].node) < pos(base[0].node) < pos(bodies[0].node) < pos(fr.node),
               f"element block variables {sorted(bv)}; emitted by {len(bodies)} template(s)", f.loc(a.node))
    # why the guards matter: the allocator hands out a non-heap pointer for empty lists
    pi = the_fn("print_intrinsics", self_ty="C")
    rep.saw(f"{REL}::print_intrinsics")
    ra = [x for s_ in synq.strings(pi.body) for x in parse_c_functions_plain(s_["v"]) if x[0] == "cabi_realloc"]
    okz, det = False, f"{len(ra)} definition(s) of cabi_realloc"
    if len(ra) == 1:
        ps = [q.strip().split()[-1].lstrip("*") for q in ra[0][1].split(",")]
        body = ra[0][2]
        z = re.search(r"if\s*\(\s*(\w+)\s*==\s*0\s*\)\s*return\s*\(void\s*\*\)\s*(\w+)\s*;", body)
        al = re.search(r"\b(realloc|malloc|calloc)\s*\(", body)
        okz = bool(z) and len(ps) == 4 and z.group(1) == ps[3] and z.group(2) == ps[2] and bool(al) and z.start() < al.start()
        det = f"parameters {ps}; zero-size path: `{z.group(0) if z else None}`"
    rep.ob("R11.3", "cabi_realloc: a zero-sized request returns the alignment as a dangling pointer, before any allocation (never to be freed)",
           okz, det, pi.loc())
    # strings and plain allocations
    for inst in ("GuestDeallocateString", "GuestDeallocate"):
        arms = explicit_arms(m, inst)
        if len(arms) != 1:
            raise AnchorMissing(f"emit: {len(arms)} arms for Instruction::{inst}")
        a = arms[0]
        ren = arm_ren(a)
        tms = templates(a.body)
        frees = [t for t in tms if FREE.search(t.text)]
        nfree += len(frees)
        hs = frees[0].holes(ren) if len(frees) == 1 else []
        rep.ob("R11.3", f"{inst}: frees operand 0, exactly once", len(frees) == 1 and len(hs) == 1 and (hs[0][1] or "").lstrip("&") == "operands[0]",
               f"{[t.text.strip() for t in frees]} with {[h[1] for h in hs]}", f.loc(a.node))
        if inst == "GuestDeallocateString":
            g = [t for t in tms if re.search(r"if\s*\(\s*\(?\s*\{\w*\}\s*\)?\s*>\s*0\s*\)", t.text)]
            gv = g[0].holes(ren) if len(g) == 1 else []
            rep.ob("R11.3", "GuestDeallocateString: the free is guarded by `len > 0` with len = operand 1",
                   len(g) == 1 and len(frees) == 1 and pos(g[0].node) < pos(frees[0].node) and len(gv) == 1 and
                   (gv[0][1] or "").lstrip("&") == "operands[1]", f"{[t.text.strip() for t in g]} with {[h[1] for h in gv]}", f.loc(a.node))
    rep.floor("R11.3", "free templates in the GuestDeallocate* arms", nfree, 4)
    # variants: one case per block, numbered like the discriminant
    arms = explicit_arms(m, "GuestDeallocateVariant")
    if len(arms) != 1:
        raise AnchorMissing(f"emit: {len(arms)} arms for Instruction::GuestDeallocateVariant")
    a = arms[0]
    ren = arm_ren(a)
    tms = templates(a.body)
    drained = [(nm, init) for nm, init, st in synq.bindings(a.body) if init is not None and synq.method_calls(init, "drain")]
    pren = pat_ren(a)
    okd = len(drained) == 1 and re.fullmatch(r"self\.blocks\.drain\(\(?self\.blocks\.len\(\) - \*?\$blocks\)?\.\.\)(\.collect\(\))?",
                                             render(drained[0][1], pren)) is not None
    rep.ob("R11.3", "GuestDeallocateVariant: takes the last `blocks` blocks (one per case)", okd,
           f"{[render(i, pren)[:80] for _, i in drained]}", f.loc(a.node))
    loops = [n for n in synq.walk(a.body) if n.get("k") == "for"]
    okc, det = False, f"{len(loops)} loop(s)"
    if len(loops) == 1 and drained:
        lp = loops[0]
        it = render(lp["iter"])
        p = lp["pat"]
        idxv = p["elems"][0]["name"] if p.get("k") == "p_tuple" and p["elems"] and p["elems"][0].get("k") == "p_ident" else None
        blkv = None
        if p.get("k") == "p_tuple" and len(p["elems"]) == 2:
            q = p["elems"][1]
            blkv = q["elems"][0]["name"] if q.get("k") == "p_tuple" and q["elems"] and q["elems"][0].get("k") == "p_ident" else \
                (q["name"] if q.get("k") == "p_ident" else None)
        case = [t for t in templates(lp["body"]) if re.search(r"\bcase\s+\{\w*\}\s*:", t.text)]
        ch = case[0].holes({}) if len(case) == 1 else []
        pushes = [c for c in synq.method_calls(lp["body"], "push_str") if blkv and any(mentions(x, blkv) for x in c["args"])]
        brk = [t for t in templates(lp["body"]) if "break;" in t.text]
        okc = it == f"{drained[0][0]}.into_iter().enumerate()" and len(case) == 1 and len(ch) == 1 and ch[0][1] == idxv and \
            len(pushes) == 1 and len(brk) == 1 and pos(case[0].node) < pos(pushes[0]) < pos(brk[0].node)
        det = f"iterates `{it}`; case label {[h[1] for h in ch]}; block pushed {len(pushes)}x; break {len(brk)}x"
    rep.ob("R11.3", "GuestDeallocateVariant: case i of the switch runs block i and nothing else (case label = enumerate index, break)", okc, det, f.loc(a.node))
    sw = [t for t in tms if re.search(r"\bswitch\s*\(", t.text)]
    sv = sw[0].holes(ren) if len(sw) == 1 else []
    rep.ob("R11.3", "GuestDeallocateVariant: switches on the discriminant (operand 0)", len(sw) == 1 and len(sv) == 1 and
           (sv[0][1] or "").lstrip("&") == "operands[0]", f"{[t.text.strip() for t in sw]} with {[h[1] for h in sv]}", f.loc(a.node))


# ============================================================================ R11.3 (b) the `*_free` helpers
COMPONENTS = {"fields", "types", "cases", "ok", "err", "ty"}


def kind_keys(arm):
    """TypeDefKind names an arm handles; Handle is split into Handle(Own) / Handle(Borrow)"""
    out = []
    for alt in arm.alts:
        h = synq.pat_head(alt)
        if not h.startswith("TypeDefKind::"):
            out.append(h)
            continue
        k = h.split("::")[-1]
        if k == "Handle" and alt.get("k") == "p_tuple_struct" and alt["elems"]:
            subs = {synq.pat_head(x).split("::")[-1] for x in synq.pat_alts(alt["elems"][0])}
            if subs <= {"Own", "Borrow"} and subs:
                out += [f"Handle({s})" for s in sorted(subs)]
                continue
            out += ["Handle(Borrow)", "Handle(Own)"]
            continue
        out.append(k)
    return out


def members(node):
    return {n["member"] for n in synq.walk(node) if n.get("k") == "field" and n["member"] in COMPONENTS}


def diverges(e, names):
    return e.get("k") == "macro" and synq.short(e["name"]) in names


def core_class(arm):
    b = arm.body
    if b.get("k") == "bool":
        return "owns" if b["v"] else "none"
    if diverges(b, ("unreachable",)):
        return "unreachable"
    if render(b) == "what.handles()":
        return "handles"
    rec = [c for c in synq.fn_calls(b, "needs_deallocate")]
    if rec:
        return "walk:" + ",".join(sorted(members(b))) if members(b) else "walk:*"
    raise AnchorMissing(f"needs_deallocate: arm {arm.heads} not understood: {render(b)[:60]}")


def trace(node):
    """('free', mcall) for `self.free(ty, expr)` and ('text', str) for every other string, in source order"""
    ev, skip = [], set()
    for n in synq.walk(node):
        if id(n) in skip:
            continue
        if n.get("k") == "mcall" and n["method"] == "free" and render(n["recv"]) == "self":
            for a in n["args"]:
                for x in synq.walk(a):
                    skip.add(id(x))
            ev.append(("free", n))
        elif n.get("k") == "str":
            ev.append(("text", n))
    return ev


def dtor_class(arm, self_id):
    b = arm.body
    if diverges(b, ("unreachable",)):
        return "unreachable"
    if diverges(b, ("todo", "unimplemented")):
        return "todo"
    ev = trace(b)
    if not ev:
        return "none" if b.get("k") == "block" and not b["stmts"] else "opaque"
    texts = [n for k, n in ev if k == "text"]
    frees = [n for k, n in ev if k == "free"]
    if any(FREE.search(t["v"]) for t in texts):
        return "owns"
    if frees and not texts:
        tys = [render(c["args"][0]) for c in frees]
        if all(re.match(r"^&Type::Id\(\*?\w+\)$", t) for t in tys):
            inner = [re.match(r"^&Type::Id\(\*?(\w+)\)$", t).group(1) for t in tys]
            bound = set(arm.binds())
            if all(i in bound for i in inner):      # (an arm binder shadows the function's own `id`)
                return "to-resource"
            if all(i == self_id for i in inner):
                return "to-self"
    if frees:
        return "walk:" + ",".join(sorted(members(b))) if members(b) else "walk:*"
    return "opaque"


def shares_helper(dl, lp, tyv, named, exit_node, ifs_):
    """An early exit that skips define_dtor(ty) is harmless iff, on every path to it, the helper registered for the first
    TypeId that received the same C name (if there is one) is registered for `ty` as well.  -> (ok, detail)"""
    LEAK = ("the type is entered in `type_names` but define_dtor is skipped and no helper is shared, so `dtor_funcs` has no entry "
            "for this TypeId and `free()` silently emits nothing for every field / element of this type: the `*_free` helper of "
            "an enclosing record / variant / list leaks it")
    if not ifs_:
        return False, LEAK
    inner, br = ifs_[-1]
    blk = inner["then"] if br == "then" else inner.get("else")
    if blk is None or blk.get("k") != "block":
        return False, LEAK
    st = blk["stmts"]
    xi = next((i for i, s_ in enumerate(st) if s_.get("k") == "expr_stmt" and s_["e"] is exit_node), None)
    if xi is None:
        return False, "the exit is nested in a further condition: " + LEAK
    # (1) the innermost condition binds the first TypeId of this C name
    lc = [c for c in conjuncts(inner["cond"]) if c.get("k") == "let_cond"]
    first = None
    if br == "then" and len(lc) == 1 and synq.pat_head(lc[0]["pat"]).split("::")[-1] == "Some":
        ids = [x["name"] for x in synq.walk(lc[0]["pat"]) if x.get("k") == "p_ident"]
        first = ids[0] if len(ids) == 1 else None
    if first is None:
        return False, LEAK
    ok1, why1 = first_id_origin(dl, lp, tyv, named, lc[0], exit_node)
    # (2) an unconditional `if let Some(h) = dtor_funcs.get(&first) { dtor_funcs.insert(ty, h) }` precedes the exit
    shares = []
    for s_ in st[:xi]:
        e = s_.get("e") if s_.get("k") == "expr_stmt" else None
        if not e or e.get("k") != "if" or e.get("else") is not None:
            continue
        c = e["cond"]
        if c.get("k") != "let_cond" or synq.pat_head(c["pat"]).split("::")[-1] != "Some":
            continue
        hs = [x["name"] for x in synq.walk(c["pat"]) if x.get("k") == "p_ident"]
        src = c["e"]
        if src.get("k") == "path":      # the lookup may be computed into a local first
            lb_ = lookup(dl.node, src["path"], e)
            if lb_ and lb_[0] == "let" and lb_[1].get("init") is not None and contains(blk, lb_[1]):
                src = lb_[1]["init"]
        while src.get("k") == "mcall" and src["method"] in ("cloned", "clone", "copied", "map", "as_ref", "as_deref"):
            if src["method"] == "map" and not re.fullmatch(r"\|(\w+)\| \1\.(clone|to_string|to_owned)\(\)", render(src["args"][0]) if src["args"] else ""):
                break
            src = src["recv"]
        if not (src.get("k") == "mcall" and src["method"] == "get" and render(src["recv"]).endswith(".dtor_funcs") and len(hs) == 1):
            continue
        key = alias_root(dl, render(src["args"][0]).lstrip("&*"), src)
        ins = [m_ for m_ in e["then"]["stmts"] if m_.get("k") == "expr_stmt" and m_["e"].get("k") == "mcall" and m_["e"]["method"] == "insert"
               and render(m_["e"]["recv"]).endswith(".dtor_funcs")]
        shares.append((key, [(render(m_["e"]["args"][0]).lstrip("&*"), re.sub(r"\.(clone|to_string|to_owned)\(\)$", "", render(m_["e"]["args"][1])))
                             for m_ in ins], hs[0]))
    if not shares:
        return False, "no `if let Some(h) = dtor_funcs.get(..) { dtor_funcs.insert(..) }` precedes the exit unconditionally: " + LEAK
    good = [(k, i_, h) for k, i_, h in shares if k == first and i_ == [(tyv, h)]]
    det = "; ".join(f"looks up `{k}`, registers {['%s -> %s' % x for x in i_]}" for k, i_, h in shares)
    if not good:
        return False, (f"the helper must be looked up under the first TypeId of the name (`{first}`) and registered for this type "
                       f"(`{tyv}`), but the code {det}")
    if not ok1:
        return False, why1
    return True, f"shares the helper of the first TypeId with this C name ({det}); {why1}"


def alias_root(dl, name, at):
    """follow `let a = b;` / `let a = *b;` / `let a = b.clone();` chains back to the original local"""
    for _ in range(6):
        b = lookup(dl.node, name, at) if re.fullmatch(r"\w+", name) else None
        init = b[1].get("init") if b and b[0] == "let" else None
        r = render(init) if init is not None else ""
        m_ = re.fullmatch(r"[&*]*(\w+)(\.clone\(\))?", r)
        if not m_ or b[1]["pat"].get("k") != "p_ident":
            return name
        name, at = m_.group(1), b[1]
    return name


def same_file_helper(init):
    """`self.helper(args)` where `helper` is a unique method of InterfaceGenerator defined in this file -> (FnInfo, args)"""
    if init is None or init.get("k") != "mcall" or render(init["recv"]) != "self":
        return None
    fs = [x for x in synq.find_fns(REL, init["method"]) if x.self_ty == "InterfaceGenerator"]
    if len(fs) != 1:
        return None
    return fs[0], init["args"]


def returned_values(fn, pth):
    """candidate values (tuple component `pth`) of everything `fn` returns: its tail expression and every `return e`"""
    from .C13 import tail_values
    vals = tail_values(fn.body, pth)
    for n in synq.walk(fn.body):
        if n.get("k") == "return" and n.get("e") is not None:
            vals += tail_values(n["e"], pth)
    return vals


def first_id_origin(dl, lp, tyv, named, letc, use):
    """`if let Some(first) = D`: every non-None value of D is the TypeId stored in `prim_names` under this type's C name"""
    d = letc["e"]
    if d.get("k") != "path":
        return False, f"the first TypeId comes from `{render(d)[:40]}`, not from a local"
    from .C13 import tail_values, pat_path
    b = lookup(dl.node, d["path"], use)
    if not b or b[0] != "let":
        return False, f"`{d['path']}` is not a `let` binding"
    pth = pat_path(b[1]["pat"], d["path"])
    if pth is None:
        return False, f"`{d['path']}`: binding pattern not understood"
    cname = None
    if named:
        a1 = [x for x in named if pos(x) < pos(use)][-1]["args"][1]
        cname = a1["path"] if a1.get("k") == "path" else None
    np_ = pat_path(b[1]["pat"], cname) if cname is not None else None
    init = b[1].get("init")
    scope, ty_here, via = dl.node, tyv, ""
    hp = same_file_helper(init)
    if hp is not None:
        # the naming was moved into a private helper: judge the tuple it returns, with `ty` mapped to its parameter
        hf, args = hp
        params = [q for q in hf.params if q != "self"]
        tp = [q for q, a_ in zip(params, args) if render(a_).lstrip("&*") == tyv]
        if len(params) != len(args) or len(tp) != 1 or tp[0] is None:
            return False, f"`{hf.name}` does not receive the type id `{tyv}` as one plain parameter"
        scope, ty_here, via = hf.node, tp[0], f" (computed by `{hf.name}`)"
        vals = returned_values(hf, pth)
        name_vals = returned_values(hf, np_) if np_ is not None else []
        cname_here = None          # the C name is whatever the helper returns as the name component
    else:
        vals = tail_values(init, pth)
        name_vals = tail_values(init, np_) if np_ is not None else []
        cname_here = cname
    outs = {x["path"] for x in name_vals if x is not None and x.get("k") == "path"}
    seen = 0
    for v in vals:
        if v is None or v.get("k") == "$component":
            return False, f"a value of `{d['path']}` has an unknown shape"
        if v.get("k") == "path" and v["path"] == "None":
            continue
        locs = {x["path"] for x in synq.walk(v) if x.get("k") == "path" and "::" not in x["path"] and x["path"] not in ("Some", "None", ty_here)}
        if len(locs) != 1:
            return False, f"`{render(v)[:50]}`: not a single candidate id"
        cand = next(iter(locs))
        fl = lookup(scope, cand, v)
        cinit = fl[1].get("init") if fl and fl[0] == "let" else None
        r = render(cinit) if cinit is not None else ""
        m_ = re.fullmatch(r"\*?\(?\*?(.*)\.prim_names\.entry\((\w+)(?:\.clone\(\))?\)\.or_insert\((\w+)\)\)?", r)
        if not m_ or m_.group(3) != ty_here:
            return False, f"the candidate id `{cand}` = `{r[:60]}` is not `prim_names.entry(<name>).or_insert({ty_here})`"
        if cname is not None:
            # the key must be the very string that becomes the type's C name: `cname` itself, or the local that the same
            # tuple hands out as its name component
            if m_.group(2) != cname_here and m_.group(2) not in outs:
                return False, (f"`prim_names` is keyed by `{m_.group(2)}`, which is not the C name given to the type (`{cname}`): the "
                               "TypeId found there need not be a type with the same C definition")
        if not re.search(r"\b" + re.escape(cand) + r"\s*!=\s*" + re.escape(ty_here) + r"\b|\b" + re.escape(ty_here) + r"\s*!=\s*" + re.escape(cand) + r"\b", render(v)):
            return False, f"`{render(v)[:50]}` does not exclude the type itself"
        seen += 1
    if not seen:
        return False, f"`{d['path']}` is never Some"
    return True, f"`{d['path']}` is the TypeId recorded first in `prim_names` for the same C name{via}"


def payload_guards(body, node):
    """pattern conditions under which `node` is reached inside `body`: enclosing `if let P = e { .. node .. }` and preceding
    `let P = e else { <diverges> };` statements.  -> [("let <head> = <e>", [names bound])]"""
    out = []
    for n in synq.walk(body):
        if n.get("k") == "if" and contains(n["then"], node):
            for c in conjuncts(n["cond"]):
                if c.get("k") == "let_cond":
                    out.append((f"let {synq.pat_head(c['pat']).split('::')[-1]} = {render(c['e'])}",
                                [x["name"] for x in synq.walk(c["pat"]) if x.get("k") == "p_ident"]))
                else:
                    out.append((render(c), []))
        if n.get("k") == "block":
            st = n["stmts"]
            at = next((i for i, s_ in enumerate(st) if contains(s_, node)), None)
            if at is None:
                continue
            for s_ in st[:at]:
                if s_.get("k") == "let" and s_.get("else") is not None and s_.get("init") is not None and \
                        any(x.get("k") in ("continue", "return", "break") or (x.get("k") == "other" and x.get("src", "").strip() in ("continue", "break"))
                            or (x.get("k") == "macro" and synq.short(x["name"]) in ("unreachable", "panic")) for x in synq.walk(s_["else"])):
                    out.append((f"let {synq.pat_head(s_['pat']).split('::')[-1]} = {render(s_['init'])}",
                                [x["name"] for x in synq.walk(s_["pat"]) if x.get("k") == "p_ident"]))
    return out


def r11_3_helpers(rep):
    core = synq.find_fn(ABI, "needs_deallocate")
    rep.saw(f"{ABI}::needs_deallocate")
    rep.saw(file=ABI)
    outer = synq.find_match(core.body, "Type::")
    ida = synq.arm_for(outer, "Type::Id")
    inner = synq.find_match(ida.body, "TypeDefKind::")
    want = {}
    for a in synq.arms(inner):
        for k in kind_keys(a):
            want[k] = (core_class(a), a)
    f = the_fn("define_dtor", self_ty="InterfaceGenerator")
    rep.saw(f"{REL}::define_dtor")
    idp = [p["pat"]["name"] for p in f.node["sig"]["params"] if not p.get("self") and p["pat"].get("k") == "p_ident" and
           p["ty"].replace(" ", "") == "TypeId"]
    if len(idp) != 1:
        raise AnchorMissing("define_dtor: no single TypeId parameter")
    m = synq.find_match(f.body, "TypeDefKind::", min_arms=8)
    rep.ob("R11.3", "define_dtor: the table is over the kind of the type being defined", re.search(
        r"\.types\[\*?" + re.escape(idp[0]) + r"\]\.kind$", render(m["scrut"])) is not None, f"match {render(m['scrut'])}", f.loc(m))
    got = {}
    for a in synq.arms(m):
        for k in kind_keys(a):
            if k == "_":
                raise AnchorMissing("define_dtor: catch-all arm in the TypeDefKind table")
            got[k] = (dtor_class(a, idp[0]), a)
    rep.floor("R11.3", "TypeDefKind kinds in needs_deallocate", len(want), 17)
    COMPAT = {"owns": {"owns"}, "none": {"none", "to-resource"}, "handles": {"none", "to-resource", "to-self"},
              "unreachable": {"unreachable"}}
    for k in sorted(want):
        wc, wa = want[k]
        if k not in got:
            rep.ob("R11.3", f"define_dtor: has an arm for TypeDefKind::{k}", False, "kind missing from the free-helper table", f.loc(m))
            continue
        gc, ga = got[k]
        if gc == "todo":
            rep.ob("R11.3", f"free helper vs needs_deallocate: TypeDefKind::{k} (unsupported by the C backend)", True,
                   f"needs_deallocate: {wc}; define_dtor: todo!()", f.loc(ga.node), nontrivial=False)
            continue
        if wc.startswith("walk:"):
            ok = gc == wc
            why = "both visit the same components" if ok else "the helper does not visit the components the predicate inspects"
        else:
            ok = gc in COMPAT[wc]
            why = {"owns": "predicate says the kind owns a buffer: the helper must free it",
                   "none": "predicate says nothing is owned: the helper must emit nothing",
                   "handles": "a handle owns no memory: the helper must emit nothing",
                   "unreachable": "unreachable in both"}[wc]
        rep.ob("R11.3", f"free helper vs needs_deallocate: TypeDefKind::{k}", ok,
               f"needs_deallocate: {wc}; define_dtor: {gc} — {why}", f.loc(ga.node))
    # `to-resource` / `to-self` arms are no-ops only because nothing is registered for a resource / for the type itself yet
    res = got.get("Resource")
    rep.ob("R11.3", "define_dtor: no helper is ever registered for a resource (so freeing a handle emits nothing)",
           res is not None and res[0] == "none", f"Resource arm: {res[0] if res else None}", f.loc(res[1].node) if res else f.loc())
    ins = [c for c in synq.method_calls(f.body, "insert") if render(c["recv"]).endswith(".dtor_funcs")]
    mi = next((i for i, s in enumerate(f.body["stmts"]) if contains(s, m)), None)
    ii = [i for i, s in enumerate(f.body["stmts"]) for c in ins if contains(s, c)]
    rep.ob("R11.3", "define_dtor: the helper is registered only after its body was generated (a type never frees itself recursively)",
           len(ins) == 1 and mi is not None and ii and ii[0] > mi and render(ins[0]["args"][0]) == idp[0],
           f"dtor_funcs.insert at statement {ii}, table at statement {mi}", f.loc(ins[0]) if ins else f.loc())
    # a helper exists iff its body is non-empty
    ok, det = False, "0 emptiness test(s)"
    tests = []
    for n in synq.walk(f.body):
        if n.get("k") != "if":
            continue
        c0, neg = n["cond"], False
        for _ in range(6):
            while c0.get("k") == "paren":
                c0 = c0["e"]
            if c0.get("k") == "unary" and c0["op"] == "!":
                c0, neg = c0["e"], not neg
            elif c0.get("k") == "path" and "::" not in c0["path"]:
                lb = lookup(f.node, c0["path"], n)
                if lb and lb[0] == "let" and lb[1].get("init") is not None and lb[1]["pat"].get("k") == "p_ident":
                    c0 = lb[1]["init"]
                else:
                    break
            else:
                break
        if c0.get("k") != "binary" or c0["op"] not in ("==", "!="):
            continue
        sides = []
        for sd in (c0["l"], c0["r"]):
            r_ = render(sd)
            if sd.get("k") == "path" and "::" not in sd["path"]:
                lb = lookup(f.node, sd["path"], n)
                if lb and lb[0] == "let" and lb[1].get("init") is not None:
                    r_ = "start:" + render(lb[1]["init"]) + ("" if mi is not None and any(
                        lb[1] is s_ for s_ in f.body["stmts"][:mi]) else ":late")
            sides.append(r_)
        LEN = "self.src.c_helpers.len()"
        if sorted(sides) != sorted([LEN, "start:" + LEN]):
            continue
        empty_is_then = (c0["op"] == "==") != neg
        tests.append((n, n["then"] if empty_is_then else n.get("else"), n.get("else") if empty_is_then else n["then"]))
    if len(tests) == 1:
        n, eb, nb = tests[0]
        det = "1 emptiness test(s)"
        ti = next((i for i, s_ in enumerate(f.body["stmts"]) if contains(s_, n)), None)
        if eb is not None and len(ins) == 1 and mi is not None and ti is not None and ti > mi:
            tr = [render(c) for c in synq.method_calls(eb, "truncate")]
            withdrawn = len(tr) == 2 and any(".c_helpers" in t for t in tr) and any(".h_helpers" in t for t in tr)
            in_empty = contains(eb, ins[0])
            in_nonempty = nb is not None and contains(nb, ins[0])
            after = bool(ii) and ii[0] > ti and any(x.get("k") == "return" for x in synq.walk(eb))
            ok = withdrawn and not in_empty and (in_nonempty or after)
            det = f"empty body: truncates {len(tr)} buffer(s); registration " + \
                ("inside the empty branch" if in_empty else "in the non-empty branch" if in_nonempty else
                 "after an early return" if after else "reachable with an empty body")
    else:
        det = f"{len(tests)} emptiness test(s)"
    rep.ob("R11.3", "define_dtor: a helper with an empty body is withdrawn (declaration and definition) and not registered", ok,
           det, f.loc(tests[0][0]) if tests else f.loc())
    # ---- per-kind shape of the walking arms
    def arm_of(k):
        if k not in got:
            raise AnchorMissing(f"define_dtor: no arm for {k}")
        return got[k][1]

    def ev_of(k):
        return trace(arm_of(k).body)

    def order_ok(ev, seq):
        """seq: predicates over events that must be satisfied in this order by distinct events"""
        i = 0
        for kind, n in ev:
            if i < len(seq) and seq[i](kind, n):
                i += 1
        return i == len(seq)

    def txt(rx):
        return lambda kind, n: kind == "text" and re.search(rx, n["v"]) is not None

    def fre(ty_rx, expr_rx):
        return lambda kind, n: kind == "free" and re.search(ty_rx, render(n["args"][0])) is not None and \
            n["args"][1].get("k") in ("str", "ref", "macro", "path") and re.search(expr_rx, lit_of(n["args"][1], arm_cur[0])) is not None

    arm_cur = [None]

    def lit_of(e, arm):
        """text of the C expression handed to self.free: a literal, or the template of `&format!(..)` / a let-bound format!"""
        while e.get("k") == "ref":
            e = e["e"]
        if e.get("k") == "str":
            return e["v"]
        if e.get("k") == "macro" and e.get("args") and e["args"][0].get("k") == "str":
            return e["args"][0]["v"]
        if e.get("k") == "path":
            for nm, init, st in synq.bindings(arm.body):
                if nm == e["path"] and init is not None:
                    return lit_of(init, arm)
        return ""

    checks = [
        ("Option", "the payload is freed only under `ptr->is_some`",
         [txt(r"if\s*\(\s*ptr->is_some\s*\)"), fre(r"^\w+$", r"^&ptr->val$"), txt(r"^\s*\}")]),
        ("Result", "ok is freed under `!ptr->is_err`, err in the else branch",
         [txt(r"if\s*\(\s*!\s*ptr->is_err\s*\)"), fre(r"^\w+$", r"^&ptr->val\.ok$"), txt(r"\}\s*else\s*\{"), fre(r"^\w+$", r"^&ptr->val\.err$"),
          txt(r"^\s*\}")]),
        ("Variant", "each payload is freed under its own `case i:` of a switch on the tag",
         [txt(r"switch\s*\(\s*(\(int32_t\)\s*)?ptr->tag\s*\)"), txt(r"case\s+\{\w*\}\s*:"), fre(r"^\w+$", r"^&ptr->val\.\{\w*\}$"), txt(r"break;")]),
        ("Record", "every field is freed at `&ptr->{field}`", [fre(r"^&\w+\.ty$", r"^&ptr->\{\w*\}$")]),
        ("Tuple", "every element is freed at `&ptr->f{i}`", [fre(r"^\w+$", r"^&ptr->f\{\w*\}$")]),
        ("Type", "an alias frees through its target, in place", [fre(r"^\w+$", r"^ptr$")]),
        ("List", "elements are freed first, then the buffer once, under `len > 0`",
         [txt(r"(\w+)\s*=\s*ptr->len"), txt(r"if\s*\(\s*\w+\s*>\s*0\s*\)"), txt(r"\*\s*\{?\w*\}?\s*(\w+)\s*=\s*ptr->ptr|\w+\s*=\s*ptr->ptr"),
          txt(r"for\s*\("), fre(r"^\w+$", r"^&\w+\[i\]$"), txt(r"^\s*\}"), txt(r"\bfree\s*\(\s*\w+\s*\)")]),
        ("Map", "keys and values are freed first, then the buffer once, under `len > 0`",
         [txt(r"(\w+)\s*=\s*ptr->len"), txt(r"if\s*\(\s*\w+\s*>\s*0\s*\)"), txt(r"\w+\s*=\s*ptr->ptr"), txt(r"for\s*\("),
          fre(r"^\w+$", r"^&\w+\[i\]\.key$"), fre(r"^\w+$", r"^&\w+\[i\]\.value$"), txt(r"^\s*\}"), txt(r"\bfree\s*\(\s*\w+\s*\)")]),
    ]
    for k, what, seq in checks:
        a = arm_of(k)
        arm_cur[0] = a
        ev = ev_of(k)
        rep.ob("R11.3", f"define_dtor: {k}: {what}", order_ok(ev, seq),
               "emission order: " + " | ".join(("free(" + render(n["args"][0]) + ", " + lit_of(n["args"][1], a) + ")") if kd == "free"
                                               else n["v"].strip()[:28] for kd, n in ev)[:300], f.loc(a.node))
        nf = sum(1 for kd, n in ev if kd == "text" and FREE.search(n["v"]))
        rep.ob("R11.3", f"define_dtor: {k}: frees a buffer {'exactly once' if k in ('List', 'Map') else 'never itself'}",
               nf == (1 if k in ("List", "Map") else 0), f"{nf} `free(` template(s)", f.loc(a.node))
    # components / binders used by the walking arms are the arm's own
    for k, src in (("Record", r"^&?(\w+)\.fields(?:\.iter\(\))?$"), ("Tuple", r"(\w+)\.types\.iter\(\)\.enumerate\(\)"),
                   ("Variant", r"(\w+)\.cases\.iter\(\)\.enumerate\(\)")):
        a = arm_of(k)
        lp = [n for n in synq.walk(a.body) if n.get("k") == "for"]
        its = [render(n["iter"]) for n in lp]
        b = a.binds()
        rep.ob("R11.3", f"define_dtor: {k}: walks every component of the matched {k.lower()}, in declaration order",
               len(lp) == 1 and re.search(src.replace("^for \\w+ in ", ""), its[0]) is not None and
               re.search(src.replace("^for \\w+ in ", ""), its[0]).group(1) in b, f"loops over {its}", f.loc(a.node))
    a = arm_of("Variant")
    lp = [n for n in synq.walk(a.body) if n.get("k") == "for"]
    if len(lp) == 1 and lp[0]["pat"].get("k") == "p_tuple":
        iv = lp[0]["pat"]["elems"][0].get("name")
        case = [fm for fm in synq.fmts(lp[0]["body"]) if fm.template and re.search(r"case\s+\{\w*\}", fm.template)]
        hv = [render(e) if e is not None else key for kd, key, e, off in case[0].hole_exprs()] if len(case) == 1 else []
        cond = payload_guards(lp[0]["body"], case[0].node) if case else []
        rep.ob("R11.3", "define_dtor: Variant: the case label is the case's index and exists only for cases with a payload",
               hv == [iv] and len(cond) == 1 and re.match(r"^let Some = &?\w+\.ty$", cond[0][0]) is not None,
               f"label {hv}, index `{iv}`, condition {[c[0] for c in cond]}", f.loc(a.node))
    # the place handed to self.free and the type handed to it belong to the same component
    def place_hole(a, call):
        """expression filling the hole of the C place passed to self.free (through a let-bound format! if needed)"""
        e = call["args"][1]
        while e.get("k") == "ref":
            e = e["e"]
        if e.get("k") == "path":
            for nm, init, st in synq.bindings(a.body):
                if nm == e["path"] and init is not None:
                    e = init
        if e.get("k") == "macro" and e.get("args"):
            hs = synq.Fmt(e).hole_exprs()
            if len(hs) == 1:
                return render(hs[0][2]) if hs[0][2] is not None else hs[0][1]
        return None
    for k in ("Record", "Variant", "Tuple"):
        a = arm_of(k)
        lp = [n for n in synq.walk(a.body) if n.get("k") == "for"]
        frees = [n for kd, n in trace(a.body) if kd == "free"]
        ok, det = False, f"{len(lp)} loop(s), {len(frees)} free call(s)"
        if len(lp) == 1 and len(frees) == 1:
            pat = lp[0]["pat"]
            ty, hole = render(frees[0]["args"][0]), place_hole(a, frees[0])
            if k == "Record":
                v = pat.get("name")
                ok = ty == f"&{v}.ty" and hole == f"to_c_ident(&{v}.name)"
            elif k == "Variant":
                v = pat["elems"][1].get("name") if pat.get("k") == "p_tuple" and len(pat["elems"]) == 2 else None
                cond = payload_guards(lp[0]["body"], frees[0])
                bound = [x for c in cond for x in c[1]]
                ok = v is not None and hole == f"to_c_ident(&{v}.name)" and ty in bound and \
                    any(re.match(rf"^let Some = &?{re.escape(v)}\.ty$", c[0]) for c in cond)
            else:
                i_, v = (pat["elems"][0].get("name"), pat["elems"][1].get("name")) if pat.get("k") == "p_tuple" and len(pat["elems"]) == 2 else (None, None)
                ok = v is not None and ty == v and hole == i_
            det = f"type `{ty}`, place hole `{hole}`"
        rep.ob("R11.3", f"define_dtor: {k}: the freed place and the freed type are those of the same component", ok, det, f.loc(a.node))
    # ---- every type that gets a C name also gets its helper generated
    dl = the_fn("define_live_types", self_ty="InterfaceGenerator")
    rep.saw(f"{REL}::define_live_types")
    loops = [n for n in synq.walk(dl.body) if n.get("k") == "for" and synq.method_calls(n["body"], "define_dtor")]
    if len(loops) != 1 or loops[0]["pat"].get("k") != "p_ident":
        raise AnchorMissing(f"define_live_types: {len(loops)} loops calling define_dtor")
    lp = loops[0]
    tyv = lp["pat"]["name"]
    dcalls = [(n, ch) for n, ch in walk_ctx(lp["body"]) if n.get("k") == "mcall" and n["method"] == "define_dtor"]
    rep.ob("R11.3", "define_live_types: define_dtor(ty) closes every iteration that is not left early", len(dcalls) == 1 and not dcalls[0][1] and
           render(dcalls[0][0]["args"][0]) == tyv and contains(lp["body"]["stmts"][-1], dcalls[0][0]),
           f"{[render(n) for n, _ in dcalls]} under {[len(ch) for _, ch in dcalls]} condition(s)", dl.loc(dcalls[0][0]) if dcalls else dl.loc())
    named = [n for n in synq.walk(lp["body"]) if n.get("k") == "mcall" and n["method"] == "insert" and render(n["recv"]).endswith(".type_names")
             and n["args"] and render(n["args"][0]) == tyv]
    exits = []
    for n, ch in walk_ctx(lp["body"]):
        if n.get("k") in ("continue", "break", "return") or (n.get("k") == "other" and n.get("src", "").strip() in ("continue", "break")):
            if any(b == "loop" for i, b in ch):
                continue
            before = [x for x in named if pos(x) < pos(n)]
            # the insertion must lie on the way to this exit: same arm / block nesting
            onpath = [x for x in before if all(not (i.get("k") == "if" and contains(i, x) and not contains(i, n)) for i in [y for y in synq.walk(lp["body"]) if y.get("k") == "if"])
                      and all(not (contains(arm_, x) and not contains(arm_, n)) for mm in synq.matches_in(lp["body"]) for arm_ in mm["arms"])]
            if onpath:
                exits.append((n, ch))
    rep.floor("R11.3", "define_live_types: early exits taken after the type received its C name", len(exits), 2)
    seen_inst = {}
    for n, ch in exits:
        ifs_ = [(i, b) for i, b in ch if i.get("k") == "if"]
        handle = any(c.get("k") == "let_cond" and synq.pat_head(c["pat"]).endswith("TypeDefKind::Handle") and b == "then"
                     for i, b in ifs_ for c in conjuncts(i["cond"]))
        if handle:
            inst, ok, det = "define_live_types: a handle type left without a free helper owns nothing", True, \
                "only handles leave here, and define_dtor emits nothing for a handle"
        else:
            ok, det = shares_helper(dl, lp, tyv, named, n, ifs_)
            cond_names = {x["path"] for i, b in ifs_ for x in synq.walk(i["cond"]) if x.get("k") == "path" and "::" not in x["path"]}
            dup = False
            for nm_ in cond_names:
                b_ = lookup(dl.node, nm_, n)
                if b_ and b_[0] == "let" and b_[1].get("init") is not None:
                    hp_ = same_file_helper(b_[1]["init"])
                    if "prim_names" in render(b_[1]["init"]) or (hp_ is not None and any(
                            x.get("k") == "field" and x["member"] == "prim_names" for x in synq.walk(hp_[0].body))):
                        dup = True
            inst = "define_live_types: a type whose C name was already defined keeps a free helper" if dup else \
                "define_live_types: an early exit after naming the type does not lose a free helper"
        seen_inst[inst] = seen_inst.get(inst, 0) + 1
        rep.ob("R11.3", inst + (f" (#{seen_inst[inst]})" if seen_inst[inst] > 1 else ""), ok, det, dl.loc(n))
    # ---- helpers registered for imported types survive the switch to exports exactly like the types' names
    rt = the_fn("remove_types_redefined_by_exports", self_ty="C")
    rep.saw(f"{REL}::remove_types_redefined_by_exports")
    rets = {render(c["recv"]).split(".")[-1]: render(c["args"][0]) for c in synq.method_calls(rt.body, "retain") if len(c["args"]) == 1}
    rep.ob("R11.3", "remove_types_redefined_by_exports: `dtor_funcs` is trimmed by the same predicate as `type_names` and `resources`",
           {"dtor_funcs", "type_names", "resources"} <= set(rets) and len({rets[k] for k in ("dtor_funcs", "type_names", "resources")}) == 1,
           f"{rets}", rt.loc())
    # ---- the per-Type dispatcher `free`
    g = the_fn("free", self_ty="InterfaceGenerator")
    rep.saw(f"{REL}::free")
    gm = synq.find_match(g.body, "Type::", min_arms=3)
    corem = outer
    n = 0
    for a in synq.arms(corem):
        for h in a.heads:
            t = h.split("::")[-1]
            if not h.startswith("Type::") or t == "Id":
                continue
            ga = synq.arm_for(gm, "Type::" + t)
            if ga is None or "_" in ga.heads:
                rep.ob("R11.3", f"free: explicit arm for Type::{t}", False, "swallowed by a catch-all", g.loc(gm))
                continue
            wc = "owns" if a.body.get("k") == "bool" and a.body["v"] else "none" if a.body.get("k") == "bool" else "?"
            if diverges(ga.body, ("todo", "unimplemented")):
                rep.ob("R11.3", f"free vs needs_deallocate: Type::{t} (unsupported by the C backend)", True, f"needs_deallocate: {wc}; free: todo!()",
                       g.loc(ga.node), nontrivial=False)
                continue
            tx = [s["v"] for s in synq.strings(ga.body)]
            gc = "owns" if any(re.search(r"\w*_free\s*\(\s*\{", x) for x in tx) else "none" if not tx and ga.body.get("k") == "block" and not ga.body["stmts"] else "?"
            n += 1
            rep.ob("R11.3", f"free vs needs_deallocate: Type::{t}", wc == gc and wc != "?", f"needs_deallocate: {wc}; free: {gc} {tx}", g.loc(ga.node))
    rep.floor("R11.3", "Type arms compared between free and needs_deallocate", n, 13)
    ida2 = synq.arm_for(gm, "Type::Id")
    look = [c for c in synq.method_calls(ida2.body, "get") if render(c["recv"]).endswith(".dtor_funcs")] if ida2 else []
    calls = [s["v"] for s in synq.strings(ida2.body)] if ida2 else []
    rep.ob("R11.3", "free: a named type is released through its registered helper, if (and only if) one exists",
           len(look) == 1 and len(calls) == 1 and re.match(r"^\{(\w+)\}\(\{(\w+)\}\);\s*$", calls[0]) is not None and
           any(n_.get("k") == "if" and "let Some" in render(n_["cond"]) and contains(n_["cond"], look[0]) for n_ in synq.walk(ida2.body)),
           f"lookup {[render(c)[:50] for c in look]}, emits {calls}", g.loc(ida2.node) if ida2 else g.loc())
    sa = synq.arm_for(gm, "Type::String")
    sc = [s["v"] for s in synq.strings(sa.body)]
    rep.ob("R11.3", "free: a string is released with the world's `{snake}_string_free` on the given place",
           len(sc) == 1 and re.match(r"^\{(\w+)\}_string_free\(\{(\w+)\}\);\s*$", sc[0]) is not None and
           re.match(r"^\{(\w+)\}_string_free\(\{(\w+)\}\)", sc[0]).group(2) in [p for p in g.params], f"{sc}", g.loc(sa.node))
    # ---- `{snake}_string_free` itself
    fin = the_fn("finish", self_ty="C")
    rep.saw(f"{REL}::finish")
    defs = []
    for s in synq.strings(fin.body):
        for x in parse_c_functions_nested(s["v"]):
            if x[0].endswith("_string_free"):
                defs.append((x, s))
    rep.floor("R11.3", "definitions of `{snake}_string_free`", len(defs), 1)
    for (name, params, body), s in defs:
        arg = last_ident(params)
        b = unbrace(body)
        fr = re.findall(r"\bfree\s*\(\s*([^()]*?)\s*\)", b)
        gm_ = re.search(r"if\s*\(\s*" + re.escape(arg or "?") + r"->len\s*>\s*0\s*\)\s*\{\s*free\s*\(\s*" + re.escape(arg or "?") + r"->ptr\s*\)\s*;\s*\}", b)
        rep.ob("R11.3", "string_free: frees `ret->ptr` exactly once, only when `ret->len > 0`", len(fr) == 1 and gm_ is not None,
               f"free({fr})", fin.loc(s))
        rest = b[gm_.end():] if gm_ else ""
        rep.ob("R11.3", "string_free: leaves the string empty (ptr = NULL, len = 0), so a second free is a no-op",
               re.search(re.escape(arg or "?") + r"->ptr\s*=\s*NULL\s*;", rest) is not None and
               re.search(re.escape(arg or "?") + r"->len\s*=\s*0\s*;", rest) is not None, f"after the free: `{' '.join(rest.split())}`", fin.loc(s))


def parse_c_functions_plain(text):
    """(name, params, body) of C function definitions in plain (non-format) C text"""
    out = []
    for m in re.finditer(r"([A-Za-z_]\w*)\s*\(([^()]*)\)\s*\{", text):
        depth, i = 1, m.end()
        while i < len(text) and depth:
            depth += {"{": 1, "}": -1}.get(text[i], 0)
            i += 1
        out.append((m.group(1), m.group(2).strip(), text[m.end():i - 1]))
    return out


def parse_c_functions_nested(text):
    """(name, params, body) of C function definitions whose body may contain nested `{{ }}` blocks"""
    out = []
    for m in re.finditer(r"([A-Za-z_{][\w{}]*)\s*\(([^()]*)\)\s*\{\{", text):
        depth, i = 1, m.end()
        while i < len(text) and depth:
            if text.startswith("{{", i):
                depth += 1
                i += 2
            elif text.startswith("}}", i):
                depth -= 1
                i += 2
            else:
                i += 1
        out.append((m.group(1), m.group(2).strip(), text[m.end():i - 2]))
    return out


# ============================================================================ R11.3 (c) releases of sibling components are independent
def from_free(o, depth=0):
    """does a switch operand derive from the value returned by `InterfaceGenerator::free`?"""
    if not isinstance(o, dict) or depth > 8:
        return False
    if o.get("kind") == "call":
        return o["call"].matches("InterfaceGenerator::free")
    return any(from_free(o.get(k), depth + 1) for k in ("a", "b", "of"))


def r11_3_independent_mir(rep):
    """no `free(..)` call of define_dtor is control-dependent on what another `free(..)` call reported"""
    c = mir.load("ws", "wit_bindgen_c", "rlib")
    f = c.method("InterfaceGenerator", "define_dtor")
    rep.saw(f)
    calls = sorted(f.calls("InterfaceGenerator::free"), key=lambda cl: f.loc(cl.bb))
    rep.floor("R11.3", "define_dtor (MIR): calls of InterfaceGenerator::free", len(calls), 12)
    seen = {}
    for cl in calls:
        ge = f.guard_edges(cl.bb)
        kind = "?"
        for sb, vals, o in ge:
            if o.get("kind") == "discr" and "TypeDefKind" in str(o.get("ty", "")):
                names = sorted({o.get("vars", {}).get(v, str(v)) for v in vals if v != "else"})
                kind = "|".join(names) if names else "?"
                break
        a = f.origin(cl.args[2]) if len(cl.args) > 2 else {}
        place = f"`{a['s']}`" if a.get("kind") == "const" and "s" in a else "a computed place"
        inst = f"define_dtor: TypeDefKind::{kind}: the release of {place} does not depend on what another component's release reported"
        seen[inst] = seen.get(inst, 0) + 1
        if seen[inst] > 1:
            inst += f" (#{seen[inst]})"
        bad = [f.loc(sb) for sb, vals, o in ge if from_free(o)]
        rep.ob("R11.3", inst, not bad,
               f"the call is reached only through a branch on the result of another `free(..)` (at {bad}): when that component owns "
               "memory / owns none, this component's release is never emitted and the helper leaks it" if bad else
               "reached on every path of its arm, whatever the other releases emit", f.loc(cl.bb))


def r11_3_independent_syn(rep):
    """syntactic counterpart: no `self.free(..)` sits behind `||` / `&&` / an `if` whose condition holds another `self.free(..)`"""
    f = the_fn("define_dtor", self_ty="InterfaceGenerator")

    def is_free(n):
        return n.get("k") == "mcall" and n["method"] == "free" and render(n["recv"]) == "self"
    frees = [n for n in synq.walk(f.body) if is_free(n)]
    rep.floor("R11.3", "define_dtor: `self.free(..)` calls", len(frees), 12)
    bad = []
    for n in synq.walk(f.body):
        if n.get("k") == "binary" and n["op"] in ("||", "&&") and any(is_free(x) for x in synq.walk(n["l"])):
            bad += [(x, f"right operand of `{n['op']}`") for x in synq.walk(n["r"]) if is_free(x)]
        if n.get("k") in ("if", "while") and any(is_free(x) for x in synq.walk(n["cond"])):
            for part in ("then", "else", "body"):
                if n.get(part) is not None:
                    bad += [(x, "branch of an `if` that tests another release") for x in synq.walk(n[part]) if is_free(x)]
        if n.get("k") == "match" and any(is_free(x) for x in synq.walk(n["scrut"])):
            bad += [(x, "arm of a `match` on another release") for a_ in n["arms"] for x in synq.walk(a_["body"]) if is_free(x)]
    rep.ob("R11.3", "define_dtor: no component's release is evaluated only if another component's release reported something", not bad,
           "; ".join(f"`{render(x)[:50]}` is the {why}" for x, why in bad[:4]) if bad else f"{len(frees)} calls, none conditional on another",
           f.loc(bad[0][0]) if bad else f.loc())


# ============================================================================ R11.4 nothing else releases anything
def r11_4(rep):
    f, m = emit_table()
    FREE_ARMS = {"GuestDeallocate", "GuestDeallocateString", "GuestDeallocateList", "GuestDeallocateMap"}
    nrel = 0
    for a in synq.arms(m):
        heads = [h.split("::")[-1] for h in a.heads]
        tx = [s["v"] for s in synq.strings(a.body)]
        frees = [x for x in tx if re.search(r"\bfree\s*\(|\w_free\s*\(|realloc\s*\(", x)]
        drops = [n for n in synq.walk(a.body) if (n.get("k") == "field" and n["member"] == "drop_fn") or
                 (n.get("k") == "str" and re.search(r"_drop(_own|_borrow)?\s*\(", n["v"]))]
        if frees:
            # one obligation per instruction of an or-pattern arm, except that a wrongly freeing arm keeps its joint name
            groups = [[h] for h in heads] if set(heads) <= FREE_ARMS else [heads]
            for hs_ in groups:
                nrel += 1
                rep.ob("R11.4", f"emit: arm {'|'.join(hs_)} frees memory — only the GuestDeallocate* instructions may", set(hs_) <= FREE_ARMS,
                       f"{[x.strip()[:40] for x in frees]}", f.loc(a.node))
        if drops:
            nrel += 1
            g = render(a.guard) if a.guard is not None else ""
            rep.ob("R11.4", f"emit: arm {'|'.join(heads)} drops handles — only the export side of Return may",
                   heads == ["Return"] and "in_import" not in g, f"guard `{g}`", f.loc(a.node))
    rep.floor("R11.4", "releasing arms of emit", nrel, 5)
    # import arguments are passed through untouched
    for inst in ("ListCanonLower", "StringLower", "ListLower", "MapLower"):
        arms = explicit_arms(m, inst)
        if not arms:
            raise AnchorMissing(f"emit: no arm for Instruction::{inst}")
        a = arms[0]
        stm = [fm for fm in synq.fmts(a.body) if fm.dest is not None] + \
              [c for c in synq.method_calls(a.body, ("push_str", "store_op")) if "self.src" in render(c["recv"]) or render(c["recv"]) == "self"]
        res = [render(c["args"][0]) for c in synq.method_calls(a.body, "push") if render(c["recv"]) == "results"]
        okr = len(res) == 2 and all(r.startswith("format!(") for r in res)
        tpl = [c["args"][0]["args"][0]["v"] for c in synq.method_calls(a.body, "push") if render(c["recv"]) == "results" and
               c["args"][0].get("k") == "macro" and c["args"][0].get("args") and c["args"][0]["args"][0].get("k") == "str"]
        rep.ob("R11.4", f"emit: {inst} emits no statement and yields the caller's own pointer and length", not stm and okr and
               len(tpl) == 2 and re.search(r"\)\.ptr$", tpl[0]) is not None and re.search(r"\)\.len$", tpl[1]) is not None and "=" not in "".join(tpl),
               f"{len(stm)} statement(s); results {tpl}", f.loc(a.node))
    for fname in ("import", "import_body_sync", "import_body_async"):
        g = the_fn(fname, self_ty="InterfaceGenerator")
        rep.saw(f"{REL}::{fname}")
        bad = [s["v"].strip()[:40] for s in synq.strings(g.body) if re.search(r"\bfree\s*\(|_free\s*\(|_drop\w*\s*\(", s["v"])]
        rep.ob("R11.4", f"{fname}: the import wrapper itself frees / drops nothing", not bad, f"{bad}", g.loc())
    g = the_fn("import_body_sync", self_ty="InterfaceGenerator")
    calls = [c for c in synq.fn_calls(g.body, "call") if c["func"]["path"].endswith("abi::call")]
    rep.ob("R11.4", "import_body_sync: arguments are lowered and results lifted with the guest-import ABI",
           len(calls) == 1 and [render(a) for a in calls[0]["args"][1:3]] == ["AbiVariant::GuestImport", "LiftLower::LowerArgsLiftResults"],
           f"{[render(a) for a in calls[0]['args'][1:3]] if calls else None}", g.loc())


# ============================================================================ R11.5 auto-dropped borrows
def r11_5(rep):
    f, m = emit_table()
    pushes = []
    for n, ch in walk_ctx(f.body):
        if n.get("k") == "mcall" and n["method"] == "push" and render(n["recv"]) == "self.borrows":
            pushes.append((n, ch))
    rep.floor("R11.5", "sites recording a borrow to auto-drop", len(pushes), 1)
    for n, ch in pushes:
        conds, lets = [], []
        for i, b in ch:
            if i.get("k") != "if":
                conds.append("loop")
                continue
            for c in conjuncts(i["cond"]):
                if c.get("k") == "let_cond":
                    lets.append((synq.pat_head(c["pat"]), render(c["e"]), b, c))
                else:
                    conds.append(("" if b == "then" else "NOT ") + render(c))
        arm = [a for a in synq.arms(m) if contains(a.node, n)]
        rep.ob("R11.5", "emit: a borrow is recorded only while lifting a handle", len(arm) == 1 and [h.split("::")[-1] for h in arm[0].heads] == ["HandleLift"],
               f"arm {[a.heads for a in arm]}", f.loc(n))
        rep.ob("R11.5", "emit: only borrows (not owned handles) are recorded", any(h == "Handle::Borrow" and b == "then" for h, e, b, c in lets),
               f"pattern conditions {[(h, e) for h, e, b, c in lets]}", f.loc(n))
        rep.ob("R11.5", "emit: only in exports and only when autodrop is enabled",
               "!self.r#gen.in_import" in conds and "self.r#gen.autodrop_enabled()" in conds and "loop" not in conds, f"conditions {conds}", f.loc(n))
        # borrows of the component's own exported resources are plain pointers and are not recorded
        inner = [x for x in synq.matches_in(arm[0].body) if contains(x, n)] if arm else []
        okx = False
        if inner:
            sib = [a for a in synq.arms(inner[0]) if not contains(a.node, n)]
            okx = any(a.guard is not None and "Handle::Borrow" in a.heads[0] and
                      any(str(x.get("path", "")).endswith("Direction::Export") for x in synq.walk(a.guard)) for a in sib)
        rep.ob("R11.5", "emit: borrows of the component's own (exported) resources take the other arm", okx, "", f.loc(n))
        st = n["args"][0]
        flds = {x["name"]: render(x["e"]) for x in st.get("fields", [])} if st.get("k") == "struct" else {}
        nb = lookup(f.node, flds.get("name", "?"), n)
        tb = lookup(f.node, flds.get("ty", "?"), n)
        nm_ok = nb and nb[0] == "let" and re.match(r"^self\.locals\.tmp\(", render(nb[1].get("init"))) is not None
        idv = [c.get("pat") for h, e, b, c in lets if h == "Handle::Borrow"]
        idn = [x["name"] for p in idv for x in synq.walk(p) if x.get("k") == "p_ident"]
        ty_ok = tb and tb[0] == "let" and re.match(r"^dealias\([^,]+, \*?(\w+)\)$", render(tb[1].get("init"))) is not None and \
            re.match(r"^dealias\([^,]+, \*?(\w+)\)$", render(tb[1].get("init"))).group(1) in idn
        rep.ob("R11.5", "emit: the record holds a fresh C local and the (dealiased) resource the borrow points to", bool(nm_ok and ty_ok),
               f"name = {render(nb[1].get('init')) if nb and nb[0] == 'let' else None}; ty = {render(tb[1].get('init')) if tb and tb[0] == 'let' else None}", f.loc(n))
        blk = [i["then"] for i, b in ch if i.get("k") == "if"][-1] if ch else None
        tms = templates(blk) if blk is not None else []
        var = flds.get("name")
        decl = [t for t in tms if t.fm is not None and render(t.fm.dest) == "self.borrow_decls" and re.search(r"int32_t\s+\{" + re.escape(var or "?") + r"\}\s*=\s*0\s*;", t.text)]
        asg = [t for t in tms if t.fm is not None and render(t.fm.dest) == "self.src" and re.match(r"^\s*\{" + re.escape(var or "?") + r"\}\s*=\s*\{(\w+)\}\s*;", t.text)]
        rep.ob("R11.5", "emit: the local is declared as 0 ahead of the body and receives the lifted handle", len(decl) == 1 and len(asg) == 1,
               f"{[t.text.strip() for t in decl + asg]}", f.loc(n))
    # borrows hidden inside lists / maps cannot be recorded one by one: lifting them must refuse to go on
    for inst in ("ListCanonLift", "ListLift", "MapLift"):
        arms = explicit_arms(m, inst)
        if len(arms) != 1:
            raise AnchorMissing(f"emit: {len(arms)} arms for Instruction::{inst}")
        a = arms[0]
        pr = pat_ren(a)
        cs = [c for c in synq.method_calls(a.body, "assert_no_droppable_borrows") if render(c["recv"]) == "self"]
        first = a.body["stmts"][0] if a.body.get("k") == "block" and a.body["stmts"] else None
        rep.ob("R11.5", f"emit: {inst} first checks that the lifted list carries no auto-droppable borrow", len(cs) == 1 and first is not None and
               contains(first, cs[0]) and render(cs[0]["args"][-1], pr) == "&Type::Id(*$ty)", f"{[render(c, pr)[:70] for c in cs]}", f.loc(a.node))
    chk = the_fn("assert_no_droppable_borrows", self_ty="FunctionBindgen")
    cj = []
    for n_ in synq.walk(chk.body):
        if n_.get("k") == "if" and any(x.get("k") == "macro" and synq.short(x["name"]) == "panic" for x in synq.walk(n_["then"])):
            cj = sorted(render(c) for c in conjuncts(n_["cond"]))
    typ = [p_ for p_, t_ in zip(chk.params, chk.node["sig"]["params"]) if t_.get("ty", "").replace(" ", "") == "&Type"]
    rep.ob("R11.5", "assert_no_droppable_borrows: stops generation exactly when (export, autodrop on, the type contains a droppable borrow)",
           len(typ) == 1 and cj == sorted(["!self.r#gen.in_import", "self.r#gen.autodrop_enabled()", f"self.r#gen.contains_droppable_borrow({typ[0]})"]),
           f"{cj}", chk.loc())
    # the export side of Return drops each recorded borrow once, before returning
    rets = [a for a in explicit_arms(m, "Return") if a.guard is None or "in_import" not in render(a.guard)]
    if len(rets) != 1:
        raise AnchorMissing(f"emit: {len(rets)} export-side Return arms")
    a = rets[0]
    loops = [n for n in synq.walk(a.body) if n.get("k") == "for" and re.match(r"^self\.borrows(\.iter\(\))?$|^&self\.borrows$", render(n["iter"]))]
    ok, det = False, f"{len(loops)} loop(s) over self.borrows"
    if len(loops) == 1:
        lp = loops[0]
        p = lp["pat"]
        fb = {x["name"]: x["pat"].get("name") for x in p.get("fields", [])} if p.get("k") == "p_struct" else {}
        dfn = [(nm, render(init)) for nm, init, st in synq.bindings(lp["body"]) if init is not None and ".drop_fn" in render(init)]
        tms = templates(lp["body"])
        call = [t for t in tms if dfn and re.search(r"\{" + re.escape(dfn[0][0]) + r"\}\s*\(\s*\{" + re.escape(fb.get("name") or "?") + r"\}\s*\)\s*;", t.text)]
        guard = [t for t in tms if re.search(r"if\s*\(\s*\{" + re.escape(fb.get("name") or "?") + r"\}\s*!=\s*0\s*\)", t.text)]
        ok = len(dfn) == 1 and re.search(r"\.resources\[\*?" + re.escape(fb.get("ty") or "?") + r"\]\.drop_fn", dfn[0][1]) is not None and \
            len(call) == 1 and len(guard) == 1 and pos(guard[0].node) < pos(call[0].node)
        det = f"drop function {dfn}; call template(s) {[t.text.strip() for t in call]}; guard {[t.text.strip() for t in guard]}"
    rep.ob("R11.5", "emit: Return (export side) drops every recorded borrow once with its resource's drop import, if it was set", ok, det, f.loc(a.node))
    if len(loops) == 1:
        retn = [t for t in templates(a.body) if re.search(r"\breturn\b", t.text)]
        rep.ob("R11.5", "emit: the drops are emitted before the wrapper's `return`", len(retn) >= 1 and all(pos(loops[0]) < pos(t.node) for t in retn),
               f"{len(retn)} return template(s)", f.loc(a.node))
        dec = [n for n in synq.walk(a.body) if n.get("k") in ("call", "mcall") and "borrow_decls" in render(n) and pos(n) < pos(loops[0])]
        rep.ob("R11.5", "emit: the declarations of the borrow locals are placed in front of the wrapper body", bool(dec) and
               any("append" in render(n) for n in synq.walk(a.body) if n.get("k") == "mcall" and pos(n) < pos(loops[0])),
               f"{[render(n)[:70] for n in dec[:1]]}", f.loc(a.node))


def run(rep, tier):
    rep.describe(
        "other",
        "Structural clauses of C11 decided on crates/c (syntax tree, and MIR for the post-return guard). (R11.1) the "
        "destructor export name interpolates the WIT resource name (C13's taint rule on the C backend); its wrapper's "
        "C body is a single call of the `{ns}_{snake}_destructor` the header declares, with the wrapper's own argument, "
        "generated once and only for exported resources; `drop_own` / `drop_borrow` forward the handle to the "
        "`[resource-drop]` import once, and the recorded `drop_fn` is that import. (R11.2) abi::post_return is called "
        "exactly on the true edge of guest_export_needs_post_return(func) (additionally only `!is_async`), the function "
        "is exported as `cabi_post_` + the export's own name, takes the export's wasm results as the arguments GetArg "
        "resolves to, and its body is what abi::post_return emitted. (R11.3) GuestDeallocate{,String,List,Map,Variant} "
        "templates: one free of operand 0, guarded by len > 0, after the element block, stride = canonical size of the "
        "instruction's own element / entry, case i runs block i; the `*_free` helper table agrees kind by kind with "
        "core's `needs_deallocate` (owns / owns nothing / walks the same components), payloads are freed under their "
        "discriminant, buffers after their elements; `{snake}_string_free` frees once under len > 0 and resets; every "
        "type that receives a C name in define_live_types also reaches define_dtor — or, when its C name was already "
        "defined for another TypeId, unconditionally takes over the helper registered for the first TypeId recorded in "
        "`prim_names` under that very name — (handles excepted), no `free(..)` call of define_dtor is control-dependent on the result "
        "of another one (MIR guard edges + syntax: a short-circuit would drop a sibling component's release), `dtor_funcs` is "
        "trimmed like `type_names` when exports start, and cabi_realloc hands out no heap memory for size 0 (the reason "
        "for the len > 0 guards). "
        "(R11.4) no other instruction template and no import wrapper frees or drops; list/string/map lowering emits no "
        "statement and passes the caller's pointer. (R11.5) auto-dropped borrows are recorded only for borrows lifted in "
        "exports with autodrop on (not for the component's own resources), and the export-side Return drops each once "
        "before returning; lifting a list / map first refuses (export, autodrop, droppable borrow inside). NOT decided: the "
        "table of `contains_droppable_borrow`, a run-time malloc/free ledger, that user code honours the README's ownership "
        "rules, async task-return paths, C struct layout = canonical layout (so that `&list_ptr[i]` is element i).",
        trusted_base=["syn parse of crates/c and crates/core/src/abi.rs", "rustc MIR of wit-bindgen-c",
                      "core `needs_deallocate` as the owns-memory oracle (its own tables are C03's subject)",
                      "C13's origin evaluator for the destructor name"],
        assumptions=["C text inside templates is parsed with regular expressions over the shapes present today; an "
                     "unrecognised shape fails closed"],
    )
    rep.rule("R11.1", "destructor export: WIT resource name, one call of the user's destructor; drop helpers forward once")
    rep.rule("R11.2", "post-return generated iff guest_export_needs_post_return, named and fed consistently")
    rep.rule("R11.3", "GuestDeallocate* templates and `*_free` helpers release exactly the owned buffers")
    rep.rule("R11.4", "nothing else frees or drops; import arguments pass through untouched")
    rep.rule("R11.5", "auto-dropped borrows: recorded only for imported-resource borrows in exports, dropped once")
    rep.saw(file=REL)
    rep.guard("R11.1", "destructor export", lambda: r11_1(rep))
    rep.guard("R11.2", "post-return guard (MIR)", lambda: r11_2_mir(rep))
    rep.guard("R11.2", "post-return function", lambda: r11_2_syn(rep))
    rep.guard("R11.3", "GuestDeallocate templates", lambda: r11_3_templates(rep))
    rep.guard("R11.3", "free helpers", lambda: r11_3_helpers(rep))
    rep.guard("R11.3", "independent releases (MIR)", lambda: r11_3_independent_mir(rep))
    rep.guard("R11.3", "independent releases", lambda: r11_3_independent_syn(rep))
    rep.guard("R11.4", "nothing else releases", lambda: r11_4(rep))
    rep.guard("R11.5", "auto-dropped borrows", lambda: r11_5(rep))
