"""C32 — generate! records a build dependency on every WIT file it reads (structural clauses)."""
import re

from lib import mir, synq, facts
from lib.mir import AnchorMissing, Call
from .rtcommon import discr_switches, variant_target, bool_switches_on_call

REL = "crates/guest-rust/macro/src/lib.rs"
MACRO = ("ws", "wit_bindgen_rust_macro", "procmacro")
GENERATOR_CRATES = (("wit_bindgen_rust", "rlib"), ("wit_bindgen_core", "rlib"))

CLAIM = dict(
    level="other", engine="mirfacts+synfacts", design="DESIGN.md §5 C32",
    technique="MIR must-pass-through / who-may-call / value-flow rules on the proc-macro crate (reader call -> "
              "files.extend(sources.paths()) -> parse_source result -> Config.files -> loop in expand) joined by span "
              "with a syntax-tree check of the include_bytes! template text",
    text="Static rules on wit-bindgen-rust-macro: every successful wit-parser file read reaches Ok only through an "
         "append of that read's PackageSourceMap::paths() to the vector that becomes Config.files; nothing else in the "
         "macro (or in the generator crates it drives) reads files; Config::expand returns Ok only after a loop over "
         "self.files that appends, per element, a token stream made from a template that is an include_bytes!(\"<path>\") "
         "item. Partial: that PackageSourceMap::paths() really lists every file wit-parser read is trusted.",
    note="mir+syn")

# wit-parser entry points that read the filesystem (wit-parser 0.257: resolve/fs.rs, lib.rs, ast.rs)
WIT_READERS = ["Resolve::push_path", "Resolve::push_dir", "Resolve::push_file", "UnresolvedPackageGroup::parse_dir",
               "UnresolvedPackageGroup::parse_path", "UnresolvedPackageGroup::parse_file", "SourceMap::push_file",
               "SourceMap::push_dir"]
# wit-parser functions that take a path only as a label (documented not to touch the filesystem)
WIT_LABEL_ONLY = ["Resolve::push_str", "Resolve::push_source", "UnresolvedPackageGroup::parse", "SourceMap::push",
                  "SourceMap::push_str"]
STD_READERS = ["fs::read", "fs::read_to_string", "fs::read_dir", "File::open", "OpenOptions::open", "Path::read_dir",
               "fs::read_link"]
ADDERS = ["Extend::extend", "Vec::extend_from_slice", "Vec::push", "Vec::append", "Vec::extend_from_within"]
TRANSPARENT = ["Try::branch", "Result::map_err", "Result::unwrap", "Result::expect", "Context::context",
               "Context::with_context", "Option::unwrap", "Option::expect"]
DROPPERS = ["Iterator::filter", "Iterator::filter_map", "Iterator::take", "Iterator::skip", "Iterator::take_while",
            "Iterator::skip_while", "Iterator::step_by", "Iterator::map_while", "Iterator::nth", "Iterator::last",
            "Iterator::find", "Iterator::find_map", "Iterator::min", "Iterator::max", "Iterator::next"]
PRESERVING = ["ToOwned::to_owned", "Path::to_path_buf", "Clone::clone", "Into::into", "From::from", "AsRef::as_ref",
              "Deref::deref", "Borrow::borrow", "PathBuf::from", "Path::new"]
PATH_REWRITERS = re.compile(r"\b(Path|PathBuf)::(with_extension|with_file_name|with_added_extension|parent|file_name|"
                            r"file_stem|file_prefix|extension|join|strip_prefix|components|ancestors|iter|push|pop|"
                            r"set_extension|set_file_name|add_extension)\b")
PARSE_STR = re.compile(r"<impl str>::parse|FromStr(<[^>]*>)?>?::from_str")
STREAM_ADDERS = ["Extend::extend", "TokenStream::extend", "TokenStream::append_all", "TokenStreamExt::append_all"]


# ------------------------------------------------------------------------------------------ value-flow helpers (local)
def _place_of(op):
    return op.get("cp") or op.get("mv")


def _rv_operands(rv):
    out = []
    for k in ("o", "a", "b"):
        if isinstance(rv.get(k), dict):
            out.append(rv[k])
    out += [o for o in rv.get("ops", []) if isinstance(o, dict)]
    if isinstance(rv.get("p"), dict) and "l" in rv["p"]:
        out.append({"cp": rv["p"]})
    return out


def root(f, op, trail=None):
    """Follow plain copies / moves / borrows / casts of a place back to the local (or argument) it names.
    -> ('arg', n, proj) | ('local', l, proj) | ('const', None, [])."""
    if "c" in op:
        return ("const", None, [])
    p = _place_of(op)
    if p is None:
        return ("unknown", None, [])
    l, proj = p["l"], list(p.get("p", []))
    for _ in range(40):
        if trail is not None:
            trail.add(l)
        if 1 <= l <= f.argc:
            return ("arg", l, proj)
        ds = [x for x in f.defs.get(l, []) if x[2] != "partial"]
        if len(ds) != 1 or ds[0][2] != "assign":
            return ("local", l, proj)
        rv = ds[0][3]
        if rv["k"] in ("use", "cast") and _place_of(rv["o"]):
            q = _place_of(rv["o"])
        elif rv["k"] in ("ref", "rawptr"):
            q = rv["p"]
        else:
            return ("local", l, proj)
        l, proj = q["l"], list(q.get("p", [])) + proj
    return ("local", l, proj)


def single_def(f, l):
    ds = [x for x in f.defs.get(l, []) if x[2] != "partial"]
    return ds[0] if len(ds) == 1 else None


def back_slice(f, op):
    """Over-approximate backward data dependence of an operand: the calls whose results, and the argument places, it
    may be computed from (through all definitions of every local met, all call arguments and aggregate operands)."""
    calls, args, seen = {}, [], set()
    work = [op]
    while work:
        o = work.pop()
        p = _place_of(o) if isinstance(o, dict) else None
        if p is None:
            continue
        l = p["l"]
        if 1 <= l <= f.argc:
            args.append((l, tuple(p.get("p", []))))
            continue
        if l in seen:
            continue
        seen.add(l)
        for b, i, kind, payload in f.defs.get(l, []):
            if b not in f.live:
                continue
            if kind == "call":
                calls[b] = Call(b, payload)
                work += payload["args"]
                if payload.get("ind"):
                    work.append(payload["ind"])
            elif kind == "assign":
                work += _rv_operands(payload)
            else:
                work += _rv_operands(payload["rv"])
    return calls, args


def ok_sites(f):
    """Blocks that build the function's `Ok(..)` return value."""
    return [(b, rv) for b, i, rv, s in f.aggregates("Result", "Ok") if s["p"]["l"] == 0 and not s["p"].get("p")]


def success_edges(f, call):
    """(switch block, target) of the `Ok` / `Continue` edge of the test made on a fallible call's result;
    the plain successor when the result is not tested (e.g. unwrap)."""
    out = []
    for b, m, o in discr_switches(f):
        of = o.get("of", {})
        if of.get("kind") != "call":
            continue
        cc = of["call"]
        if cc.bb == call.bb and variant_target(m, "Ok") is not None:
            out.append((b, variant_target(m, "Ok")))
        elif cc.matches("Try::branch") and variant_target(m, "Continue") is not None:
            k, l, _ = root(f, cc.args[0])
            if k == "local" and l == call.dest["l"]:
                out.append((b, variant_target(m, "Continue")))
    if not out and call.target >= 0:
        out.append((call.bb, call.target))
    return out


def short_fn(f):
    p = f.npath
    p = p[len("crate::"):] if p.startswith("crate::") else p
    return re.sub(r"\{closure#\d+\}", "{closure}", p)


def qual(name):
    """`a::b::<impl a::Resolve>::push_path` -> `a::b::Resolve::push_path` (inherent impls in another module)."""
    n = mir.norm(name)
    return re.sub(r"<impl (?:[^<> ]+ for )?(?:[^<> ]*::)?([^<>: ]+)>", r"\1", n)


def named(call, pats):
    return any(mir.suffix_match(qual(n), p) for n in call.names() for p in pats)


def is_wit_parser(name):
    return "wit_parser::" in name


def reader_calls(f):
    """Call sites that read the filesystem through wit-parser: a known reader, or any wit-parser function that is
    handed a Path / PathBuf and is not a documented label-only function."""
    out = []
    for c in f.calls():
        names = c.names()
        if not any(is_wit_parser(n) for n in names):
            continue
        if named(c, WIT_READERS):
            out.append(c)
        elif not named(c, WIT_LABEL_ONLY) and any(re.search(r"\bPath(Buf)?\b", t) for t in c.arg_types):
            out.append(c)
    return out


def std_reader_calls(f):
    return [c for c in f.calls(STD_READERS) if any(n.startswith("std::") for n in c.names())]


def capture_index(proj):
    """closure argument projection (*_1).k... -> k"""
    if len(proj) >= 2 and proj[0] == "*" and re.fullmatch(r"\.\d+", proj[1]):
        return int(proj[1][1:])
    return None


# ------------------------------------------------------------------------------------------------------------- run
def run(rep, tier):
    rep.describe(
        "other",
        "Decides structural necessary conditions of C32 on the MIR of the generate! proc-macro crate and on the syntax "
        "tree of Config::expand. R32.1: after every successful wit-parser file read, every path to Ok (or to the next "
        "read) passes an append of that read's PackageSourceMap::paths() to the tracked vector (directly, or by a "
        "loop that pushes every element), no iterator adapter between paths() and the append drops elements, the "
        "mapping closure only converts the path, and the vector is only ever appended to. R32.2: the only file-reading calls of the macro crate are those tracked sites, all inside a "
        "closure of parse_source. R32.3: the tracked vector is parse_source's local that is returned in the Ok tuple, "
        "the same tuple slot initialises Config.files in the only constructor of Config without being borrowed mutably "
        "on the way, and nothing else writes it. "
        "R32.4: each source form (no source, path list, inline with / without path) reads through that tracked "
        "closure. R32.5: Config::expand builds Ok only after the loop over self.files has run to exhaustion, each "
        "iteration appends to the returned token stream a stream parsed from a formatted string that depends on the "
        "element (both outcomes of the debug test included), and self.files is not modified first. R32.6: the "
        "template of that format! is an `include_bytes!(\"{}\")` item whose hole is the loop element. R32.7: no "
        "function of wit-bindgen-rust / wit-bindgen-core that can reach a wit-parser file reader is reachable from the "
        "macro (direct calls, function values, trait methods). R32.8: generate returns expand's result. R32.9: the path handed to every reader is joined onto "
        "CARGO_MANIFEST_DIR, so the recorded names are absolute and include_bytes! (which resolves relative names "
        "against the invoking source file) names the file that was read. "
        "NOT decided: that wit-parser's PackageSourceMap::paths() lists every file push_path read (read in the "
        "wit-parser 0.257 source: a wasm/wat-encoded package under deps/ is read but not listed); files that did not "
        "exist when the macro ran; the macro-string feature's own include evaluation.",
        trusted_base=["rustc nightly MIR of wit-bindgen-rust-macro (workspace config)", "tools/mirfacts", "tools/synfacts",
                      "wit-parser: PackageSourceMap::paths() enumerates the files read by push_path",
                      "rustc: include_bytes!(<path>) registers <path> as a dependency of the crate",
                      "unwind edges ignored"],
        assumptions=["the `macro-string` cargo feature is off (default)",
                     "paths contain no `\"#` sequence (raw-string literal in the template)"],
    )
    rep.saw(file=REL)
    c = mir.load(*MACRO)
    st = {}
    rep.guard("R32.1", "tracked reads", lambda: r1(rep, c, st))
    rep.guard("R32.2", "only readers", lambda: r2(rep, c, st))
    rep.guard("R32.3", "flow of files", lambda: r3(rep, c, st))
    rep.guard("R32.4", "source forms", lambda: r4(rep, c, st))
    rep.guard("R32.5", "expand loop", lambda: r5(rep, c, st))
    rep.guard("R32.6", "include_bytes template", lambda: r6(rep, c, st))
    rep.guard("R32.7", "generator crates", lambda: r7(rep, c))
    rep.guard("R32.8", "generate entry", lambda: r8(rep, c))
    rep.guard("R32.9", "absolute paths", lambda: r9(rep, c))


# ------------------------------------------------------------------------------------------------------------ R32.1
def r1(rep, c, st):
    """Every successful read is followed, on every path to Ok or to another read, by the tracking append."""
    sites = [(f, call) for f in c.fns.values() for call in reader_calls(f)]
    rep.floor("R32.1", "wit-parser file-reading call sites in the macro crate", len(sites), 1)
    st["tracked"] = {}          # fn path -> set of receiver roots (kind, n/l, capture index)
    for f, call in sites:
        rep.guard("R32.1", f"{mir.norm(call.callee).split('::')[-1]} in {short_fn(f)}",
                  lambda f=f, call=call: r1_site(rep, st, f, call))


def r1_site(rep, st, f, call):
    if True:
        rep.saw(f)
        nm = f"{mir.norm(call.callee).split('::')[-1]} in {short_fn(f)}"
        oks = [b for b, _ in ok_sites(f)]
        readers = [x.bb for x in reader_calls(f)]
        # tracking appends of *this* read: payload computed from PackageSourceMap::paths() of this call's result
        tracked = []
        for ext in f.calls(ADDERS):
            if len(ext.args) < 2 or not ext.arg_types or "PathBuf" not in ext.arg_types[0]:
                continue
            pc, _ = back_slice(f, ext.args[1])
            via_paths = [p for p in pc.values() if p.matches("PackageSourceMap::paths")]
            good = False
            for p in via_paths:
                rc, _ = back_slice(f, p.args[0])
                if call.bb in rc:
                    good = True
            if good:
                tracked.append(ext)
        rep.ob("R32.1", f"{nm}: an append of this read's PackageSourceMap::paths() exists", bool(tracked),
               "no Vec<PathBuf> append whose payload is computed from `paths()` of the value this read returned",
               f.loc(call.bb))
        through = [e.bb for e in tracked]
        # `for p in sources.paths() { files.push(..) }`: the loop head stands for the append when every iteration appends
        for h in f.calls("Iterator::next"):
            hc, _ = back_slice(f, h.args[0])
            if not any(p.matches("PackageSourceMap::paths") and call.bb in back_slice(f, p.args[0])[0] for p in hc.values()):
                continue
            for b, m, o in discr_switches(f):
                if o.get("of", {}).get("kind") == "call" and o["of"]["call"].bb == h.bb:
                    some_t = variant_target(m, "Some")
                    if some_t is not None and through and \
                            f.all_paths_pass(some_t, {h.bb} | set(oks) | set(readers), [e.bb for e in tracked]):
                        through.append(h.bb)
        # between paths() and the append nothing drops or rewrites an element
        for e in tracked:
            pc, _ = back_slice(f, e.args[1])
            pbs = {b for b, p in pc.items() if p.matches("PackageSourceMap::paths")}
            down = [y for b, y in pc.items() if b not in pbs and
                    any(pbs & set(back_slice(f, a)[0]) for a in y.args)]
            drops = [y for y in down if y.matches(DROPPERS) and y.bb not in through]
            rep.ob("R32.1", f"{nm}: no path of paths() is dropped before the append", not drops,
                   f"{[y.callee for y in drops]}", f.loc(e.bb))
            for y in down:
                if not y.matches("Iterator::map") or len(y.args) < 2:
                    continue
                k, l, _ = root(f, y.args[1])
                d = single_def(f, l) if k == "local" else None
                cl = f.crate.fns.get(d[3].get("closure")) if d and d[2] == "assign" and d[3]["k"] == "agg" else None
                if cl is None:
                    rep.ob("R32.1", f"{nm}: the mapping applied to paths() is a closure that can be inspected", False,
                           "", f.loc(y.bb))
                    continue
                rep.saw(cl)
                other = [z for z in cl.calls() if not z.matches(PRESERVING)]
                rep.ob("R32.1", f"{nm}: the mapping applied to paths() only converts the path (to_owned / clone / into)",
                       not other, f"{[z.callee for z in other]}", cl.loc())
        for sw, t in success_edges(f, call):
            ok = bool(through) and f.all_paths_pass(t, set(oks) | set(readers), through)
            rep.ob("R32.1", f"{nm}: every path from a successful read to Ok / to the next read appends its paths()", ok,
                   "a file that was read can be left out of the tracked list", f.loc(sw))
        rep.ob("R32.1", f"{nm}: the enclosing function has an Ok result site", bool(oks), "", f.loc())
        # the receivers: one and the same place, only ever appended to in this function
        recv = set()
        for e in tracked:
            k, n, proj = root(f, e.args[0])
            recv.add((k, n, capture_index(proj) if k == "arg" else None))
        rep.ob("R32.1", f"{nm}: all tracking appends go to one vector", len(recv) == 1, f"{sorted(map(str, recv))}",
               f.loc(call.bb))
        if recv:
            st["tracked"].setdefault(f.path, set()).update(recv)
        for x in f.calls():
            for i, a in enumerate(x.args):
                k, n, proj = root(f, a)
                if k not in ("arg", "local"):
                    continue
                key = (k, n, capture_index(proj) if k == "arg" else None)
                if key not in recv or (k == "arg" and key[2] is None):
                    continue
                ty = x.arg_types[i] if i < len(x.arg_types) else ""
                if ty.startswith("&mut") or not ty.startswith("&"):
                    rep.ob("R32.1", f"{nm}: the tracked vector is only appended to "
                                    f"({mir.norm(x.callee).split('::')[-1]} in {short_fn(f)})",
                           x.matches(ADDERS), f"`{x.callee}` receives the tracked vector mutably / by value", f.loc(x.bb))


# ------------------------------------------------------------------------------------------------------------ R32.2
def r2(rep, c, st):
    """Who may read: only closures of parse_source call a wit-parser reader; nobody uses std's file readers."""
    ps = c.fn("parse_source")
    rep.saw(ps)
    allowed = {g.path for g in c.closures_of(ps)} | {ps.path}
    n = 0
    for f in c.fns.values():
        for call in reader_calls(f):
            n += 1
            rep.ob("R32.2", f"wit-parser reader {mir.norm(call.callee).split('::')[-1]} called from {short_fn(f)}",
                   f.path in allowed and bool(st.get("tracked", {}).get(f.path)),
                   "a wit-parser file read outside the tracked closure of parse_source", f.loc(call.bb))
        for call in std_reader_calls(f):
            n += 1
            rep.ob("R32.2", f"std file reader {mir.norm(call.callee).split('::')[-1]} called from {short_fn(f)}", False,
                   "file contents read directly in the macro crate (could be fed to push_str untracked)", f.loc(call.bb))
    rep.floor("R32.2", "file-reading call sites in the macro crate", n, 1)


# ------------------------------------------------------------------------------------------------------------ R32.3
def r3(rep, c, st):
    """The tracked vector is parse_source's result slot that initialises Config.files; no other writer."""
    ps = c.fn("parse_source")
    rep.saw(ps)
    tracked = st.get("tracked", {})
    files_locals = set()
    for path, recvs in tracked.items():
        g = c.fns[path]
        for k, n, cap in recvs:
            if g.path == ps.path:
                if k == "local":
                    files_locals.add(n)
                continue
            # closure capture -> operand of the closure aggregate in parse_source
            aggs = [s["rv"] for b in sorted(ps.live) for s in ps.stmts(b)
                    if s["k"] == "=" and s["rv"]["k"] == "agg" and s["rv"].get("closure") == g.path]
            rep.ob("R32.3", f"{short_fn(g)} is created once in parse_source", len(aggs) == 1, f"{len(aggs)} sites", ps.loc())
            if cap is None or len(aggs) != 1 or cap >= len(aggs[0]["ops"]):
                rep.ob("R32.3", f"tracked vector of {short_fn(g)} is a captured variable of parse_source", False,
                       f"receiver root {(k, n, cap)}", g.loc())
                continue
            kk, ll, pp = root(ps, aggs[0]["ops"][cap])
            rep.ob("R32.3", f"tracked vector of {short_fn(g)} is a captured variable of parse_source",
                   kk == "local" and not [x for x in pp if x != "&"], f"{(kk, ll, pp)}", ps.loc())
            if kk == "local":
                files_locals.add(ll)
    rep.floor("R32.3", "tracked vector local of parse_source", len(files_locals), 1)
    rep.ob("R32.3", "parse_source has exactly one tracked vector", len(files_locals) == 1, f"{sorted(files_locals)}", ps.loc())
    if len(files_locals) != 1:
        return
    L = next(iter(files_locals))
    # Ok tuple slot
    oks = ok_sites(ps)
    rep.floor("R32.3", "Ok result sites of parse_source", len(oks), 1)
    slots = set()
    for b, rv in oks:
        k, l, proj = root(ps, rv["ops"][0])
        d = single_def(ps, l) if k == "local" and not proj else None
        slot = None
        if d and d[2] == "assign" and d[3]["k"] == "agg" and "tuple" in d[3]:
            for i, o in enumerate(d[3]["ops"]):
                kk, ll, pp = root(ps, o)
                if kk == "local" and ll == L and not pp:
                    slot = i
        rep.ob("R32.3", "parse_source returns the tracked vector in its Ok tuple", slot is not None,
               "the vector the reads are appended to is not what parse_source returns", ps.loc(b))
        if slot is not None:
            slots.add(slot)
    # nobody else touches the local in parse_source: only its definition, the closure capture and the move out
    closure_ops = set()
    for b in sorted(ps.live):
        for s in ps.stmts(b):
            if s["k"] == "=" and s["rv"]["k"] == "agg" and "closure" in s["rv"]:
                for o in s["rv"]["ops"]:
                    p = _place_of(o)
                    if p:
                        closure_ops.add(p["l"])
    for x in ps.calls():
        if x.dest["l"] == L and not x.dest.get("p"):
            continue                                           # its definition (Vec::new)
        for i, a in enumerate(x.args):
            k, l, proj = root(ps, a)
            if k == "local" and l == L:
                ty = x.arg_types[i] if i < len(x.arg_types) else ""
                rep.ob("R32.3", f"parse_source: the tracked vector is not handed to {mir.norm(x.callee).split('::')[-1]} mutably",
                       ty.startswith("&") and not ty.startswith("&mut"),
                       "the tracked vector can be modified outside the tracking append", ps.loc(x.bb))
    ndef = len([d for d in ps.defs.get(L, []) if d[0] in ps.live])
    rep.ob("R32.3", "parse_source: the tracked vector is defined once", ndef == 1, f"{ndef} definitions", ps.loc())
    muts = 0
    for b in sorted(ps.live):
        for s in ps.stmts(b):
            if s["k"] == "=" and s["rv"]["k"] in ("ref", "rawptr") and s["rv"]["p"]["l"] == L and \
                    (s["rv"].get("m") or s["rv"]["k"] == "rawptr"):
                muts += 1
                rep.ob("R32.3", "parse_source: a mutable borrow of the tracked vector is a closure capture",
                       s["p"]["l"] in closure_ops and not s["p"].get("p"), "", ps.loc(b))
    rep.floor("R32.3", "mutable borrows of the tracked vector in parse_source", muts, 1)

    # Config { files: <slot of parse_source's result> }
    ctor = []
    for f in c.fns.values():
        for b, i, rv, s in f.aggregates("Config"):
            if rv["adt"].split("::")[-1] == "Config" and "files" in rv.get("fields", []):
                ctor.append((f, b, rv))
    rep.floor("R32.3", "constructions of Config", len(ctor), 1)
    for f, b, rv in ctor:
        rep.saw(f)
        where = short_fn(f)
        op = rv["ops"][rv["fields"].index("files")]
        proj_all = []
        call = None
        trail = set()
        for _ in range(10):
            k, l, proj = root(f, op, trail)
            proj_all = proj + proj_all
            d = single_def(f, l) if k == "local" else None
            if not d or d[2] != "call":
                break
            call = Call(d[0], d[3])
            if call.matches(TRANSPARENT):
                op = call.args[0]
                call = None
                continue
            break
        fields = [p for p in proj_all if re.fullmatch(r"\.\d+", p)]
        ok = call is not None and call.matches("parse_source") and bool(fields) and len(slots) == 1 and \
            fields[-1] == f".{next(iter(slots))}"
        rep.ob("R32.3", f"Config.files in {where} is the tracked slot of parse_source's result", ok,
               f"source call {call.callee if call else None}, projections {proj_all}, tracked slot {sorted(slots)}", f.loc(b))
        muts = [bb for bb in sorted(f.live) for s_ in f.stmts(bb)
                if s_["k"] == "=" and s_["rv"]["k"] in ("ref", "rawptr") and s_["rv"]["p"]["l"] in trail and
                (s_["rv"].get("m") or s_["rv"]["k"] == "rawptr")]
        rep.ob("R32.3", f"{where}: the list is not modified between parse_source and Config", not muts,
               "the vector returned by parse_source is borrowed mutably before it is stored in Config.files",
               f.loc(muts[0]) if muts else f.loc(b))
    rep.ob("R32.3", "Config is constructed only in its Parse impl", all(f.d.get("trait", "") and "Parse" in f.d["trait"]
                                                                      for f, _, _ in ctor), "", "")
    callers = [f for f in c.fns.values() if f.calls("parse_source") and any(
        x.callee.endswith("parse_source") for x in f.calls("parse_source"))]
    rep.ob("R32.3", "parse_source is called from Config's Parse impl only",
           len(callers) == 1 and callers[0].d.get("self_ty") and mir.base_type(callers[0].d["self_ty"]) == "Config",
           f"{[short_fn(f) for f in callers]}", "")
    # who may write Config.files
    for f in c.fns.values():
        for b, i, s in f.field_stores("files"):
            rep.ob("R32.3", f"`.files` is assigned in {short_fn(f)}", False,
                   "Config.files is overwritten after parsing", f.loc(b))
        for b in sorted(f.live):
            for s in f.stmts(b):
                if s["k"] == "=" and s["rv"]["k"] in ("ref", "rawptr") and ".files" in s["rv"]["p"].get("p", []) and \
                        (s["rv"].get("m") or s["rv"]["k"] == "rawptr"):
                    rep.ob("R32.3", f"`.files` is borrowed mutably in {short_fn(f)}", False,
                           "Config.files can be modified after parsing", f.loc(b))


# ------------------------------------------------------------------------------------------------------------ R32.4
def r4(rep, c, st):
    """Every source form reads through the tracked closure."""
    ps = c.fn("parse_source")
    tracked_fns = [p for p in st.get("tracked", {}) if p != ps.path]
    sites = [x for x in ps.calls() if any(n in tracked_fns for n in x.names())]
    rep.floor("R32.4", "calls of the tracked closure in parse_source", len(sites), 4)
    C = {x.bb for x in sites}
    O = {b for b, _ in ok_sites(ps)}
    # decision tree on the `source` argument
    sws = [(b, m, o) for b, m, o in discr_switches(ps) if o.get("of", {}).get("kind") == "arg" and o["of"].get("n") == 1]
    edges = []
    for b, m, o in sws:
        for v, t in m.items():
            if v == "_else_variants":
                continue
            if v == "else":
                # `if let Some(p) = path {..} else {..}`: the remaining variants are taken through the else edge
                rest = [x for x in m.get("_else_variants", []) if x not in m]
                if not rest or any(t == t2 for v2, t2 in m.items() if v2 not in ("else", "_else_variants")):
                    continue
                v = "|".join(sorted(rest))
            edges.append((b, v, t, ps.edge_region(b, t)))
    leaves = []
    for b, v, t, reg in edges:
        if any(b2 in reg for b2, _, _, _ in edges if b2 != b):
            continue
        chain = sorted([(len(ps.dom.get(b2, ())), v2) for b2, v2, t2, reg2 in edges if b in reg2]) + [(10 ** 6, v)]
        leaves.append(("/".join(x for _, x in chain), b, t))
    rep.floor("R32.4", "source forms distinguished by parse_source", len(leaves), 4)
    # the only way around the read: the default directory does not exist
    skip = [(sw, ft) for sw, ft, tt in bool_switches_on_call(ps, "Path::exists") if ft is not None]
    for name, b, t in sorted(leaves):
        r = ps.reachable(t, avoid=C, avoid_edges=skip)
        rep.ob("R32.4", f"source form {name}: files are read through the tracked closure on every path to Ok",
               not (r & O) and bool(C), "this form reaches Ok without going through the tracked read", ps.loc(b))
        r2_ = ps.reachable(t, avoid=C)
        if r2_ & O:
            # the form may skip reading: only when a directory-existence test fails
            rep.ob("R32.4", f"source form {name}: the read is skipped only when the directory does not exist", bool(skip),
                   "", ps.loc(b))
    # every closure call's failure is propagated (an Err read never yields Ok with a partial list)
    untested = [x for x in sites if not [sw for sw, t in success_edges(ps, x) if sw != x.bb]]
    rep.ob("R32.4", "parse_source: the tracked closure's result is tested at every call", not untested,
           f"{len(untested)} call(s) ignore the result", ps.loc(untested[0].bb) if untested else ps.loc())


# ------------------------------------------------------------------------------------------------------------ R32.5
def r5(rep, c, st):
    f = c.method("Config", "expand")
    rep.saw(f)
    oks = ok_sites(f)
    rep.floor("R32.5", "Ok result sites of Config::expand", len(oks), 1)
    O = {b for b, _ in oks}
    heads = []
    for x in f.calls("Iterator::next"):
        _, args = back_slice(f, x.args[0])
        if any(n == 1 and ".files" in proj for n, proj in args):
            heads.append(x)
    rep.floor("R32.5", "loops over self.files in Config::expand", len(heads), 1)
    if not heads:
        return
    H = {x.bb for x in heads}
    for b in sorted(O):
        rep.ob("R32.5", "expand: every path to Ok runs the loop over self.files", f.set_dominates(H, b),
               "Ok can be returned without visiting self.files", f.loc(b))
    # both outcomes of the debug test
    dbg = {"self.debug": [], "env WIT_BINDGEN_DEBUG": []}
    for b, t in f.switches():
        o = f.switch_origin(b)
        if o.get("kind") == "arg" and o.get("n") == 1 and ".debug" in o.get("proj", []):
            dbg["self.debug"].append(b)
        elif o.get("kind") == "call" and o["call"].matches("Result::is_ok"):
            cs, _ = back_slice(f, o["call"].args[0])
            if any(x.matches("env::var") for x in cs.values()):
                dbg["env WIT_BINDGEN_DEBUG"].append(b)
    rep.floor("R32.5", "debug-output tests in Config::expand", sum(len(v) for v in dbg.values()), 2)
    for kind, bs in sorted(dbg.items()):
        for label, pick in (("on", lambda tg: [t for v, t in tg.items() if v == "else"]),
                            ("off", lambda tg: [t for v, t in tg.items() if v != "else"])):
            bad = [b for b in bs for t in pick(f.switch_targets(b)) if not f.all_paths_pass(t, O, H)]
            rep.ob("R32.5", f"expand: `{kind}` test, outcome {label}: Ok only after the loop over self.files", not bad and bool(bs),
                   "this debug setting returns without the include_bytes! items", f.loc(bad[0]) if bad else f.loc())
    st["fmt_lines"] = set()
    for h in heads:
        sw = [(b, m) for b, m, o in discr_switches(f) if o.get("of", {}).get("kind") == "call" and o["of"]["call"].bb == h.bb]
        rep.ob("R32.5", "expand: the loop tests the iterator's result", len(sw) == 1, f"{len(sw)} switches", f.loc(h.bb))
        if len(sw) != 1:
            continue
        b, m = sw[0]
        some_t, none_t = variant_target(m, "Some"), variant_target(m, "None")
        # per element: an append to the returned stream whose payload is parse(format(.. element ..))
        ret_roots = set()
        for ob_, rv in oks:
            k, l, proj = root(f, rv["ops"][0])
            ret_roots.add((k, l))
        ext = []
        for x in f.calls(STREAM_ADDERS):
            if len(x.args) < 2:
                continue
            k, l, proj = root(f, x.args[0])
            if (k, l) not in ret_roots or k != "local":
                continue
            cs, _ = back_slice(f, x.args[1])
            fm = [y for y in cs.values() if y.matches(["fmt::format", "fmt::format::format_inner"])]
            dep = []
            for y in fm:
                ys, _ = back_slice(f, y.args[0])
                if h.bb in ys:
                    dep.append(y)
            if dep and any(y.matches(PARSE_STR) for y in cs.values()):
                ext.append(x)
                st["fmt_lines"].update((y.file, y.line) for y in dep)
                # between the element and the formatted text the path is not rewritten (parent / file_name / join ..)
                rew = [y for y in cs.values() if y.matches(PATH_REWRITERS) and
                       any(h.bb in back_slice(f, a)[0] for a in y.args)]
                rep.ob("R32.5", "expand: the element's path is printed unmodified", not rew,
                       f"{[y.callee for y in rew]} applied to the element before it is formatted", f.loc(x.bb))
        rep.floor("R32.5", "per-element appends to the returned token stream", len(ext), 1)
        E = {x.bb for x in ext}
        # inside the loop nothing else is appended to the returned stream (e.g. an attribute that disables the item)
        body = f.reachable(some_t, avoid=[h.bb]) if some_t is not None else set()
        for x in f.calls(STREAM_ADDERS):
            if x.bb in body and x.bb not in E and len(x.args) >= 1:
                k, l, proj = root(f, x.args[0])
                if (k, l) in ret_roots:
                    rep.ob("R32.5", "expand: inside the loop only the include_bytes! item is appended to the returned stream",
                           False, "extra tokens are appended next to the item (they can change how it is compiled)", f.loc(x.bb))
        rep.ob("R32.5", "expand: each element of self.files appends a stream parsed from a string formatted with it",
               bool(E) and some_t is not None and f.all_paths_pass(some_t, O | H, E),
               "an element of self.files can be skipped", f.loc(b))
        rep.ob("R32.5", "expand: Ok is built only when self.files is exhausted",
               some_t is not None and f.all_paths_pass(some_t, O, H) and none_t is not None and bool(f.reachable(none_t) & O),
               "the loop can be left before the last element", f.loc(b))
        # the returned stream is not replaced / emptied once the loop has started
        after = f.reachable(h.bb)
        for k, l in ret_roots:
            if k != "local":
                continue
            redef = [d for d in f.defs.get(l, []) if d[0] in after and d[0] in f.live]
            rep.ob("R32.5", "expand: the returned stream is not reassigned after the loop starts", not redef, "", f.loc(h.bb))
            for x in f.calls():
                if x.bb not in after:
                    continue
                for i, a in enumerate(x.args):
                    kk, ll, pp = root(f, a)
                    ty = x.arg_types[i] if i < len(x.arg_types) else ""
                    if kk == "local" and ll == l and ty.startswith("&mut"):
                        rep.ob("R32.5", f"expand: after the loop starts the returned stream is only appended to "
                                        f"({mir.norm(x.callee).split('::')[-1]})", x.matches(STREAM_ADDERS), "", f.loc(x.bb))
    # self.files reaches the loop unmodified
    it_calls = set()
    for h in heads:
        cs, _ = back_slice(f, h.args[0])
        it_calls |= set(cs)
    for x in f.calls():
        for i, a in enumerate(x.args):
            k, n, proj = root(f, a)
            ty = x.arg_types[i] if i < len(x.arg_types) else ""
            if k == "arg" and n == 1 and ".files" in proj and (ty.startswith("&mut") or not ty.startswith("&")):
                rep.ob("R32.5", f"expand: self.files is only consumed by the loop ({mir.norm(x.callee).split('::')[-1]})",
                       x.bb in it_calls, "self.files is modified or moved away before the loop", f.loc(x.bb))


# ------------------------------------------------------------------------------------------------------------ R32.6
PLACEHOLDER = "__c32_tracked_path__"
WHOLE_PATH_TEXT = {"display", "to_str", "to_string_lossy"}
WHOLE_PATH_NEUTRAL = {"unwrap", "expect", "as_path", "as_os_str", "to_path_buf", "clone", "to_owned", "as_ref", "to_string",
                      "into_owned"}


def r6(rep, c, st):
    fn = synq.find_fn(REL, "expand", self_ty="Config")
    rep.saw(f"{REL}::Config::expand")
    loops = [n for n in synq.walk(fn.body) if n.get("k") == "for" and
             any(x.get("k") == "field" and x.get("member") == "files" and synq.render(x["base"]) == "self"
                 for x in synq.walk(n["iter"]))]
    rep.floor("R32.6", "`for` loops over self.files in Config::expand", len(loops), 1)
    nfm = 0
    for lp in loops:
        vars_ = {b["name"] for b in synq.walk(lp["pat"]) if b.get("k") == "p_ident"}
        for fm in synq.fmts(lp["body"]):
            if fm.name != "format" or fm.template is None:
                continue
            nfm += 1
            holes = fm.hole_exprs()
            lets = {nm: init for nm, init, _ in synq.bindings(lp["body"]) if init is not None}
            resolved = []
            for kind, key, e, off in holes:
                if e is None:                                   # implicit capture `{name}`
                    e = {"k": "path", "path": key} if key in vars_ else lets.get(key)
                for _ in range(4):                              # look through `let p = <expr>;` inside the loop body
                    if e is not None and e.get("k") == "path" and e["path"] in lets and e["path"] not in vars_:
                        e = lets[e["path"]]
                resolved.append(e)
            rep.ob("R32.6", "template has exactly one hole and it is filled from the loop element",
                   len(holes) == 1 and all(e is not None and any(x.get("k") == "path" and x["path"] in vars_
                                                                 for x in synq.walk(e)) for e in resolved),
                   f"{fm.template!r}", fn.loc(fm.node))
            specs = re.findall(r"(?<!\{)\{([^{}]*)\}(?!\})", fm.template)
            rep.ob("R32.6", "the hole prints the path with Display (no `:?` quoting inside the literal)",
                   all(":" not in s_ for s_ in specs), f"{specs}", fn.loc(fm.node))
            # the element is printed as a whole path (Path::display / to_str ..), not e.g. its file name
            for e in resolved:
                if e is None:
                    continue
                x, chain = e, []
                while x.get("k") in ("mcall", "ref", "paren"):
                    if x["k"] == "mcall":
                        chain.append(x["method"])
                        x = x["recv"]
                    else:
                        x = x["e"]
                rep.ob("R32.6", "the hole is the element's whole path (`<elem>.display()`)",
                       x.get("k") == "path" and x["path"] in vars_ and bool(set(chain) & WHOLE_PATH_TEXT) and
                       set(chain) <= WHOLE_PATH_TEXT | WHOLE_PATH_NEUTRAL, synq.render(e), fn.loc(e))
            text = re.sub(r"(?<!\{)\{[^{}]*\}(?!\})", PLACEHOLDER, fm.template).replace("{{", "{").replace("}}", "}")
            try:
                tree = facts.parse_snippet(text)
            except Exception as ex:  # not Rust: fail closed
                tree = None
                rep.ob("R32.6", "template parses as Rust items", False, f"{ex!r}", fn.loc(fm.node))
            if tree is None:
                continue
            incs = [m for m in synq.walk(tree) if m.get("k") == "macro" and synq.short(m["name"]) in ("include_bytes", "include_str")]
            good = [m for m in incs if len(m.get("args") or []) == 1 and m["args"][0].get("k") == "str" and
                    m["args"][0]["v"] == PLACEHOLDER]
            rep.ob("R32.6", "template is an item containing include_bytes!(\"<path>\") with the hole as the whole literal",
                   len(good) == 1 and tree.get("mode") == "file" and len(tree.get("items", [])) >= 1,
                   f"{fm.template!r}", fn.loc(fm.node))
            # the include is in the item's value (not behind a cfg / inside a never-expanded macro body)
            top = [it for it in tree.get("items", []) if it.get("k") in ("const", "static") and
                   any(m is g for g in good for m in synq.walk(it.get("e") or {}))]
            rep.ob("R32.6", "the include_bytes! is the initialiser of an unconditional const/static item",
                   len(top) == 1 and not top[0].get("attrs"), f"{fm.template!r}", fn.loc(fm.node))
            # joined with the MIR: this is the format call whose result is parsed and appended in the loop
            lines = {l for fl, l in st.get("fmt_lines", set()) if fl.endswith(REL)}
            rep.ob("R32.6", "this format! is the one whose result the loop appends (MIR join by span)",
                   synq.line(fm.node) in lines, f"MIR format sites at lines {sorted(lines)}", fn.loc(fm.node))
    rep.floor("R32.6", "format! templates inside the loop over self.files", nfm, 1)
    rep.ob("R32.6", "the loop has a single template", nfm == 1, f"{nfm}", fn.loc())


# ------------------------------------------------------------------------------------------------------------ R32.7
def _fn_consts(f):
    """function items named as values (fn pointers / closures-by-name) in f: an over-approximation of indirect callees"""
    out = []
    for b in sorted(f.live):
        ops = []
        for s_ in f.stmts(b):
            if s_["k"] == "=":
                ops += _rv_operands(s_["rv"])
        t = f.term(b)
        if t["k"] == "call":
            ops += t["args"]
        out += [o["fn"] for o in ops if isinstance(o, dict) and "c" in o and "fn" in o]
    return out


def _key(crate_name, name):
    n = mir.norm(name)
    return crate_name + n[len("crate"):] if n.startswith("crate::") else n


def r7(rep, c=None):
    """No function of the generator crates that can reach a wit-parser file reader (through direct calls) is callable
    from the macro: not called / named by the macro crate, not a trait method (dynamic dispatch from
    WorldGenerator::generate), not used as a function value."""
    c = c or mir.load(*MACRO)
    gens = [mir.load("ws", cr, kind) for cr, kind in GENERATOR_CRATES]
    rep.floor("R32.7", "functions scanned in the generator crates", sum(len(g.fns) for g in gens), 400)
    edges = {}      # callee key -> set of caller keys
    info = {}
    for g in gens + [c]:
        for f in g.fns.values():
            k = _key(g.name, f.path)
            info[k] = (g, f)
            for x in f.calls():
                for n in x.names():
                    edges.setdefault(_key(g.name, n), set()).add(k)
            for n in _fn_consts(f):
                edges.setdefault(_key(g.name, n), set()).add(k)
    bad = {}
    for g in gens:
        for f in g.fns.values():
            for call in reader_calls(f):
                bad.setdefault(_key(g.name, f.path), (g, f, call))
    def ancestors(start):
        anc, work = {start}, [start]
        while work:
            k = work.pop()
            parents = {re.sub(r"::\{closure#\d+\}$", "", k)} - {k}          # a closure runs when its parent runs
            for p in set(edges.get(k, ())) | parents:
                if p not in anc:
                    anc.add(p)
                    work.append(p)
        return anc

    for k, (g, f, call) in sorted(bad.items()):
        anc = ancestors(k)
        via_macro = sorted(short_fn(info[a][1]) for a in anc if a in info and info[a][0] is c)
        rep.ob("R32.7", f"{g.name}: reader {mir.norm(call.callee).split('::')[-1]} in {short_fn(f)} is not reachable from the macro crate",
               not via_macro, f"reached from {via_macro}", f.loc(call.bb))
        dyn = sorted(short_fn(info[a][1]) for a in anc if a in info and info[a][0] is not c and info[a][1].d.get("trait"))
        rep.ob("R32.7", f"{g.name}: reader {mir.norm(call.callee).split('::')[-1]} in {short_fn(f)} is not reachable from a trait method",
               not dyn, f"dynamically dispatchable callers: {dyn}", f.loc(call.bb))
    rep.ob("R32.7", "generator crates: every wit-parser reader site was classified", True, f"{len(bad)} function(s) with readers", "",
           nontrivial=False)


# ------------------------------------------------------------------------------------------------------------ R32.8
def r8(rep, c):
    f = c.fn("crate::generate")
    rep.saw(f)
    ex = f.calls("Config::expand")
    rep.floor("R32.8", "calls of Config::expand in generate", len(ex), 1)
    for x in ex:
        cs, _ = back_slice(f, x.args[0])
        rep.ob("R32.8", "generate expands the Config it parsed from the macro input",
               any(y.matches(["syn::parse", "syn::parse2", "Parse::parse", "ParseBuffer::parse"]) for y in cs.values()), "", f.loc(x.bb))
        outs = []
        for y in f.calls():
            if y.dest["l"] == 0 and not y.dest.get("p"):
                ys, _ = back_slice(f, y.args[0]) if y.args else ({}, [])
                if x.bb in ys:
                    outs.append(y.bb)
        rep.ob("R32.8", "generate returns the stream produced by Config::expand",
               bool(outs) and f.all_paths_pass(x.bb, f.returns(), outs), "", f.loc(x.bb))
    others = [g for g in c.fns.values() if g.path != f.path and g.calls("Config::expand")]
    rep.ob("R32.8", "Config::expand has no other caller", not others, f"{[short_fn(g) for g in others]}", "")


# ------------------------------------------------------------------------------------------------------------ R32.9
def r9(rep, c):
    """The file names that end up in include_bytes! are the ones wit-parser was given: rooted at CARGO_MANIFEST_DIR."""
    ps = c.fn("parse_source")
    n = 0
    for f in c.fns.values():
        for call in reader_calls(f):
            n += 1
            nm = f"{mir.norm(call.callee).split('::')[-1]} in {short_fn(f)}"
            cs, args = back_slice(f, call.args[1]) if len(call.args) > 1 else ({}, [])
            joins = [j for j in cs.values() if j.matches("Path::join")]
            rooted = []
            for j in joins:
                js, jargs = back_slice(f, j.args[0])
                envs = [e for e in js.values() if e.matches("env::var")]
                if f.path != ps.path:
                    # receiver is a captured variable of parse_source: follow the capture
                    for an, proj in jargs:
                        cap = capture_index(list(proj))
                        if an != 1 or cap is None:
                            continue
                        aggs = [s_["rv"] for b in sorted(ps.live) for s_ in ps.stmts(b)
                                if s_["k"] == "=" and s_["rv"]["k"] == "agg" and s_["rv"].get("closure") == f.path]
                        for rv in aggs:
                            if cap < len(rv["ops"]):
                                es, _ = back_slice(ps, rv["ops"][cap])
                                envs += [(ps, e) for e in es.values() if e.matches("env::var")]
                envs = [(f, e) if not isinstance(e, tuple) else e for e in envs]
                if any(g.origin(e.args[0]).get("s") == "CARGO_MANIFEST_DIR" for g, e in envs):
                    rooted.append(j)
            rep.ob("R32.9", f"{nm}: the path read is joined onto CARGO_MANIFEST_DIR", bool(rooted),
                   "a relative name would be recorded; include_bytes! resolves it against the invoking source file, not "
                   "against the directory the read used", f.loc(call.bb))
            rep.ob("R32.9", f"{nm}: every path to the read passes that join",
                   bool(rooted) and f.set_dominates({j.bb for j in rooted}, call.bb), "", f.loc(call.bb))
    rep.floor("R32.9", "reader sites checked for rooted paths", n, 1)
