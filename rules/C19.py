"""C19 — stream writes and reads transfer each value exactly once, in order (structural clauses)."""
import re

from lib import mir
from .rtcommon import (configs, rt, every_return_passes, bool_switches_on_call, discr_switches, variant_target,
                       ind_calls)

CLAIM = dict(
    level="other", engine="mirfacts+witness", design="DESIGN.md §5 C19",
    technique="MIR value-origin tracing (count flows from ReturnCode::decode), arm-effect tables, dominator / "
              "must-pass-through rules on the stream ops, AbiBuffer and the futures adapter + compile_fail witnesses",
    text="Static rules on the runtime crate's MIR: the return-code decoder matches the canonical ABI bit layout; "
         "a write advances the buffer exactly once by the decoded count and reports that count, a read appends exactly "
         "that many items in order behind a capacity assertion; Dropped/Cancelled/Blocked results touch nothing; a "
         "finished end never calls the built-in again; AbiBuffer pairs forget/from_raw_parts, resets itself in "
         "take_vec, bumps its cursor before each dealloc_lists and always starts at the cursor; write_all, next, "
         "collect and the futures adapter keep every item. Partial: host schedules are not explored.",
    note="mir")

CONV = re.compile(r"::(try_into|try_from|unwrap|expect|into|from)$")
PTR_ADD = re.compile(r"ptr::(mut_ptr|const_ptr)::<impl \*(mut|const) T>::(add|offset|byte_add)$")
COUNT_VARIANTS = {"Completed", "Dropped", "Cancelled"}
TAKE = ["mem::take", "mem::replace"]


# --------------------------------------------------------------------------- helpers (module-local)
def is_call(o, pat):
    return o.get("kind") == "call" and o["call"].matches(pat)


def peel(f, o, pat=CONV):
    """look through value-preserving single-argument conversions (`try_into().unwrap()`, `usize::try_from`)."""
    n = 0
    while o.get("kind") == "call" and o["call"].matches(pat) and o["call"].args and n < 8:
        o = f.origin(o["call"].args[0])
        n += 1
    return o


def leaves(f, o, depth=5):
    """expand a local with several whole assignments into the origins of each assignment."""
    if o.get("kind") == "place" and o.get("ndefs", 0) > 1 and depth > 0 and "local" in o:
        out = []
        for b, i, kind, payload in f.defs.get(o["local"], []):
            if kind == "partial":
                continue
            if kind == "call":
                out.append({"kind": "call", "call": mir.Call(b, payload), "proj": list(o.get("proj", []))})
            elif payload["k"] == "use":
                sub = dict(f.origin(payload["o"]))
                if o.get("proj"):
                    sub["proj"] = list(sub.get("proj", [])) + list(o["proj"])
                out.extend(leaves(f, sub, depth - 1))
            elif payload["k"] == "agg":
                out.append({"kind": "agg", "rv": payload, "bb": b})
            else:
                out.append({"kind": "rv", "rv": payload})
        return out
    return [o]


def count_src(f, op_or_origin, decode_bbs):
    """set of ReturnCode variants whose payload the value is copied from (through conversions only), else None."""
    o = op_or_origin if "kind" in op_or_origin else f.origin(op_or_origin)
    vs = set()
    for lf in leaves(f, peel(f, o)):
        lf = peel(f, lf)
        subs = leaves(f, lf)
        for s in subs:
            if not (is_call(s, "ReturnCode::decode") and s["call"].bb in decode_bbs):
                return None
            pr = [p for p in s.get("proj", []) if p != "&"]
            if len(pr) != 2 or not pr[0].startswith("as ") or pr[1] != ".0" or pr[0][3:] not in COUNT_VARIANTS:
                return None
            vs.add(pr[0][3:])
    return vs or None


def same_site(a, b):
    return a.get("kind") == "call" and b.get("kind") == "call" and a["call"].bb == b["call"].bb


def arg_field(o, n, field):
    """origin is (a projection of) argument n reaching `.field`."""
    return o.get("kind") == "arg" and o.get("n") == n and ("." + field) in o.get("proj", [])


def ret_stores(f):
    """assignments to the return place: list of (bb, stmt)."""
    return [(b, s) for b in sorted(f.live) for s in f.stmts(b)
            if s["k"] == "=" and s["p"]["l"] == 0 and not s["p"].get("p")]


def agg_of(f, s):
    """aggregate rvalue an assignment stores (directly or through one temporary), else None."""
    o = f.stored(s)
    return o["rv"] if o.get("kind") == "agg" else None


def op_agg(f, op):
    o = f.origin(op)
    return o["rv"] if o.get("kind") == "agg" else None


def diverges(f, b):
    return not (f.reachable(b) & set(f.returns()))


def no_second(f, blocks):
    """no path executes two of `blocks` (nor one of them twice)."""
    bs = set(blocks)
    for a in bs:
        for s in f.succ[a]:
            if f.reachable(s) & bs:
                return False
    return True


def loop_passes(f, b, through):
    """every path from block b back to itself passes one of `through`."""
    return all(f.all_paths_pass(s, [b], through) for s in f.succ[b])


def guards_of(f, site):
    """dominating switch edges of a site, as (origin, values)."""
    return [(o, vals) for _, vals, o in f.guard_edges(site)]


def guarded_by_variant(f, site, decode_bbs, names, depth=2):
    """site only reachable through a ReturnCode discriminant edge whose variants are within `names`
    (directly, or through a bool temporary as produced by `matches!`)."""
    for o, vals in guards_of(f, site):
        if o.get("kind") == "place" and o.get("ndefs", 0) > 1 and "local" in o and depth > 0 and vals in ([0], ["else"]):
            want = 0 if vals == [0] else 1
            defs = [(b, pl) for b, i, kind, pl in f.defs.get(o["local"], []) if kind == "assign"]
            if defs and all(pl["k"] == "use" and "c" in pl["o"] and "v" in pl["o"] for _, pl in defs):
                hit = [b for b, pl in defs if int(pl["o"]["v"]) == want]
                if hit and all(guarded_by_variant(f, b, decode_bbs, names, depth - 1) for b in hit):
                    return True
            continue
        if o.get("kind") != "discr" or "ReturnCode" not in o.get("ty", ""):
            continue
        src = leaves(f, o["of"])
        if not all(is_call(s, "ReturnCode::decode") and s["call"].bb in decode_bbs for s in src):
            continue
        if "else" in vals:
            continue
        if {o["vars"].get(v) for v in vals} <= set(names):
            return True
    return False


def guarded_by_zero_count(f, site, decode_bbs, variant):
    for o, vals in guards_of(f, site):
        if is_call(o, "ReturnCode::decode") and o["call"].bb in decode_bbs and vals == [0]:
            pr = [p for p in o.get("proj", []) if p != "&"]
            if pr == ["as " + variant, ".0"]:
                return True
        if o.get("kind") == "bin" and o["op"] == "Eq" and vals == ["else"]:
            for x, y in ((o["a"], o["b"]), (o["b"], o["a"])):
                if y.get("kind") == "const" and y.get("v") == 0 and count_src(f, x, decode_bbs) == {variant}:
                    return True
    return False


def run(rep, tier):
    rep.describe(
        "other",
        "Decides structural necessary conditions of C19 on the MIR of the runtime crate. R19.1 the return-code "
        "decoder follows the canonical ABI layout. R19.2 per-arm effects of the two in_progress_update functions "
        "(count flows unchanged from the decoder into AbiBuffer::advance / set_len / the lift loop and into "
        "StreamResult::Complete; nothing is touched on Blocked/Dropped(0)/Cancelled(0)). R19.3 a finished end "
        "answers DROPPED without calling the built-in, the length is capped by MAX_LENGTH. R19.4 AbiBuffer's "
        "ownership moves (forget/from_raw_parts pairs, take_vec resets, Drop, advance, cursor-relative pointer). "
        "R19.5 compile_fail witnesses: one operation per end at a time. R19.6 write_all. R19.7 the futures adapter. "
        "R19.8 `next` must not discard surplus items. R19.9 collect and the forwarding shims. It does NOT decide what "
        "the peer observes, the host's behaviour, or behaviour under a concrete schedule.",
        trusted_base=["rustc nightly MIR (opt-level 0) of crates/guest-rust", "unwind edges ignored (panic = trap)",
                      "tools/mirfacts", "rustc type checker (witnesses)",
                      "alloc::vec::Vec model: with_capacity(n).capacity() == n only for non-zero-sized T (R19.8)"],
        assumptions=["native (x86_64) build of the runtime: extern_wasm! built-ins appear as shim functions",
                     "canonical ABI: BLOCKED = 0xffff_ffff, otherwise code = kind | count << 4"],
    )
    for cfg in configs(tier):
        rep.guard("R19", f"config:{cfg}", lambda cfg=cfg: one(rep, rt(cfg), cfg))
    from .witness import run_witness
    rep.guard("R19.5", "witness", lambda: run_witness(rep, "C19", "R19.5"))


def one(rep, c, cfg):
    tag = f"[{cfg}]"
    r1(rep, c, tag)
    for side in ("write", "read"):
        rep.guard("R19.2", f"{side} in_progress_update {tag}", lambda side=side: r2(rep, c, tag, side))
        rep.guard("R19.3", f"{side} start {tag}", lambda side=side: r3(rep, c, tag, side))
    r4(rep, c, tag)
    r6(rep, c, tag)
    r7(rep, c, tag, cfg)
    r8(rep, c, tag)
    r9(rep, c, tag)
    r10(rep, c, tag, cfg)


# --------------------------------------------------------------------------- R19.1
def r1(rep, c, tag):
    def go():
        exp = {"BLOCKED": 0xffff_ffff, "COMPLETED": 0, "DROPPED": 1, "CANCELLED": 2}
        for k, v in exp.items():
            rep.ob("R19.1", f"const {k} == {v:#x} {tag}", c.const(k) == v, f"found {c.const(k):#x}")
        f = c.method("ReturnCode", "decode")
        rep.saw(f)
        blocked_sw = None
        kind_sw = None
        for b, _ in f.switches():
            o = f.switch_origin(b)
            if o.get("kind") != "bin":
                continue
            ks = {o["a"].get("kind"), o["b"].get("kind")}
            if o["op"] == "Eq" and ks == {"arg", "const"}:
                blocked_sw = (b, o)
            if o["op"] == "BitAnd" and ks == {"arg", "const"}:
                kind_sw = (b, o)
        rep.floor("R19.1", f"BLOCKED comparison in decode {tag}", 1 if blocked_sw else 0, 1)
        rep.floor("R19.1", f"kind switch in decode {tag}", 1 if kind_sw else 0, 1)
        if blocked_sw:
            b, o = blocked_sw
            cst = o["a"] if o["a"]["kind"] == "const" else o["b"]
            rep.ob("R19.1", f"decode: compares the whole code with BLOCKED {tag}", cst.get("v") == exp["BLOCKED"],
                   f"compared with {cst.get('v')}", f.loc(b))
            tt = f.switch_targets(b)["else"]
            rg = f.edge_region(b, tt)
            aggs = [(bb, rv) for bb, _, rv, _ in f.aggregates("ReturnCode") if bb in rg]
            rep.ob("R19.1", f"decode: code == BLOCKED yields Blocked and nothing else {tag}",
                   bool(aggs) and all(rv["var"] == "Blocked" for _, rv in aggs), "", f.loc(b))
            rep.ob("R19.1", f"decode: Blocked is produced only for code == BLOCKED {tag}",
                   all(bb in rg for bb, _, rv, _ in f.aggregates("ReturnCode", "Blocked")), "", f.loc(b))
            if kind_sw:
                rep.ob("R19.1", f"decode: BLOCKED is tested before the kind bits {tag}",
                       f.dominates(b, kind_sw[0]) and kind_sw[0] in f.reachable(f.switch_targets(b)[0]), "", f.loc(b))
        if kind_sw:
            b, o = kind_sw
            cst = o["a"] if o["a"]["kind"] == "const" else o["b"]
            rep.ob("R19.1", f"decode: kind = code & 0xf {tag}", cst.get("v") == 0xf, f"mask {cst.get('v')}", f.loc(b))
            tg = f.switch_targets(b)
            want = {exp["COMPLETED"]: "Completed", exp["DROPPED"]: "Dropped", exp["CANCELLED"]: "Cancelled"}
            rep.ob("R19.1", f"decode: exactly the kinds 0,1,2 are accepted {tag}",
                   {k for k in tg if k != "else"} == set(want), f"cases {sorted(k for k in tg if k != 'else')}", f.loc(b))
            rep.ob("R19.1", f"decode: an unknown kind never returns {tag}", diverges(f, tg["else"]), "", f.loc(b))
            for v, name in want.items():
                if v not in tg:
                    continue
                rg = f.edge_region(b, tg[v])
                aggs = [(bb, rv) for bb, _, rv, _ in f.aggregates("ReturnCode") if bb in rg]
                rep.ob("R19.1", f"decode: kind {v} yields {name} {tag}",
                       len(aggs) == 1 and aggs[0][1]["var"] == name, f"{[rv['var'] for _, rv in aggs]}", f.loc(tg[v]))
                for bb, rv in aggs:
                    co = f.origin(rv["ops"][0]) if rv["ops"] else {}
                    ok = co.get("kind") == "bin" and co["op"] == "Shr" and co["a"].get("kind") == "arg" and \
                        co["b"].get("kind") == "const" and co["b"].get("v") == 4
                    rep.ob("R19.1", f"decode: {name} carries code >> 4 {tag}", ok,
                           "the count is not the code shifted right by 4", f.loc(bb))
    rep.guard("R19.1", f"decode {tag}", go)


# --------------------------------------------------------------------------- R19.2
def r2(rep, c, tag, side):
    ty = "StreamWriteOp" if side == "write" else "StreamReadOp"
    f = c.method(ty, "in_progress_update", trait="WaitableOp")
    rep.saw(f)
    R = "R19.2"
    nm = f"{side} update"
    dec = f.calls("ReturnCode::decode")
    rep.ob(R, f"{nm}: exactly one ReturnCode::decode of the delivered code {tag}",
           len(dec) == 1 and f.origin(dec[0].args[0]).get("kind") == "arg" and f.origin(dec[0].args[0]).get("n") == 3,
           f"{len(dec)} decode call(s)", f.loc())
    D = {x.bb for x in dec}
    sws = [(b, m, o) for b, m, o in discr_switches(f, ty_sub="ReturnCode") if is_call(o["of"], "ReturnCode::decode")]
    rep.floor(R, f"{nm}: match on the decoded code {tag}", len(sws), 1)

    comp = f.aggregates("StreamResult", "Complete")
    drp = f.aggregates("StreamResult", "Dropped")
    can = f.aggregates("StreamResult", "Cancelled")
    err = f.aggregates("Result", "Err")
    rep.floor(R, f"{nm}: StreamResult::Complete sites {tag}", len(comp), 1)
    rep.floor(R, f"{nm}: StreamResult::Dropped sites {tag}", len(drp), 1)
    rep.floor(R, f"{nm}: StreamResult::Cancelled sites {tag}", len(can), 1)
    rep.floor(R, f"{nm}: Err (still blocked) sites {tag}", len(err), 1)

    if side == "write":
        adv = f.calls("AbiBuffer::advance")
        effects = [x.bb for x in adv]
        rep.floor(R, f"{nm}: AbiBuffer::advance sites {tag}", len(adv), 1)
        for x in adv:
            rep.ob(R, f"{nm}: advance is given the decoded count unchanged {tag}",
                   count_src(f, x.args[1], D) is not None, "the argument does not flow from ReturnCode's payload",
                   f.loc(x.bb))
        rep.ob(R, f"{nm}: no path advances the buffer twice {tag}", no_second(f, effects), "", f.loc())
        for b, _, rv, _ in comp:
            rep.ob(R, f"{nm}: Complete is reported only after advance {tag}", f.set_dominates(set(effects), b),
                   "a path reports transferred items without advancing the buffer (they would be sent again)", f.loc(b))
    else:
        effects = r2_read_effects(rep, c, f, tag, nm, D, comp)

    for b, _, rv, _ in comp:
        rep.ob(R, f"{nm}: Complete reports the decoded count unchanged {tag}",
               count_src(f, rv["ops"][0], D) is not None, "the reported count does not flow from ReturnCode's payload",
               f.loc(b))
        rep.ob(R, f"{nm}: Complete is never reported for Blocked {tag}",
               guarded_by_variant(f, b, D, COUNT_VARIANTS) or
               all(variant_target(m, "Blocked") is not None and b not in f.reachable(variant_target(m, "Blocked"))
                   for _, m, _ in sws), "", f.loc(b))
    eff = set(effects)
    for kind, sites in (("Dropped", drp), ("Cancelled", can)):
        for b, _, rv, _ in sites:
            rep.ob(R, f"{nm}: {kind} result transfers nothing (no buffer effect on its paths) {tag}",
                   not any(b in f.reachable(e) for e in eff) and not (f.reachable(b) & eff),
                   "the buffer is advanced / filled on a path that reports no count", f.loc(b))
            rep.ob(R, f"{nm}: {kind} result only for code {kind}(0) {tag}",
                   guarded_by_variant(f, b, D, {kind}) and guarded_by_zero_count(f, b, D, kind),
                   "a non-zero count would be reported as no transfer", f.loc(b))
    for b, _, rv, _ in err:
        rep.ob(R, f"{nm}: Blocked keeps the operation in progress without touching the buffer {tag}",
               guarded_by_variant(f, b, D, {"Blocked"}) and not any(b in f.reachable(e) for e in eff)
               and not (f.reachable(b) & eff), "", f.loc(b))
    st = f.field_stores("done")
    rep.floor(R, f"{nm}: `done` stores {tag}", len(st), 1)
    for b, _, s in st:
        rep.ob(R, f"{nm}: `done` is set (to true) only when the peer dropped {tag}",
               f.stores_const(s, 1) and guarded_by_variant(f, b, D, {"Dropped"}),
               "the end is marked finished on a path where the peer is still there", f.loc(b))
        cnt_guard = False
        for sb, vals, o in f.guard_edges(b):
            tg = f.switch_targets(sb)
            others = {t for v, t in tg.items() if v not in vals}
            if others and all(diverges(f, t) for t in others):
                continue  # an assertion, not a choice
            if is_call(o, "ReturnCode::decode") and any(p.startswith("as ") for p in o.get("proj", [])):
                cnt_guard = True
            if o.get("kind") == "bin" and (count_src(f, o["a"], D) is not None or count_src(f, o["b"], D) is not None):
                cnt_guard = True
        rep.ob(R, f"{nm}: `done` is set for every count the peer's drop is reported with (no test on the count) {tag}",
               not cnt_guard, "after Dropped(n) with some n the end would call the built-in again (the host traps)",
               f.loc(b))
    # every Ok/Err result hands the caller's buffer back (the moved-in buffer, not a fresh one)
    bufs = []
    for b, s in ret_stores(f):
        rv = agg_of(f, s)
        if rv is None or rv.get("var") not in ("Ok", "Err"):
            continue
        inner = rv["ops"][0]
        t = op_agg(f, inner)
        if t is not None and "tuple" in t:
            bo = f.origin(t["ops"][1] if rv["var"] == "Ok" else t["ops"][0])
        else:
            bo = f.origin(inner)
        lab = rv["var"]
        if t is not None and "tuple" in t and rv["var"] == "Ok":
            sr = op_agg(f, t["ops"][0])
            lab += "(" + (sr["var"] if sr else "?") + ")"
        bufs.append((b, bo.get("kind") == "arg" and bo.get("n") == 2, lab))
    rep.floor(R, f"{nm}: result constructions {tag}", len(bufs), 4)
    for b, ok, lab in bufs:
        rep.ob(R, f"{nm}: result {lab} carries the buffer that was passed in {tag}", ok,
               "a result does not return the in-progress buffer", f.loc(b))


def local_fn(c, call):
    """the crate-local function a direct call resolves to (by generic-stripped path), else None."""
    if call.ind is not None:
        return None
    for n in call.names():
        np = mir.norm(n)
        hit = [g for g in c.fns.values() if g.npath == np]
        if len(hit) == 1:
            return hit[0]
    return None


def r2_read_effects(rep, c, f, tag, nm, D, comp):
    R = "R19.2"
    setl = f.calls("Vec::set_len")
    # INLINE VIEW: the lift loop may live in the update function itself or in a crate-local helper it calls; a helper
    # is only accepted when its loop is on every path of the helper, and its sites then count as located at the call.
    hosts = []
    if f.calls("StreamOps::lift") or f.calls("Vec::push"):
        hosts.append((f, None))
    for x in f.calls():
        g = local_fn(c, x)
        if g is not None and g is not f and (g.calls("StreamOps::lift") or g.calls("Vec::push")) \
                and not g.npath.endswith("::in_progress_update"):
            hosts.append((g, x))
            rep.saw(g)

    def site(via, bb):
        return bb if via is None else via.bb

    def cnt_ok(h, via, op):
        if via is None:
            return count_src(f, op, D) is not None
        o = h.origin(op)
        if o.get("kind") != "arg" or o.get("proj") or not (1 <= o["n"] <= len(via.args)):
            return False
        return count_src(f, via.args[o["n"] - 1], D) is not None

    lift_sites, push_sites, loops = [], [], []
    for h, via in hosts:
        lift_sites += [site(via, x.bb) for x in h.calls("StreamOps::lift")]
        push_sites += [site(via, x.bb) for x in h.calls("Vec::push")]
    rep.floor(R, f"{nm}: Vec::set_len sites {tag}", len(setl), 1)
    rep.floor(R, f"{nm}: StreamOps::lift sites {tag}", len(lift_sites), 1)
    rep.floor(R, f"{nm}: Vec::push sites {tag}", len(push_sites), 1)
    effects = [x.bb for x in setl] + lift_sites + push_sites
    # capacity assertion
    asserts = []
    for b, _ in f.switches():
        o = f.switch_origin(b)
        if o.get("kind") == "bin" and o["op"] == "Le" and count_src(f, o["a"], D) is not None:
            rhs = o["b"]
            if rhs.get("kind") == "bin" and rhs["op"].startswith("Sub") and is_call(rhs["a"], "Vec::capacity") \
                    and is_call(rhs["b"], "Vec::len") and diverges(f, f.switch_targets(b)[0]):
                asserts.append(b)
    rep.floor(R, f"{nm}: assert!(count <= capacity - len) {tag}", len(asserts), 1)
    for what, bs in (("set_len", [x.bb for x in setl]), ("lift", lift_sites), ("push", push_sites)):
        bad = [b for b in bs if not f.set_dominates(set(asserts), b)]
        rep.ob(R, f"{nm}: the capacity assertion dominates {what} {tag}", not bad,
               "items could be appended past the buffer's capacity", f.loc(bad[0]) if bad else f.loc())
    # native / lifted are exclusive
    nsw = bool_switches_on_call(f, "StreamOps::native_abi_matches_canonical_abi")
    rep.floor(R, f"{nm}: native_abi_matches_canonical_abi test {tag}", len(nsw), 1)
    sl, lf = {x.bb for x in setl}, set(lift_sites + push_sites)
    ok = False
    for b, ft, tt in nsw:
        rt_, rf = f.edge_region(b, tt), f.edge_region(b, ft)
        if sl <= rt_ and lf <= rf:
            ok = True
    ok = ok and not any(f.reachable(a) & lf for a in sl) and not any(f.reachable(a) & sl for a in lf)
    rep.ob(R, f"{nm}: set_len (native layout) and lift+push (lowered layout) are exclusive {tag}", ok,
           "a path both extends the length and pushes lifted items: items would appear twice", f.loc())
    rep.ob(R, f"{nm}: set_len runs at most once {tag}", no_second(f, sl), "", f.loc())
    for x in setl:
        o = f.origin(x.args[1])
        ok = o.get("kind") == "bin" and o["op"].startswith("Add") and (
            (is_call(o["a"], "Vec::len") and count_src(f, o["b"], D) is not None) or
            (is_call(o["b"], "Vec::len") and count_src(f, o["a"], D) is not None))
        rep.ob(R, f"{nm}: set_len(len + decoded count) {tag}", ok, "new length is not old length plus the count",
               f.loc(x.bb))
    # the lift loop(s)
    nloops = 0
    loop_sites = set()
    for h, via in hosts:
        lift = h.calls("StreamOps::lift")
        push = h.calls("Vec::push")
        rngs = [(bb, r) for bb, _, r, _ in h.aggregates("Range") if r["var"] == "Range"]
        okr = [(bb, r) for bb, r in rngs if h.origin(r["ops"][0]).get("v") == 0 and cnt_ok(h, via, r["ops"][1])]
        nloops += len(okr)
        loop_sites |= {site(via, bb) for bb, _ in okr}
        nexts = [(b, m) for b, m, o in discr_switches(h, ty_sub="Option<usize>")
                 if is_call(o["of"], re.compile(r"Range<A>>::next$"))]
        if via is not None:
            # the helper's loop is unconditional and appends to the update's buffer
            okh = bool(nexts) and every_return_passes(h, [b for b, _ in nexts]) and no_second(h, [bb for bb, _ in rngs])
            for p_ in push:
                vo = h.origin(p_.args[0])
                okh = okh and vo.get("kind") == "arg" and 1 <= vo["n"] <= len(via.args) and \
                    f.origin(via.args[vo["n"] - 1]).get("kind") == "arg" and f.origin(via.args[vo["n"] - 1]).get("n") == 2
            rep.ob(R, f"{nm}: the helper holding the lift loop runs it on every path and pushes into the read's buffer {tag}",
                   okh and no_second(f, [via.bb]), "", h.loc())
        for x in lift:
            inloop = any(variant_target(m, "Some") is not None and x.bb in h.edge_region(b, variant_target(m, "Some"))
                         for b, m in nexts)
            rep.ob(R, f"{nm}: lift runs once per step of the 0..count loop {tag}",
                   inloop and h.in_cycle(x.bb) and len(rngs) == len(okr) == 1,
                   "the number of lifted items is not bounded by the decoded count", h.loc(x.bb))
            rep.ob(R, f"{nm}: every lifted item is pushed before the next lift {tag}",
                   loop_passes(h, x.bb, [p.bb for p in push]) and
                   all(same_site(h.origin(p.args[1]), {"kind": "call", "call": x}) for p in push),
                   "a lifted item is dropped or pushed twice", h.loc(x.bb))
            adds = [a for a in h.calls(PTR_ADD) if h.in_cycle(a.bb)]
            src = leaves(h, h.origin(x.args[1]))
            step_ok = any(is_call(peel(h, h.origin(a.args[1])), "Layout::size") for a in adds)
            rep.ob(R, f"{nm}: the source pointer moves one element forward between lifts (order) {tag}",
                   bool(adds) and loop_passes(h, x.bb, [a.bb for a in adds]) and step_ok and
                   any(s.get("kind") == "call" and s["call"].bb in {a.bb for a in adds} for s in src),
                   "successive lifts would read the same slot", h.loc(x.bb))
    rep.floor(R, f"{nm}: loop over 0..count {tag}", nloops, 1)
    for b, _, rv, _ in comp:
        rep.ob(R, f"{nm}: Complete is reported only after set_len or the lift loop {tag}",
               f.set_dominates(sl | loop_sites, b), "a path reports items without appending them", f.loc(b))
    return effects


def r3(rep, c, tag, side):
    R = "R19.3"
    ty = "StreamWriteOp" if side == "write" else "StreamReadOp"
    end = "writer" if side == "write" else "reader"
    builtin = "StreamOps::start_write" if side == "write" else "StreamOps::start_read"
    nm = f"{side} start"
    f = c.method(ty, "start", trait="WaitableOp")
    rep.saw(f)
    if side == "write":
        rep.ob(R, f"MAX_LENGTH == (1 << 28) - 1 {tag}", c.const("MAX_LENGTH") == (1 << 28) - 1,
               f"found {c.const('MAX_LENGTH')}")
    starts = f.calls(builtin)
    rep.floor(R, f"{nm}: {builtin} sites {tag}", len(starts), 1)
    sb = [x.bb for x in starts]
    rep.ob(R, f"{nm}: the built-in is called at most once {tag}", no_second(f, sb), "", f.loc())
    dsw = []
    for b, _ in f.switches():
        o = f.switch_origin(b)
        if arg_field(o, 1, "done") and ("." + end) in o.get("proj", []):
            tg = f.switch_targets(b)
            dsw.append((b, tg.get(0), tg["else"]))
    rep.floor(R, f"{nm}: test of `{end}.done` {tag}", len(dsw), 1)
    dropped = c.const("DROPPED")
    for b, ft, tt in dsw:
        rep.ob(R, f"{nm}: done => the built-in is not called {tag}", not (f.reachable(tt) & set(sb)),
               "a finished end calls the stream built-in again (the host traps)", f.loc(b))
        rg = f.reachable(tt)
        rets = [(bb, agg_of(f, s)) for bb, s in ret_stores(f) if bb in rg and bb not in f.reachable(ft)]
        ok = bool(rets) and all(rv is not None and "tuple" in rv and f.origin(rv["ops"][0]).get("kind") == "const"
                                and f.origin(rv["ops"][0]).get("v") == dropped for _, rv in rets)
        rep.ob(R, f"{nm}: done => answers the code DROPPED {tag}", ok, "", f.loc(tt))
        okb = bool(rets)
        for _, rv in rets:
            if rv is None or "tuple" not in rv:
                okb = False
                continue
            bo = f.origin(rv["ops"][1])
            if bo.get("kind") == "agg" and "tuple" in bo["rv"]:
                bo = f.origin(bo["rv"]["ops"][0])
            okb = okb and bo.get("kind") == "arg" and bo.get("n") == 2
        rep.ob(R, f"{nm}: done => the caller's buffer is handed back {tag}", okb, "", f.loc(tt))
        rep.ob(R, f"{nm}: not done => the built-in is called on every path {tag}",
               f.all_paths_pass(ft, f.returns(), sb), "", f.loc(b))
    rep.ob(R, f"{nm}: no path skips the `done` test {tag}", every_return_passes(f, [b for b, _, _ in dsw]), "", f.loc())
    for x in starts:
        rets = [(bb, agg_of(f, s)) for bb, s in ret_stores(f) if bb in f.reachable(x.bb)]
        ok = bool(rets) and all(rv is not None and "tuple" in rv and
                                same_site(f.origin(rv["ops"][0]), {"kind": "call", "call": x}) for _, rv in rets)
        rep.ob(R, f"{nm}: the built-in's code is returned unchanged {tag}", ok, "", f.loc(x.bb))
        lo = f.origin(x.args[3])
        okm = is_call(lo, re.compile(r"cmp::(Ord::)?min$")) and len(lo["call"].args) == 2
        other = None
        if okm:
            a0, a1 = (f.origin(a) for a in lo["call"].args)
            mx = c.const("MAX_LENGTH")
            if a1.get("kind") == "const" and a1.get("v") == mx:
                other = a0
            elif a0.get("kind") == "const" and a0.get("v") == mx:
                other = a1
        rep.ob(R, f"{nm}: the length is min(available, MAX_LENGTH) {tag}", other is not None,
               "the element count handed to the host is not capped by MAX_LENGTH", f.loc(x.bb))
        po = f.origin(x.args[2])
        if side == "write":
            rep.ob(R, f"{nm}: length is AbiBuffer::abi_ptr_and_len().1 {tag}",
                   other is not None and is_call(other, "AbiBuffer::abi_ptr_and_len") and
                   [p for p in other.get("proj", []) if p != "&"] == [".1"], "", f.loc(x.bb))
            rep.ob(R, f"{nm}: pointer is AbiBuffer::abi_ptr_and_len().0 {tag}",
                   is_call(po, "AbiBuffer::abi_ptr_and_len") and [p for p in po.get("proj", []) if p != "&"] == [".0"]
                   and other is not None and same_site(po, other), "", f.loc(x.bb))
            ho = f.origin(x.args[1])
            rep.ob(R, f"{nm}: handle is the writer's {tag}", arg_field(ho, 1, "handle"), "", f.loc(x.bb))
        else:
            spare = f.calls("Vec::spare_capacity_mut")
            rep.floor(R, f"{nm}: spare_capacity_mut sites {tag}", len(spare), 1)
            sp_ok = len(spare) == 1 and f.origin(spare[0].args[0]).get("kind") == "arg" and \
                f.origin(spare[0].args[0]).get("n") == 2

            def is_spare_len(o):
                return is_call(o, re.compile(r"slice::<impl \[T\]>::len$")) and \
                    same_site(f.origin(o["call"].args[0]), {"kind": "call", "call": spare[0]})
            rep.ob(R, f"{nm}: length is the buffer's spare capacity {tag}",
                   sp_ok and other is not None and is_spare_len(other), "", f.loc(x.bb))
            srcs = leaves(f, po)
            kinds = set()
            for s_ in srcs:
                q = peel(f, s_, re.compile(r"::(cast|cast_mut|cast_const)$"))
                if is_call(q, re.compile(r"slice::<impl \[T\]>::as_mut_ptr$")) and sp_ok and \
                        same_site(f.origin(q["call"].args[0]), {"kind": "call", "call": spare[0]}):
                    kinds.add("spare")
                elif is_call(s_, "Cleanup::new") and [p for p in s_.get("proj", []) if p != "&"] == [".0"]:
                    kinds.add("cleanup")
                else:
                    kinds.add("other")
            rep.ob(R, f"{nm}: pointer is the spare capacity or a fresh Cleanup allocation {tag}",
                   kinds == {"spare", "cleanup"}, f"sources {sorted(kinds)}", f.loc(x.bb))
            nsw = bool_switches_on_call(f, "StreamOps::native_abi_matches_canonical_abi")
            cl = f.calls("Cleanup::new")
            okc = len(cl) == 1 and len(nsw) >= 1 and all(cl[0].bb in f.edge_region(b, ft) for b, ft, tt in nsw)
            rep.ob(R, f"{nm}: the Cleanup allocation is made only for a lowered layout {tag}", okc, "", f.loc())
            oks = False
            if len(cl) == 1:
                lay = peel(f, f.origin(cl[0].args[0]))
                if is_call(lay, "Layout::from_size_align"):
                    so = f.origin(lay["call"].args[0])
                    if so.get("kind") == "bin" and so["op"].startswith("Mul"):
                        xs = [so["a"], so["b"]]
                        oks = any(is_call(q, "Layout::size") for q in xs) and any(is_spare_len(q) for q in xs)
            rep.ob(R, f"{nm}: the Cleanup allocation holds spare-capacity many elements {tag}", oks,
                   "the host could write past the allocation", f.loc())
            # the cleanup travels with the in-progress state
            okt = False
            for bb, s in ret_stores(f):
                rv = agg_of(f, s)
                if rv is None or "tuple" not in rv or not same_site(f.origin(rv["ops"][0]), {"kind": "call", "call": x}):
                    continue
                inner = op_agg(f, rv["ops"][1])
                if inner and "tuple" in inner:
                    b0 = f.origin(inner["ops"][0])
                    lv = leaves(f, f.origin(inner["ops"][1]))
                    okt = b0.get("kind") == "arg" and b0.get("n") == 2 and \
                        any(is_call(q, "Cleanup::new") for q in lv)
            rep.ob(R, f"{nm}: buffer and Cleanup are kept with the in-progress operation {tag}", okt, "", f.loc())


def self_field(o, field):
    return arg_field(o, 1, field)


def forget_pair(rep, f, tag, nm, src_ok):
    """one mem::forget(v) paired with one Vec::from_raw_parts(v.as_mut_ptr(), v.len(), v.capacity())."""
    R = "R19.4"
    fg = f.calls("mem::forget")
    fr = f.calls("Vec::from_raw_parts")
    rep.floor(R, f"{nm}: mem::forget sites {tag}", len(fg), 1)
    rep.floor(R, f"{nm}: Vec::from_raw_parts sites {tag}", len(fr), 1)
    rep.ob(R, f"{nm}: exactly one forget and one from_raw_parts, each on every path, neither in a loop {tag}",
           len(fg) == 1 and len(fr) == 1 and every_return_passes(f, [fg[0].bb]) and every_return_passes(f, [fr[0].bb])
           and no_second(f, [fg[0].bb]) and no_second(f, [fr[0].bb]),
           "the vector's allocation would be freed twice or leaked", f.loc())
    if len(fg) != 1 or len(fr) != 1:
        return None
    v = f.origin(fg[0].args[0])
    rep.ob(R, f"{nm}: the forgotten vector is the one being converted {tag}", src_ok(v), "", f.loc(fg[0].bb))
    parts = []
    for a, want in zip(fr[0].args, (re.compile(r"Vec::<T, A>::as_mut_ptr$"), "Vec::len", "Vec::capacity")):
        o = peel(f, f.origin(a), re.compile(r"::(cast|cast_mut|cast_const)$"))
        ok = is_call(o, want)
        if ok:
            vo = f.origin(o["call"].args[0])
            ok = src_ok(vo)
        parts.append(ok)
    rep.ob(R, f"{nm}: from_raw_parts(ptr, len, capacity) of the forgotten vector, in this order {tag}", all(parts),
           f"ptr/len/cap recognised: {parts}", f.loc(fr[0].bb))
    return fr[0]


CAST = re.compile(r"::(cast|cast_mut|cast_const)$")


def is_self(h, op):
    """operand is (a reborrow of) the method's `self`, no field selected."""
    o = h.origin(op)
    return o.get("kind") == "arg" and o.get("n") == 1 and all(p in ("*", "&") for p in o.get("proj", []))


def ret_leaves(g):
    return leaves(g, g.place_origin({"l": 0}))


def via_self_method(c, h, o):
    """crate-local method called on the same `self` (its return value can be evaluated with self = self)."""
    if o.get("kind") != "call" or o.get("proj"):
        return None
    g = local_fn(c, o["call"])
    if g is None or g is h or not o["call"].args or not is_self(h, o["call"].args[0]) or len(o["call"].args) != 1:
        return None
    return g


def make_evaluators(c):
    def len_ok(h, o, depth=3):
        """value == self.rust_storage.len() - self.cursor (through conversions and same-self helper methods)."""
        o = peel(h, o)
        if o.get("kind") == "bin" and o["op"].startswith("Sub") and is_call(o["a"], "Vec::len") and \
                self_field(h.origin(o["a"]["call"].args[0]), "rust_storage") and self_field(o["b"], "cursor"):
            return True
        g = via_self_method(c, h, o) if depth > 0 else None
        if g is not None:
            lv = ret_leaves(g)
            return bool(lv) and all(len_ok(g, q, depth - 1) for q in lv)
        return False

    def alloc_ptr_ok(h, o, depth=3, top=True):
        """value == the pointer of the Cleanup in self.alloc, or null when there is none."""
        real = [0]

        def one(q):
            q = peel(h, q, CAST)
            if is_call(q, re.compile(r"ptr::null(_mut)?$")):
                return True
            if is_call(q, "NonNull::as_ptr"):
                a = h.origin(q["call"].args[0])
                if a.get("kind") == "arg" and a.get("n") == 1 and ".alloc" in a.get("proj", []) and ".ptr" in a.get("proj", []):
                    real[0] += 1
                    return True
                return False
            if is_call(q, re.compile(r"Option::<T>::(unwrap_or|unwrap|expect|unwrap_or_else)$")):
                src, n = q, 0
                while src.get("kind") == "call" and n < 6 and not src["call"].matches("Option::as_ref"):
                    src = h.origin(src["call"].args[0]) if src["call"].args else {}
                    n += 1
                if is_call(src, "Option::as_ref") and self_field(h.origin(src["call"].args[0]), "alloc"):
                    real[0] += 1
                    return True
                return False
            g = via_self_method(c, h, q) if depth > 0 else None
            if g is not None:
                lv = ret_leaves(g)
                if lv and all(alloc_ptr_ok(g, x, depth - 1, top=False) for x in lv) and \
                        any(not is_call(peel(g, x, CAST), re.compile(r"ptr::null(_mut)?$")) for x in lv):
                    real[0] += 1
                    return True
            return False
        lv = leaves(h, o)
        okk = bool(lv) and all(one(q) for q in lv)
        return okk and (real[0] > 0 or not top)
    return len_ok, alloc_ptr_ok


def r4(rep, c, tag):
    R = "R19.4"
    len_ok, alloc_ptr_ok = make_evaluators(c)

    def new():
        f = c.method("AbiBuffer", "new")
        rep.saw(f)
        nm = "AbiBuffer::new"
        fr = forget_pair(rep, f, tag, nm, lambda o: o.get("kind") == "arg" and o.get("n") == 1)
        fields = [x[0] for x in c.adt("AbiBuffer")["variants"][0]["fields"]]
        aggs = f.aggregates("AbiBuffer")
        rep.floor(R, f"{nm}: AbiBuffer constructions {tag}", len(aggs), 1)
        low = f.calls("StreamOps::lower")
        cl = f.calls("Cleanup::new")
        for b, _, rv, _ in aggs:
            ops = dict(zip(rv.get("fields") or fields, rv["ops"]))
            rep.ob(R, f"{nm}: rust_storage is the reinterpreted input vector {tag}",
                   fr is not None and same_site(f.origin(ops["rust_storage"]), {"kind": "call", "call": fr}), "", f.loc(b))
            co = f.origin(ops["cursor"])
            rep.ob(R, f"{nm}: cursor starts at 0 {tag}", co.get("kind") == "const" and co.get("v") == 0, "", f.loc(b))
            lv = leaves(f, f.origin(ops["alloc"]))
            ok = all((q.get("kind") == "agg" and q["rv"].get("var") == "None") or
                     (is_call(q, "Cleanup::new") and ".1" in q.get("proj", [])) for q in lv) and \
                any(is_call(q, "Cleanup::new") for q in lv)
            rep.ob(R, f"{nm}: alloc is None or the Cleanup of the lowered copy {tag}", ok, "", f.loc(b))
        rep.floor(R, f"{nm}: StreamOps::lower sites {tag}", len(low), 1)
        nsw = bool_switches_on_call(f, "StreamOps::native_abi_matches_canonical_abi")
        rep.floor(R, f"{nm}: native_abi_matches_canonical_abi test {tag}", len(nsw), 1)
        for x in low:
            rep.ob(R, f"{nm}: lower only when the layouts differ {tag}",
                   any(x.bb in f.edge_region(b, ft) for b, ft, tt in nsw), "", f.loc(x.bb))
            vo = f.origin(x.args[1])
            src = f.origin(vo["call"].args[0]) if is_call(vo, "MaybeUninit::assume_init_read") else {}
            ok = is_call(src, re.compile(r"slice::Iter<'a, T> as core::iter::Iterator>::next$")) and \
                "as Some" in src.get("proj", [])
            rep.ob(R, f"{nm}: each lowered value is read once from the next slot of the vector {tag}",
                   ok and f.in_cycle(x.bb) and loop_passes(f, x.bb, [src["call"].bb]) if ok else False,
                   "a value would be lowered twice or not at all", f.loc(x.bb))
            adds = [a for a in f.calls(PTR_ADD) if f.in_cycle(a.bb)]
            dst = leaves(f, f.origin(x.args[2]))
            rep.ob(R, f"{nm}: the destination moves one element forward between lowers (order) {tag}",
                   bool(adds) and loop_passes(f, x.bb, [a.bb for a in adds]) and
                   any(is_call(peel(f, f.origin(a.args[1])), "Layout::size") for a in adds) and
                   any(q.get("kind") == "call" and q["call"].bb in {a.bb for a in adds} for q in dst) and
                   any(is_call(q, "Cleanup::new") for q in dst), "", f.loc(x.bb))
        oks = False
        if len(cl) == 1:
            lay = peel(f, f.origin(cl[0].args[0]))
            if is_call(lay, "Layout::from_size_align"):
                so = f.origin(lay["call"].args[0])
                if so.get("kind") == "bin" and so["op"].startswith("Mul"):
                    xs = [so["a"], so["b"]]
                    oks = any(is_call(q, "Layout::size") for q in xs) and any(is_call(q, "Vec::len") for q in xs)
        rep.ob(R, f"{nm}: the lowered copy has room for every element {tag}", oks, "", f.loc())
    rep.guard(R, f"AbiBuffer::new {tag}", new)

    def take_vec():
        f = c.method("AbiBuffer", "take_vec")
        rep.saw(f)
        nm = "AbiBuffer::take_vec"
        tk = [x for x in f.calls(TAKE) if self_field(f.origin(x.args[0]), "rust_storage")]
        rep.floor(R, f"{nm}: mem::take(&mut self.rust_storage) {tag}", len(tk), 1)
        tkb = {x.bb for x in tk}

        def from_take(o):
            return o.get("kind") == "call" and o["call"].bb in tkb and o["call"].matches(TAKE)
        forget_pair(rep, f, tag, nm, from_take)
        rep.ob(R, f"{nm}: every path empties self.rust_storage (a second call finds nothing) {tag}",
               bool(tk) and every_return_passes(f, list(tkb)) and no_second(f, tkb), "", f.loc())
        cs = f.field_stores("cursor")
        al = f.field_stores("alloc")
        rep.floor(R, f"{nm}: stores to self.cursor {tag}", len(cs), 1)
        rep.ob(R, f"{nm}: every path resets self.cursor to 0 {tag}",
               bool(cs) and all(f.stores_const(s, 0) for _, _, s in cs) and every_return_passes(f, [b for b, _, _ in cs]),
               "after into_vec() the Drop of the emptied buffer would index past its end (trap)", f.loc())
        dr = f.calls("Vec::drain")
        rep.floor(R, f"{nm}: Vec::drain sites {tag}", len(dr), 1)
        for x in dr:
            rg = op_agg(f, x.args[1])
            ok = rg is not None and rg.get("var") == "RangeTo" and self_field(f.origin(rg["ops"][0]), "cursor")
            rep.ob(R, f"{nm}: the transferred prefix ..cursor is removed from the returned vector {tag}",
                   ok and from_take(f.origin(x.args[0])) and every_return_passes(f, [x.bb]) and no_second(f, [x.bb]),
                   "transferred values would be handed back (duplicated) or untransferred ones removed", f.loc(x.bb))
            rep.ob(R, f"{nm}: cursor is read for the drain before it is reset {tag}",
                   not any(x.bb in f.reachable(b) for b, _, _ in cs), "", f.loc(x.bb))
        lift = f.calls("StreamOps::lift")
        rep.floor(R, f"{nm}: StreamOps::lift sites {tag}", len(lift), 1)
        nsw = bool_switches_on_call(f, "StreamOps::native_abi_matches_canonical_abi")
        rep.floor(R, f"{nm}: native_abi_matches_canonical_abi test {tag}", len(nsw), 1)
        for x in lift:
            rep.ob(R, f"{nm}: lift only when the layouts differ {tag}",
                   any(x.bb in f.edge_region(b, ft) for b, ft, tt in nsw), "", f.loc(x.bb))
            wr = f.calls("MaybeUninit::write")
            okw = len(wr) == 1 and same_site(f.origin(wr[0].args[1]), {"kind": "call", "call": x})
            slot = f.origin(wr[0].args[0]) if okw else {}
            oki = okw and is_call(slot, re.compile(r"slice::IterMut<'a, T> as core::iter::Iterator>::next$")) and \
                "as Some" in slot.get("proj", [])
            rep.ob(R, f"{nm}: each lifted value is written once to the next slot of the vector {tag}",
                   bool(oki) and f.in_cycle(x.bb) and loop_passes(f, x.bb, [wr[0].bb]) and
                   loop_passes(f, x.bb, [slot["call"].bb]), "", f.loc(x.bb))
            im = f.calls("IndexMut::index_mut")
            okr = False
            for q in im:
                rg = op_agg(f, q.args[1])
                if rg is not None and rg.get("var") == "RangeFrom" and self_field(f.origin(rg["ops"][0]), "cursor") \
                        and self_field(f.origin(q.args[0]), "rust_storage"):
                    okr = True
            rep.ob(R, f"{nm}: the slots refilled are self.rust_storage[cursor..] {tag}", okr,
                   "untransferred values are restored to the wrong positions", f.loc(x.bb))
            adds = [a for a in f.calls(PTR_ADD) if f.in_cycle(a.bb)]
            src = leaves(f, peel(f, f.origin(x.args[1]), re.compile(r"::(cast|cast_mut|cast_const)$")))
            rep.ob(R, f"{nm}: the source starts at abi_ptr_and_len() and moves one element per lift (order) {tag}",
                   bool(adds) and loop_passes(f, x.bb, [a.bb for a in adds]) and
                   any(is_call(peel(f, f.origin(a.args[1])), "Layout::size") for a in adds) and
                   any(q.get("kind") == "call" and q["call"].bb in {a.bb for a in adds} for q in src) and
                   any(is_call(q, "AbiBuffer::abi_ptr_and_len") for q in src), "", f.loc(x.bb))
            rep.ob(R, f"{nm}: values are lifted before the lowered copy is released {tag}",
                   not any(x.bb in f.reachable(b) for b, _, _ in al), "", f.loc(x.bb))
    rep.guard(R, f"AbiBuffer::take_vec {tag}", take_vec)

    def drop_into():
        f = c.method("AbiBuffer", "drop", trait="Drop")
        rep.saw(f)
        tv = f.call_blocks("AbiBuffer::take_vec")
        rep.ob(R, f"Drop for AbiBuffer: take_vec on every path, once {tag}",
               bool(tv) and every_return_passes(f, tv) and no_second(f, tv),
               "untransferred values and the lowered copy leak, or are released twice", f.loc())
        g = c.method("AbiBuffer", "into_vec")
        rep.saw(g)
        o = g.place_origin({"l": 0})
        rep.ob(R, f"AbiBuffer::into_vec returns take_vec() of itself {tag}",
               is_call(o, "AbiBuffer::take_vec") and g.origin(o["call"].args[0]).get("kind") == "arg" and
               len(g.calls("AbiBuffer::take_vec")) == 1, "", g.loc())
        h = c.method("AbiBuffer", "remaining")
        rep.saw(h)
        o = h.place_origin({"l": 0})
        rep.ob(R, f"AbiBuffer::remaining == rust_storage.len() - cursor {tag}",
               o.get("kind") == "bin" and o["op"].startswith("Sub") and is_call(o["a"], "Vec::len") and
               self_field(h.origin(o["a"]["call"].args[0]), "rust_storage") and self_field(o["b"], "cursor"), "", h.loc())
    rep.guard(R, f"AbiBuffer drop/into_vec {tag}", drop_into)

    def advance():
        f = c.method("AbiBuffer", "advance")
        rep.saw(f)
        nm = "AbiBuffer::advance"
        asserts = []
        for b, _ in f.switches():
            o = f.switch_origin(b)
            if o.get("kind") == "bin" and o["op"] == "Le" and o["a"].get("kind") == "bin" and o["a"]["op"].startswith("Add"):
                xs = [o["a"]["a"], o["a"]["b"]]
                if any(q.get("kind") == "arg" and q.get("n") == 2 for q in xs) and any(self_field(q, "cursor") for q in xs) \
                        and is_call(o["b"], "Vec::len") and self_field(f.origin(o["b"]["call"].args[0]), "rust_storage") \
                        and diverges(f, f.switch_targets(b)[0]):
                    asserts.append(b)
        rep.floor(R, f"{nm}: assert!(amt + cursor <= rust_storage.len()) {tag}", len(asserts), 1)
        cs = f.field_stores("cursor")
        dl = f.calls("StreamOps::dealloc_lists")
        rep.floor(R, f"{nm}: stores to self.cursor {tag}", len(cs), 2)
        rep.floor(R, f"{nm}: StreamOps::dealloc_lists sites {tag}", len(dl), 1)
        for what, bs in (("cursor update", [b for b, _, _ in cs]), ("dealloc_lists", [x.bb for x in dl])):
            bad = [b for b in bs if not f.set_dominates(set(asserts), b)]
            rep.ob(R, f"{nm}: the bounds assertion dominates every {what} {tag}", not bad,
                   "the cursor could move past the end of the buffer", f.loc(bad[0]) if bad else f.loc())
        bulk, step = [], []
        for b, _, s in cs:
            o = f.stored(s)
            if o.get("kind") == "rv":
                o = {"kind": "bin", "op": o["rv"].get("op", ""), "a": f.origin(o["rv"]["a"]), "b": f.origin(o["rv"]["b"])} \
                    if o["rv"].get("k") == "bin" else o
            if o.get("kind") != "bin" or not o["op"].startswith("Add"):
                rep.ob(R, f"{nm}: cursor only ever grows by addition {tag}", False, "", f.loc(b))
                continue
            xs = [o["a"], o["b"]]
            cur = any(self_field(q, "cursor") or q.get("place", "").endswith(".cursor") for q in xs)
            if cur and any(q.get("kind") == "arg" and q.get("n") == 2 for q in xs):
                bulk.append(b)
            elif cur and any(q.get("kind") == "const" and q.get("v") == 1 for q in xs):
                step.append(b)
            else:
                rep.ob(R, f"{nm}: cursor grows by amt or by 1 {tag}", False, "", f.loc(b))
        csw = bool_switches_on_call(f, "StreamOps::contains_lists")
        rep.floor(R, f"{nm}: contains_lists test {tag}", len(csw), 1)
        ok = len(bulk) == 1 and len(step) == 1 and not f.in_cycle(bulk[0]) and f.in_cycle(step[0]) and \
            not (f.reachable(bulk[0]) & set(step)) and not (f.reachable(step[0]) & set(bulk))
        for b, ft, tt in csw:
            ok = ok and bulk and bulk[0] in f.edge_region(b, ft) and step and step[0] in f.edge_region(b, tt) and \
                all(x.bb in f.edge_region(b, tt) for x in dl)
        rep.ob(R, f"{nm}: without lists cursor += amt once; with lists cursor += 1 per dealloc_lists {tag}", bool(ok),
               "", f.loc())
        rngs = [(bb, r) for bb, _, r, _ in f.aggregates("Range") if r["var"] == "Range"]
        okr = [1 for bb, r in rngs if f.origin(r["ops"][0]).get("v") == 0 and
               f.origin(r["ops"][1]).get("kind") == "arg" and f.origin(r["ops"][1]).get("n") == 2]
        nexts = [(b, m) for b, m, o in discr_switches(f, ty_sub="Option<usize>")
                 if is_call(o["of"], re.compile(r"Range<A>>::next$"))]
        for x in dl:
            rep.ob(R, f"{nm}: dealloc_lists runs once per step of 0..amt {tag}",
                   len(rngs) == len(okr) == 1 and f.in_cycle(x.bb) and
                   any(variant_target(m, "Some") is not None and x.bb in f.edge_region(b, variant_target(m, "Some"))
                       for b, m in nexts), "", f.loc(x.bb))
            rep.ob(R, f"{nm}: cursor is bumped before each dealloc_lists (no double release after a panic) {tag}",
                   len(step) == 1 and loop_passes(f, x.bb, step) and
                   any(variant_target(m, "Some") is not None and
                       f.all_paths_pass(variant_target(m, "Some"), [x.bb], step) for b, m in nexts),
                   "dealloc_lists runs before the cursor moves past the element", f.loc(x.bb))
            adds = [a for a in f.calls(PTR_ADD) if f.in_cycle(a.bb)]
            src = leaves(f, peel(f, f.origin(x.args[1]), re.compile(r"::(cast|cast_mut|cast_const)$")))
            rep.ob(R, f"{nm}: the element pointer starts at abi_ptr_and_len() and moves one element per step {tag}",
                   bool(adds) and loop_passes(f, x.bb, [a.bb for a in adds]) and
                   any(is_call(peel(f, f.origin(a.args[1])), "Layout::size") for a in adds) and
                   any(q.get("kind") == "call" and q["call"].bb in {a.bb for a in adds} for q in src) and
                   any(is_call(q, "AbiBuffer::abi_ptr_and_len") for q in src),
                   "the same element's lists would be released twice", f.loc(x.bb))
    rep.guard(R, f"AbiBuffer::advance {tag}", advance)

    def ptr_len():
        f = c.method("AbiBuffer", "abi_ptr_and_len")
        rep.saw(f)
        nm = "AbiBuffer::abi_ptr_and_len"
        rets = [(b, agg_of(f, s)) for b, s in ret_stores(f)]
        rep.floor(R, f"{nm}: returned (ptr, len) pairs {tag}", len(rets), 2)
        for b, rv in rets:
            if rv is None or "tuple" not in rv:
                rep.ob(R, f"{nm}: returns a (ptr, len) pair {tag}", False, "", f.loc(b))
                continue
            okl = len_ok(f, f.origin(rv["ops"][1]))
            po = peel(f, f.origin(rv["ops"][0]), CAST)
            okp = False
            kind = "?"
            if is_call(po, PTR_ADD):
                base = peel(f, f.origin(po["call"].args[0]), CAST)
                off = f.origin(po["call"].args[1])
                if is_call(base, re.compile(r"Vec::<T, A>::as_(mut_)?ptr$")):
                    kind = "native"
                    okp = self_field(f.origin(base["call"].args[0]), "rust_storage") and self_field(off, "cursor") \
                        and "Payload" in po["call"].ga  # element-sized steps: the pointee is still the payload type
                elif alloc_ptr_ok(f, base):
                    kind = "lowered"
                    xs = [off.get("a", {}), off.get("b", {})]
                    okp = off.get("kind") == "bin" and off["op"].startswith("Mul") and \
                        any(self_field(q, "cursor") for q in xs) and any(is_call(q, "Layout::size") for q in xs)
            rep.ob(R, f"{nm}: {kind} layout: pointer is base + cursor elements {tag}", okp,
                   "a resumed write would send already transferred values again", f.loc(b))
            rep.ob(R, f"{nm}: {kind} layout: len is rust_storage.len() - cursor {tag}", okl, "", f.loc(b))
        kinds = bool_switches_on_call(f, "StreamOps::native_abi_matches_canonical_abi")
        rep.floor(R, f"{nm}: native_abi_matches_canonical_abi test {tag}", len(kinds), 1)
    rep.guard(R, f"AbiBuffer::abi_ptr_and_len {tag}", ptr_len)

    def no_leak():
        # the lowered copy (a `Cleanup`) is released by its Drop: nothing in the stream modules may defuse that Drop
        LEAK = re.compile(r"(mem::forget|ManuallyDrop::<T>::new|Box::<T(, A)?>::(leak|into_raw)|mem::transmute)$")
        n = 0
        made = 0
        for f in c.fns.values():
            if "::abi_buffer::" not in f.path and "::stream_support::" not in f.path and "::futures_stream::" not in f.path:
                continue
            made += len(f.calls("Cleanup::new"))
            for x in f.calls(LEAK):
                n += 1
                bad = any("Cleanup" in t or "AbiBuffer" in t for t in x.arg_types)
                rep.ob(R, f"no Cleanup / AbiBuffer is leaked: {mir.norm(x.callee).split('::')[-1]} in "
                          f"{f.npath.split('::')[-1]} {tag}", not bad,
                       "the buffer holding lowered values would never be released", f.loc(x.bb))
        rep.floor(R, f"forget-like calls inspected in the stream modules {tag}", n, 2)
        rep.floor(R, f"Cleanup::new sites in the stream modules {tag}", made, 2)
    rep.guard(R, f"no leak {tag}", no_leak)


def raw_place(f, op, depth=6):
    """the projected place an operand is finally copied/moved from (through whole-local temporaries)."""
    p = op.get("cp") or op.get("mv")
    while p is not None and not p.get("p") and depth > 0:
        ds = [x for x in f.defs.get(p["l"], []) if x[2] != "partial"]
        if len(ds) != 1 or ds[0][2] != "assign" or ds[0][3]["k"] != "use":
            return None
        o = ds[0][3]["o"]
        p = o.get("cp") or o.get("mv")
        depth -= 1
    return (p["l"], tuple(p["p"])) if p is not None else None


def slot_stores(f, slot):
    """statements / call destinations writing exactly the place `slot`: list of (bb, origin)."""
    out = []
    for b in sorted(f.live):
        for st in f.stmts(b):
            if st["k"] == "=" and (st["p"]["l"], tuple(st["p"].get("p", []))) == slot:
                out.append((b, f.stored(st)))
        t = f.term(b)
        if t["k"] == "call" and (t["d"]["l"], tuple(t["d"].get("p", []))) == slot:
            out.append((b, {"kind": "call", "call": mir.Call(b, t), "proj": []}))
    return out


def closure_of(c, f):
    cl = c.closures_of(f)
    if len(cl) != 1:
        raise mir.AnchorMissing(f"{f.path}: expected one closure / async body, found {len(cl)}")
    return cl[0]


# --------------------------------------------------------------------------- R19.6
def r6(rep, c, tag):
    R = "R19.6"

    def go():
        g = closure_of(c, c.method("RawStreamWriter", "write_all"))
        rep.saw(g)
        nm = "write_all"
        w = g.calls("RawStreamWriter::write")
        wb = g.calls("RawStreamWriter::write_buf")
        iv = g.calls("AbiBuffer::into_vec")
        rep.floor(R, f"{nm}: write sites {tag}", len(w), 1)
        rep.floor(R, f"{nm}: write_buf sites {tag}", len(wb), 1)
        rep.floor(R, f"{nm}: into_vec sites {tag}", len(iv), 1)
        rep.ob(R, f"{nm}: one initial write of the caller's values, not in the loop {tag}",
               len(w) == 1 and not g.in_cycle(w[0].bb) and g.origin(w[0].args[1]).get("kind") == "arg", "", g.loc())
        slot = raw_place(g, wb[0].args[1]) if wb else None
        for x in wb:
            gs = guards_of(g, x.bb)
            okc = any(o.get("kind") == "discr" and "StreamResult" in o.get("ty", "") and "else" not in vals and
                      {o["vars"].get(v) for v in vals} == {"Complete"} for o, vals in gs)
            okr = False
            for o, vals in gs:
                if o.get("kind") != "bin":
                    continue
                xs = [o["a"], o["b"]]
                if any(is_call(q, "AbiBuffer::remaining") for q in xs) and \
                        any(q.get("kind") == "const" and q.get("v") == 0 for q in xs):
                    if (o["op"] == "Eq" and vals == [0]) or (o["op"] in ("Ne", "Gt", "Lt") and vals == ["else"]):
                        okr = True
            rep.ob(R, f"{nm}: writes again only while the last result is Complete {tag}", okc,
                   "the loop would retry after Dropped/Cancelled", g.loc(x.bb))
            rep.ob(R, f"{nm}: writes again only while remaining() > 0 {tag}", okr, "", g.loc(x.bb))
            rep.ob(R, f"{nm}: the retry is inside the loop {tag}", g.in_cycle(x.bb), "", g.loc(x.bb))
        okb = slot is not None
        srcs = slot_stores(g, slot) if slot else []
        for b, o in srcs:
            okb = okb and is_call(o, re.compile(r"RawStreamWrite<.*Future>::poll$")) and \
                "as Ready" in o.get("proj", []) and o.get("proj", [])[-1] == ".1"
        rep.ob(R, f"{nm}: the buffer written again is the one the previous write returned {tag}",
               okb and len(srcs) >= 2, f"{len(srcs)} store(s) to the buffer slot", g.loc())
        rd = g.aggregates("Poll", "Ready")
        rep.floor(R, f"{nm}: Poll::Ready sites {tag}", len(rd), 1)
        for b, _, rv, _ in rd:
            o = g.origin(rv["ops"][0])
            rep.ob(R, f"{nm}: returns into_vec() of the last buffer (the untransferred values) {tag}",
                   is_call(o, "AbiBuffer::into_vec") and slot is not None and
                   raw_place(g, o["call"].args[0]) == slot, "values that were not sent are not handed back", g.loc(b))
        h = closure_of(c, c.method("RawStreamWriter", "write_one"))
        rep.saw(h)
        wa = h.calls("RawStreamWriter::write_all")
        pops = h.calls("Vec::pop")
        rd = h.aggregates("Poll", "Ready")
        rep.ob(R, f"write_one: returns write_all(vec![value]).pop() {tag}",
               len(wa) == 1 and len(pops) == 1 and bool(rd) and
               all(same_site(h.origin(rv["ops"][0]), {"kind": "call", "call": pops[0]}) for _, _, rv, _ in rd),
               "", h.loc())
    rep.guard(R, f"write_all {tag}", go)


# --------------------------------------------------------------------------- R19.7
def r7(rep, c, tag, cfg):
    R = "R19.7"
    f = c.method("RawStreamReaderStream", "poll_next", trait="Stream", required=(cfg == "full"))
    if f is None:
        return

    def go():
        rep.saw(f)
        nm = "poll_next"
        rp = f.calls("mem::replace")
        rep.floor(R, f"{nm}: mem::replace(&mut self.state, ..) {tag}", len(rp), 1)
        ssw = [(b, m, o) for b, m, o in discr_switches(f, ty_sub="StreamAdapterState") if is_call(o["of"], "mem::replace")]
        rep.floor(R, f"{nm}: match on the taken state {tag}", len(ssw), 1)
        polls = f.calls(re.compile(r"Future::poll$"))
        rep.floor(R, f"{nm}: poll of the in-flight read {tag}", len(polls), 1)
        psw = [(b, m, o) for b, m, o in discr_switches(f, ty_sub="Poll<") if is_call(o["of"], re.compile(r"Future::poll$"))]
        rep.floor(R, f"{nm}: match on the poll result {tag}", len(psw), 1)
        stores = f.field_stores("state")
        rep.floor(R, f"{nm}: stores to self.state {tag}", len(stores), 5)

        def st_in(region):
            return [(b, f.stored(s)) for b, _, s in stores if b in region]

        def rets_in(region):
            return [(b, agg_of(f, s)) for b, s in ret_stores(f) if b in region]

        for b, m, o in ssw[:1]:
            idle, reading, comp = (variant_target(m, v) for v in ("Idle", "Reading", "Complete"))
            rg = f.edge_region(b, idle) if idle is not None else set()
            ss = st_in(rg)
            ok = len(ss) == 1 and ss[0][1].get("kind") == "agg" and ss[0][1]["rv"].get("var") == "Reading"
            rep.ob(R, f"{nm}: Idle => stores Reading(new read) {tag}", ok, "", f.loc(idle))
            rep.ob(R, f"{nm}: Idle => polls the new read at once (no return before the loop repeats) {tag}",
                   not rets_in(rg) and b in f.reachable(idle), "", f.loc(idle))
            bx = f.calls("Box::pin")
            okr = False
            for x in bx:
                if x.bb in rg:
                    cl = op_agg(f, x.args[0])
                    if cl is not None and cl["ops"]:
                        ro = f.origin(cl["ops"][0])
                        okr = is_call(ro, "mem::replace") and "as Idle" in ro.get("proj", [])
            rep.ob(R, f"{nm}: Idle => the new read owns the reader taken from the state {tag}", okr, "", f.loc(idle))
            rg = f.edge_region(b, comp) if comp is not None else set()
            ss = st_in(rg)
            rr = rets_in(rg)
            rep.ob(R, f"{nm}: Complete => stays Complete and yields None {tag}",
                   len(ss) == 1 and ss[0][1].get("kind") == "agg" and ss[0][1]["rv"].get("var") == "Complete" and
                   len(rr) == 1 and rr[0][1] is not None and rr[0][1].get("var") == "Ready" and
                   (op_agg(f, rr[0][1]["ops"][0]) or {}).get("var") == "None", "", f.loc(comp))
            rep.ob(R, f"{nm}: Reading => the in-flight read is polled {tag}",
                   reading is not None and all(p.bb in f.edge_region(b, reading) for p in polls) and
                   all(is_call(peel(f, f.origin(p.args[0]), re.compile(r"Pin::<Ptr>::as_mut$")), "mem::replace")
                       for p in polls), "", f.loc(reading))
        for b, m, o in psw[:1]:
            pend, ready = variant_target(m, "Pending"), variant_target(m, "Ready")
            rg = f.edge_region(b, pend) if pend is not None else set()
            ss = st_in(rg)
            ok = len(ss) == 1 and ss[0][1].get("kind") == "agg" and ss[0][1]["rv"].get("var") == "Reading"
            if ok:
                fo = f.origin(ss[0][1]["rv"]["ops"][0])
                ok = is_call(fo, "mem::replace") and "as Reading" in fo.get("proj", [])
            rep.ob(R, f"{nm}: Pending => the same in-flight read is stored back as Reading {tag}", ok,
                   "the in-flight read would be dropped: dropping cancels it and loses items", f.loc(pend))
            rr = rets_in(rg)
            rep.ob(R, f"{nm}: Pending => returns Poll::Pending {tag}",
                   len(rr) == 1 and rr[0][1] is not None and rr[0][1].get("var") == "Pending", "", f.loc(pend))
            osw = [(bb, mm, oo) for bb, mm, oo in discr_switches(f, ty_sub="Option<")
                   if is_call(oo["of"], re.compile(r"Future::poll$")) and "as Ready" in oo["of"].get("proj", [])]
            rep.floor(R, f"{nm}: match on the item option {tag}", len(osw), 1)
            for bb, mm, oo in osw[:1]:
                some, none = variant_target(mm, "Some"), variant_target(mm, "None")
                rg = f.edge_region(bb, some) if some is not None else set()
                ss = st_in(rg)
                ok = len(ss) == 1 and ss[0][1].get("kind") == "agg" and ss[0][1]["rv"].get("var") == "Idle"
                if ok:
                    ro = f.origin(ss[0][1]["rv"]["ops"][0])
                    ok = is_call(ro, re.compile(r"Future::poll$")) and "as Ready" in ro.get("proj", []) and \
                        "as Some" not in ro.get("proj", [])
                rep.ob(R, f"{nm}: Ready(Some) => stores Idle(reader returned by the read) {tag}", ok, "", f.loc(some))
                rr = rets_in(rg)
                ok = len(rr) == 1 and rr[0][1] is not None and rr[0][1].get("var") == "Ready"
                if ok:
                    sm = op_agg(f, rr[0][1]["ops"][0])
                    ok = sm is not None and sm.get("var") == "Some"
                    if ok:
                        io = f.origin(sm["ops"][0])
                        ok = is_call(io, re.compile(r"Future::poll$")) and "as Some" in io.get("proj", [])
                rep.ob(R, f"{nm}: Ready(Some) => yields exactly the item the read produced {tag}", ok, "", f.loc(some))
                rg = f.edge_region(bb, none) if none is not None else set()
                ss = st_in(rg)
                rr = rets_in(rg)
                rep.ob(R, f"{nm}: Ready(None) => stores Complete and yields None {tag}",
                       len(ss) == 1 and ss[0][1].get("kind") == "agg" and ss[0][1]["rv"].get("var") == "Complete" and
                       len(rr) == 1 and rr[0][1] is not None and rr[0][1].get("var") == "Ready" and
                       (op_agg(f, rr[0][1]["ops"][0]) or {}).get("var") == "None", "", f.loc(none))
        # the boxed read: (reader, reader.next().await)
        g = closure_of(c, f)
        rep.saw(g)
        nx = g.calls("RawStreamReader::next")
        rd = g.aggregates("Poll", "Ready")
        ok = len(nx) == 1 and not g.in_cycle(nx[0].bb) and bool(rd)
        for b, _, rv, _ in rd:
            t = op_agg(g, rv["ops"][0])
            ok = ok and t is not None and "tuple" in t and len(t["ops"]) == 2
            if ok:
                io = g.origin(t["ops"][1])
                ok = is_call(io, re.compile(r"RawStreamReader::<O>::next::\{closure#0\}$")) and "as Ready" in io.get("proj", [])
        rep.ob(R, f"{nm}: the boxed read calls reader.next() once and returns (reader, its item) {tag}", ok, "", g.loc())
        h = c.method("RawStreamReaderStream", "into_inner")
        rep.saw(h)
        somes = h.aggregates("Option", "Some")
        oki = bool(somes)
        for b, _, rv, _ in somes:
            oki = oki and any(o.get("kind") == "discr" and "StreamAdapterState" in o.get("ty", "") and "else" not in vals
                              and {o["vars"].get(v) for v in vals} == {"Idle"} for o, vals in guards_of(h, b))
        rep.ob(R, f"into_inner: hands the reader out only when no read is in flight (Idle) {tag}", oki, "", h.loc())
    rep.guard(R, f"poll_next {tag}", go)


def mentions(f, o, pat, depth=4):
    """the origin tree of a value contains a call matching pat."""
    if depth <= 0 or not isinstance(o, dict):
        return False
    if o.get("kind") == "call":
        if o["call"].matches(pat):
            return True
        return any(mentions(f, f.origin(a), pat, depth - 1) for a in o["call"].args)
    return any(mentions(f, o.get(k), pat, depth - 1) for k in ("a", "b", "of"))


SIZE_CHECK = re.compile(r"(mem::size_of(_val)?(::<.*>)?|Vec::<T, A>::(len|is_empty|capacity)|slice::<impl \[T\]>::(len|is_empty)"
                        r"|Layout::size)$")
READ_POLL = re.compile(r"RawStreamRead<.*Future>::poll$")


# --------------------------------------------------------------------------- R19.8
def r8(rep, c, tag):
    R = "R19.8"

    def go():
        g = closure_of(c, c.method("RawStreamReader", "next"))
        rep.saw(g)
        nm = "next"
        rd = g.calls("RawStreamReader::read")
        pops = g.calls("Vec::pop")
        ready = g.aggregates("Poll", "Ready")
        rep.floor(R, f"{nm}: read sites {tag}", len(rd), 1)
        rep.floor(R, f"{nm}: Vec::pop sites {tag}", len(pops), 1)
        rep.floor(R, f"{nm}: Poll::Ready sites {tag}", len(ready), 1)
        rep.ob(R, f"{nm}: one read per call {tag}", len(rd) == 1 and not g.in_cycle(rd[0].bb), "", g.loc())
        for b, _, rv, _ in ready:
            o = g.origin(rv["ops"][0])
            ok = is_call(o, "Vec::pop")
            if ok:
                bo = g.origin(o["call"].args[0])
                ok = is_call(bo, READ_POLL) and "as Ready" in bo.get("proj", []) and ".1" in bo.get("proj", [])
            rep.ob(R, f"{nm}: yields the item popped from the buffer the read returned {tag}", ok, "", g.loc(b))
        if len(rd) != 1:
            return
        bo = g.origin(rd[0].args[1])
        cap = g.origin(bo["call"].args[0]) if is_call(bo, "Vec::with_capacity") and bo["call"].args else {}
        rep.ob(R, f"{nm}: reads into an empty buffer with room for one item {tag}",
               cap.get("kind") == "const" and cap.get("v") == 1, "", g.loc(rd[0].bb))
        # A read transfers up to min(spare capacity, MAX_LENGTH) items (R19.3).  `next` hands out one popped item and
        # drops the buffer, so it must either bound the request to one item for every payload type or look at how
        # many items arrived.  Vec::<T>::with_capacity(1) has spare capacity 1 only when T is not zero-sized.
        single_pop = len(pops) == 1 and not g.in_cycle(pops[0].bb)
        dropped_after = any(b in g.reachable(pops[0].bb) for b, t in g.drops(r"^alloc::vec::Vec<")) if pops else False
        checked = False
        st = c.method("StreamReadOp", "start", trait="WaitableOp")
        for fn in (g, st):
            for b, _ in fn.switches():
                o = fn.switch_origin(b)
                if o.get("kind") == "const":
                    continue
                if mentions(fn, o, SIZE_CHECK) and (fn is st or any(p.bb in fn.reachable(b) or b in fn.reachable(p.bb)
                                                                     for p in pops)):
                    checked = True
        zst = []
        for fn in c.fns.values():
            if fn.d.get("trait") and fn.d["trait"].endswith("StreamOps") and fn.npath.endswith("::lift") \
                    and fn.locals and (fn.locals[0] if isinstance(fn.locals[0], str) else fn.locals[0].get("ty")) == "()":
                zst.append(mir.base_type(fn.d.get("self_ty") or "?"))
        rep.ob(R, f"{nm}: surplus items of a read are not discarded {tag}",
               (not single_pop) or (not dropped_after) or checked,
               "needs: the request is bounded to one item for every payload type, or the received length is checked. "
               "next() requests spare_capacity(Vec::with_capacity(1)) items, pops one and drops the rest; for a "
               "zero-sized payload the spare capacity is usize::MAX, so a peer write of n > 1 items is received whole "
               "and n-1 items are lost. Zero-sized payloads reach this code: StreamVtable<()> (generated for `stream` "
               "without an element type)" + (", " + ", ".join(sorted(set(zst))) + " (Payload = ())" if zst else ""),
               g.loc(pops[0].bb) if pops else g.loc())
    rep.guard(R, f"next {tag}", go)


# --------------------------------------------------------------------------- R19.9
def r9(rep, c, tag):
    R = "R19.9"

    def collect():
        g = closure_of(c, c.method("RawStreamReader", "collect"))
        rep.saw(g)
        nm = "collect"
        rd = g.calls("RawStreamReader::read")
        rep.floor(R, f"{nm}: read sites {tag}", len(rd), 1)
        rep.ob(R, f"{nm}: one read site, inside the loop {tag}", len(rd) == 1 and g.in_cycle(rd[0].bb), "", g.loc())
        slot = raw_place(g, rd[0].args[1]) if rd else None
        srcs = slot_stores(g, slot) if slot else []
        ok = slot is not None and len(srcs) >= 2
        fresh = 0
        for b, o in srcs:
            if is_call(o, re.compile(r"Vec::<T>::(new|with_capacity)$")):
                fresh += 1
                ok = ok and not g.in_cycle(b)
            else:
                ok = ok and is_call(o, READ_POLL) and "as Ready" in o.get("proj", []) and o["proj"][-1] == ".1"
        rep.ob(R, f"{nm}: each read appends to the buffer the previous read returned (one fresh buffer at the start) {tag}",
               ok and fresh == 1, f"{len(srcs)} store(s) to the accumulator", g.loc())
        ready = g.aggregates("Poll", "Ready")
        rep.floor(R, f"{nm}: Poll::Ready sites {tag}", len(ready), 1)
        for b, _, rv, _ in ready:
            rep.ob(R, f"{nm}: returns the accumulated buffer {tag}", slot is not None and raw_place(g, rv["ops"][0]) == slot,
                   "", g.loc(b))
            okd = any(o.get("kind") == "discr" and "StreamResult" in o.get("ty", "") and "else" not in vals and
                      {o["vars"].get(v) for v in vals} == {"Dropped"} for o, vals in guards_of(g, b))
            rep.ob(R, f"{nm}: stops only when the writer dropped {tag}", okd, "items still to come would be missed", g.loc(b))
        rsw = [(b, m, o) for b, m, o in discr_switches(g, ty_sub="StreamResult") if o["ty"].endswith("::StreamResult")]
        rep.floor(R, f"{nm}: match on the read's StreamResult {tag}", len(rsw), 1)
        for b, m, o in rsw:
            ct = variant_target(m, "Complete")
            rep.ob(R, f"{nm}: Complete => reads again {tag}", ct is not None and bool(rd) and rd[0].bb in g.reachable(ct)
                   and not any(bb in g.edge_region(b, ct) for bb, _, _, _ in ready), "", g.loc(b))
    rep.guard(R, f"collect {tag}", collect)

    def shims():
        f = c.method("RawStreamWriter", "write")
        rep.saw(f)
        nb = f.calls("AbiBuffer::new")
        o = f.place_origin({"l": 0})
        ok = len(nb) == 1 and f.origin(nb[0].args[0]).get("kind") == "arg" and f.origin(nb[0].args[0]).get("n") == 2 \
            and is_call(o, "RawStreamWriter::write_buf") and same_site(f.origin(o["call"].args[1]), {"kind": "call", "call": nb[0]})
        rep.ob(R, f"write: write_buf(AbiBuffer::new(values, ..)) {tag}", ok, "", f.loc())
        for ty, meth, op, wrap in (("RawStreamWriter", "write_buf", "StreamWriteOp", "RawStreamWrite"),
                                   ("RawStreamReader", "read", "StreamReadOp", "RawStreamRead")):
            f = c.method(ty, meth)
            rep.saw(f)
            nw = f.calls("WaitableOperation::new")
            ok = len(nw) == 1
            if ok:
                a0 = op_agg(f, nw[0].args[0])
                a1 = f.origin(nw[0].args[1])
                ok = a0 is not None and a0.get("var") == op and a1.get("kind") == "arg" and a1.get("n") == 2
                rets = [agg_of(f, s) for _, s in ret_stores(f)]
                ok = ok and len(rets) == 1 and rets[0] is not None and rets[0].get("var") == wrap and \
                    same_site(f.origin(rets[0]["ops"][0]), {"kind": "call", "call": nw[0]})
            rep.ob(R, f"{meth}: {wrap} {{ WaitableOperation::new({op} {{ self }}, buffer) }} {tag}", ok, "", f.loc())
        for wrap in ("RawStreamWrite", "RawStreamRead"):
            f = c.method(wrap, "poll", trait="Future")
            rep.saw(f)
            o = f.place_origin({"l": 0})
            rep.ob(R, f"{wrap}::poll returns WaitableOperation::poll_complete {tag}",
                   is_call(o, "WaitableOperation::poll_complete") and len(f.calls("WaitableOperation::poll_complete")) == 1,
                   "", f.loc())
            f = c.method(wrap, "cancel")
            rep.saw(f)
            o = f.place_origin({"l": 0})
            rep.ob(R, f"{wrap}::cancel returns WaitableOperation::cancel {tag}",
                   is_call(o, "WaitableOperation::cancel") and len(f.calls("WaitableOperation::cancel")) == 1, "", f.loc())
        for op in ("StreamWriteOp", "StreamReadOp"):
            f = c.method(op, "start_cancelled", trait="WaitableOp")
            rep.saw(f)
            rets = [agg_of(f, s) for _, s in ret_stores(f)]
            ok = len(rets) == 1 and rets[0] is not None and "tuple" in rets[0]
            if ok:
                r0 = op_agg(f, rets[0]["ops"][0])
                b0 = f.origin(rets[0]["ops"][1])
                ok = r0 is not None and r0.get("var") == "Cancelled" and b0.get("kind") == "arg" and b0.get("n") == 2
            rep.ob(R, f"{op}::start_cancelled returns (Cancelled, the untouched buffer) {tag}", ok, "", f.loc())
            f = c.method(op, "result_into_cancel", trait="WaitableOp")
            rep.saw(f)
            o = f.place_origin({"l": 0})
            rep.ob(R, f"{op}::result_into_cancel returns the result unchanged {tag}",
                   o.get("kind") == "arg" and o.get("n") == 2 and not o.get("proj") and not f.calls(), "", f.loc())
    rep.guard(R, f"shims {tag}", shims)


# --------------------------------------------------------------------------- R19.10
def r10(rep, c, tag, cfg):
    R = "R19.10"
    BUILTINS = ("start_write", "start_read", "cancel_write", "cancel_read", "drop_writable", "drop_readable", "new")

    def ends():
        for op, end, cancel in (("StreamWriteOp", "writer", "cancel_write"), ("StreamReadOp", "reader", "cancel_read")):
            other = "cancel_read" if cancel == "cancel_write" else "cancel_write"
            f = c.method(op, "in_progress_cancel", trait="WaitableOp")
            rep.saw(f)
            cs = f.calls("StreamOps::" + cancel)
            o = f.place_origin({"l": 0})
            ok = len(cs) == 1 and not f.calls("StreamOps::" + other) and same_site(o, {"kind": "call", "call": cs[0]})
            if ok:
                ho = f.origin(cs[0].args[1])
                ok = (arg_field(ho, 1, "handle") and ("." + end) in ho.get("proj", [])) or \
                    (is_call(ho, "RawStreamReader::handle") and arg_field(f.origin(ho["call"].args[0]), 1, end))
            rep.ob(R, f"{op}::in_progress_cancel: {cancel}(this end's handle), code returned unchanged {tag}", ok,
                   "the cancel built-in of the other direction (or another handle) traps in the host", f.loc())
            f = c.method(op, "in_progress_waitable", trait="WaitableOp")
            rep.saw(f)
            o = f.place_origin({"l": 0})
            ok = (arg_field(o, 1, "handle") and ("." + end) in o.get("proj", [])) or \
                (is_call(o, "RawStreamReader::handle") and arg_field(f.origin(o["call"].args[0]), 1, end))
            rep.ob(R, f"{op}::in_progress_waitable is this end's handle {tag}", ok, "", f.loc())
        for ty, want, other in (("RawStreamWriter", "drop_writable", "drop_readable"),
                                ("RawStreamReader", "drop_readable", "drop_writable")):
            f = c.method(ty, "drop", trait="Drop")
            rep.saw(f)
            ds = f.calls("StreamOps::" + want)
            rep.ob(R, f"Drop for {ty}: {want} at most once, never {other} {tag}",
                   len(ds) == 1 and no_second(f, [ds[0].bb]) and not f.calls("StreamOps::" + other), "", f.loc())
    rep.guard(R, f"ends {tag}", ends)

    def vtable():
        n = 0
        for name in BUILTINS + ("lower", "lift", "dealloc_lists"):
            f = c.method("StreamVtable", name, trait="StreamOps")
            rep.saw(f)
            ic = ind_calls(f)
            via = []
            for x in ic:
                o = peel(f, f.origin(x.ind), re.compile(r"Option::<T>::(unwrap|expect|unwrap_unchecked)$"))
                if ("." + name) in o.get("proj", []) or o.get("place", "").endswith("." + name):
                    via.append(x)
            n += len(via)
            rep.ob(R, f"<&StreamVtable<T> as StreamOps>::{name} calls the vtable's `{name}` entry and no other {tag}",
                   len(ic) == 1 and len(via) == 1, f"{len(ic)} indirect call(s), {len(via)} through .{name}", f.loc())
        rep.floor(R, f"vtable forwarders {tag}", n, 10)
        f = c.method("StreamVtable", "elem_layout", trait="StreamOps")
        rep.saw(f)
        o = f.place_origin({"l": 0})
        rep.ob(R, f"<&StreamVtable<T> as StreamOps>::elem_layout is the vtable's `layout` {tag}",
               arg_field(o, 1, "layout") and not f.calls(), "element stride would differ from the canonical ABI", f.loc())
        for name, field, fn in (("native_abi_matches_canonical_abi", "lift", "Option::is_none"),
                                ("contains_lists", "dealloc_lists", "Option::is_some")):
            f = c.method("StreamVtable", name, trait="StreamOps")
            rep.saw(f)
            o = f.place_origin({"l": 0})
            rep.ob(R, f"<&StreamVtable<T> as StreamOps>::{name} is `{field}`.{fn.split('::')[1]}() {tag}",
                   is_call(o, fn) and arg_field(f.origin(o["call"].args[0]), 1, field) and len(f.calls()) == 1, "", f.loc())
        if cfg == "full":
            for name in BUILTINS:
                f = c.method("UnitStreamOps", name, trait="StreamOps")
                rep.saw(f)
                cs = [x for x in f.calls() if x.matches(re.compile(r"unit_stream::unit_\w+$"))]
                rep.ob(R, f"<UnitStreamOps as StreamOps>::{name} calls the unit built-in `unit_{name.replace('start_', '')}` {tag}",
                       len(cs) == 1 and cs[0].matches(re.compile(r"unit_stream::unit_" + name.replace("start_", "") + "$")),
                       "", f.loc())
    rep.guard(R, f"vtable {tag}", vtable)
