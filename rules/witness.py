"""E3 — run the compile_fail witnesses (type checking of /repo's current source, no execution of it).

`cargo +nightly test --doc` compiles each doctest of /verif/witness against
/repo/crates/guest-rust.  A `*_fail` snippet must be rejected with the named error
code and its `*_twin` (same code minus the offending line) must be accepted.
Results are cached per working-tree key and shared by all properties.
"""
import json
import os
import re
import shutil
import subprocess

from lib import facts

WIT = os.path.join(facts.VERIF, "witness")


def _run_all():
    out = os.path.join(facts.CACHE, "facts", facts.tree_key(), "witness.json")
    if os.path.exists(out):
        return json.load(open(out))
    with facts.Lock("witness"):
        if os.path.exists(out):
            return json.load(open(out))
        # a scratch copy of the harness crate whose path dependency points at the repository under analysis
        import hashlib
        wdir = os.path.join(facts.CACHE, "witness-" + hashlib.sha256(facts.REPO.encode()).hexdigest()[:8])
        shutil.rmtree(wdir, ignore_errors=True)
        shutil.copytree(WIT, wdir, ignore=shutil.ignore_patterns("target", "Cargo.lock"))
        toml = open(os.path.join(WIT, "Cargo.toml")).read().replace("/repo/crates/guest-rust",
                                                                      os.path.join(facts.REPO, "crates/guest-rust"))
        open(os.path.join(wdir, "Cargo.toml"), "w").write(toml)
        shutil.copyfile(os.path.join(facts.REPO, "Cargo.lock"), os.path.join(wdir, "Cargo.lock"))
        env = facts._env()
        env["CARGO_TARGET_DIR"] = os.path.join(facts.CACHE, "witness-target")
        lockp = os.path.join(facts.REPO, "Cargo.lock")
        snap = open(lockp, "rb").read()
        try:
            r = subprocess.run(["cargo", "+nightly", "test", "--doc", "--offline"], cwd=wdir, env=env,
                               capture_output=True, text=True)
        finally:
            facts._restore_lock(snap)
        res = {}
        for m in re.finditer(r"^test src/lib\.rs - (\w+) \(line \d+\)( - compile fail)? \.\.\. (\w+)", r.stdout, re.M):
            res[m.group(1)] = {"compile_fail": bool(m.group(2)), "status": m.group(3)}
        data = {"results": res, "rc": r.returncode, "tail": (r.stdout + r.stderr)[-3000:] if not res else ""}
        os.makedirs(os.path.dirname(out), exist_ok=True)
        with open(out, "w") as fh:
            json.dump(data, fh)
        return data


def witness_names():
    src = open(os.path.join(WIT, "src/lib.rs")).read()
    return re.findall(r"^pub mod (\w+) \{\}", src, re.M)


def run_witness(rep, pid, rule):
    data = _run_all()
    res = data["results"]
    prefix = pid.lower() + "_"
    names = [n for n in witness_names() if n.startswith(prefix)]
    fails = [n for n in names if n.endswith("_fail")]
    rep.floor(rule, f"witnesses for {pid}", len(fails), 1)
    rep.saw(file="witness/src/lib.rs")
    if not res:
        rep.ob(rule, "witness harness", False, "doctest run produced no results: " + data.get("tail", "")[-800:],
               key=f"{pid}|{rule}|harness")
        return
    for n in fails:
        twin = n[:-5] + "_twin"
        r = res.get(n)
        t = res.get(twin)
        ok = r is not None and r["compile_fail"] and r["status"] == "ok"
        rep.ob(rule, f"witness {n}", ok,
               "the snippet that must be rejected by the type checker compiles (or fails with another error code)",
               "witness/src/lib.rs")
        rep.ob(rule, f"witness {twin}", t is not None and t["status"] == "ok",
               "the compiling twin does not compile: the witness would pass for the wrong reason",
               "witness/src/lib.rs", nontrivial=False)
