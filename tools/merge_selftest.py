#!/usr/bin/env python3
"""Merge selftest/results.shard*.json (sharded runs of tools/selftest.py) into selftest/results.json.
Entries whose patch file no longer exists (moved to selftest/stale/) are dropped; shard results override older ones."""
import glob, json, os
V = os.path.dirname(os.path.dirname(os.path.abspath(__file__)))
out = {}
p = os.path.join(V, "selftest", "results.json")
if os.path.exists(p):
    out = json.load(open(p))
for f in sorted(glob.glob(os.path.join(V, "selftest", "results.shard*.json")), key=os.path.getmtime):
    out.update(json.load(open(f)))
out = {k: v for k, v in out.items() if os.path.exists(os.path.join(V, "selftest", k))}
json.dump(out, open(p, "w"), indent=1, sort_keys=True)
have = set(out)
allp = {os.path.relpath(x, os.path.join(V, "selftest")) for x in glob.glob(os.path.join(V, "selftest", "C*", "*.patch"))}
print(len(out), "results;", sum(1 for v in out.values() if not v.get("ok")), "unexpected;", len(allp - have), "patches without a recorded run")
for k in sorted(k for k, v in out.items() if not v.get("ok")):
    print("  UNEXPECTED", k, out[k].get("kind"), out[k].get("exit"), out[k].get("status", ""))
