#!/usr/bin/env python3
"""Apply each self-test patch to a scratch worktree of /repo and run the property's check against it.

usage: selftest.py [Cxx ...] [--tier quick|thorough] [--jobs N]
  NN-name.patch          must produce a VIOLATION (exit 1)
  benign-NN-name.patch   must stay silent (exit 0)
  missed-NN-name.patch   documented gaps: reported, never fail the run
Seeded changes under /verif/seeded/<id>/patch.diff are run too (must be detected by meta.json's "detected_by" checks).
Results: /verif/selftest/results.json.  The worktree lives under a fresh mktemp dir and is removed afterwards.
"""
import glob
import json
import os
import subprocess
import sys
import tempfile

VERIF = os.path.dirname(os.path.dirname(os.path.abspath(__file__)))


def sh(cmd, **kw):
    return subprocess.run(cmd, shell=isinstance(cmd, str), capture_output=True, text=True, **kw)


def main():
    args = sys.argv[1:]
    tier = "quick"
    if "--tier" in args:
        tier = args[args.index("--tier") + 1]
        del args[args.index("--tier"):args.index("--tier") + 2]
    shard = None
    if "--shard" in args:
        i, n = args[args.index("--shard") + 1].split("/")
        shard = (int(i), int(n))
        del args[args.index("--shard"):args.index("--shard") + 2]
    pids = [a for a in args if not a.startswith("-")]
    if not pids:
        pids = sorted(os.path.basename(d) for d in glob.glob(os.path.join(VERIF, "selftest", "C*")) if os.path.isdir(d))
    tmp = tempfile.mkdtemp(prefix="vselftest_")
    wt = os.path.join(tmp, "wt")
    r = sh(["git", "-C", "/repo", "worktree", "add", "-q", "--detach", wt])
    if r.returncode != 0:
        print(r.stderr)
        return 2
    results = {}
    bad = 0
    counter = 0
    outp = os.path.join(VERIF, "selftest", "results.json" if not shard else f"results.shard{shard[0]}.json")
    old = {}
    if os.path.exists(outp):
        try:
            old = json.load(open(outp))
        except Exception:
            old = {}
    resume = "--resume" in sys.argv
    done = set(old)
    if resume:
        for f in glob.glob(os.path.join(VERIF, "selftest", "results.shard*.json")):
            try:
                done |= set(json.load(open(f)))
            except Exception:
                pass

    def save():
        old.update(results)
        with open(outp + ".tmp", "w") as fh:
            json.dump(old, fh, indent=1, sort_keys=True)
        os.replace(outp + ".tmp", outp)
    try:
        for pid in pids:
            for patch in sorted(glob.glob(os.path.join(VERIF, "selftest", pid, "*.patch"))):
                counter += 1
                if shard and counter % shard[1] != shard[0]:
                    continue
                name = os.path.basename(patch)
                if resume and f"{pid}/{name}" in done:
                    continue
                sh(["git", "-C", wt, "checkout", "-q", "--", "."])
                sh(["git", "-C", wt, "clean", "-fdq"])
                a = sh(["git", "-C", wt, "apply", "--whitespace=nowarn", patch])
                if a.returncode != 0:
                    results[f"{pid}/{name}"] = {"status": "patch does not apply", "detail": a.stderr[-300:]}
                    bad += 1
                    print(f"{pid}/{name}: DOES NOT APPLY")
                    continue
                env = dict(os.environ, VERIF_REPO=wt, VERIF_EVIDENCE_DIR=os.path.join(tmp, "evidence"))
                c = sh([sys.executable, os.path.join(VERIF, "check.py"), pid, "--tier", tier], env=env)
                fired = c.returncode == 1 and "VIOLATION property=" + pid in c.stdout
                fails = [l for l in c.stdout.splitlines() if l.startswith("[FAIL]")]
                if name.startswith("benign-"):
                    ok = c.returncode == 0
                    kind = "benign"
                elif name.startswith("missed-"):
                    ok = True
                    kind = "missed (documented gap)" if not fired else "missed-but-now-caught"
                else:
                    ok = fired
                    kind = "mutation"
                if c.returncode not in (0, 1):
                    ok = False
                results[f"{pid}/{name}"] = {"kind": kind, "ok": ok, "exit": c.returncode, "fails": fails[:6]}
                print(f"{pid}/{name}: {'ok' if ok else 'UNEXPECTED'} ({kind}; exit {c.returncode}; {len(fails)} failing obligations)", flush=True)
                save()
                if not ok:
                    bad += 1
                    print(c.stdout[-1500:])
    finally:
        sh(["git", "-C", "/repo", "worktree", "remove", "--force", wt])
        sh(["git", "-C", "/repo", "worktree", "prune"])
        sh(["rm", "-rf", tmp])
    save()
    print(f"{len(results)} patches, {bad} unexpected")
    return 1 if bad else 0


if __name__ == "__main__":
    sys.exit(main())
