"""E4 convsem — conversion-template evaluator (serves C14 and C04 R4.4).

Input : the text template a backend pushes for a scalar instruction / Bitcast (extracted from the generator's
        syntax tree, operand hole replaced by `__OP__`) and the backend's target language.
Method: a small per-language expression reader feeds an ABSTRACT INTERPRETATION over a bit-provenance domain.
        A value = language type (kind, width, signedness) + one abstract bit per result bit:
            0 | 1 | ('or', S)  = OR of the input bits in S   (in[i] is ('or', {i}))
                  | ('nor', S) = its negation                (NOT in[i] is ('nor', {i}))
                  | 'T'        = unknown
        Transfer functions exist only for the primitives the backends use today (PRIMS / convert()); each carries a
        one-line justification (the language rule).  Arithmetic on a non-constant value yields T.  Anything the
        reader or the table does not know raises Unknown -> the obligation is NOT discharged (fail closed).
Verdict: discharged iff the abstract result equals the canonical-ABI mapping for ALL inputs (symbolic).
Diagnostics only: the same interpreter run on constant inputs (exact constant folding) prints a counter-example.

Assumptions (trusted base): wasm32 (pointers / size_t / usize / uintptr / nint are 32 bit, little endian); two's
complement truncating integer casts; C# compiled in the default unchecked context; operands are substituted as
atoms (every backend passes identifiers or parenthesised expressions); the tables below.
"""
import os
import re

from . import facts, synq
from .mir import AnchorMissing


class Unknown(Exception):
    """The reader / table cannot interpret something: fail closed."""


# =============================================================================================== bit domain
T = "T"


def IN(i):
    return ("or", frozenset([i]))


def bnot(b):
    if b == 0:
        return 1
    if b == 1:
        return 0
    if b == T:
        return T
    return ("nor" if b[0] == "or" else "or", b[1])


def b_anyset(bits):
    """OR-reduction (the `!= 0` test)."""
    if any(b == 1 for b in bits):
        return 1
    s = set()
    for b in bits:
        if b == 0:
            continue
        if b == T or b[0] != "or":
            return T
        s |= b[1]
    return ("or", frozenset(s)) if s else 0


def b_and(a, b):
    if a == 0 or b == 0:
        return 0
    if a == 1:
        return b
    if b == 1:
        return a
    if a == b:
        return a
    if a != T and b != T and a == bnot(b):
        return 0
    return T


def b_or(a, b):
    if a == 1 or b == 1:
        return 1
    if a == 0:
        return b
    if b == 0:
        return a
    if a == b:
        return a
    if a == T or b == T:
        return T
    if a == bnot(b):
        return 1
    if a[0] == "or" and b[0] == "or":
        return ("or", a[1] | b[1])
    return T


def b_xor(a, b):
    if a == 0:
        return b
    if b == 0:
        return a
    if a == 1:
        return bnot(b)
    if b == 1:
        return bnot(a)
    if a == T or b == T:
        return T
    if a == b:
        return 0
    if a == bnot(b):
        return 1
    return T


def b_mux(c, a, b):
    if a == b:
        return a
    if c == 1:
        return a
    if c == 0:
        return b
    if a == 1 and b == 0:
        return c
    if a == 0 and b == 1:
        return bnot(c)
    return T


def show_bit(b):
    if b in (0, 1):
        return str(b)
    if b == T:
        return "?"
    s = sorted(b[1])
    if len(s) == 1:
        body = f"in[{s[0]}]"
    elif s == list(range(s[0], s[-1] + 1)):
        body = f"(in[{s[0]}..{s[-1]}] != 0)"
    else:
        body = "(" + "|".join(f"in[{i}]" for i in s) + ")"
    return body if b[0] == "or" else "!" + body


def show_bits(bits):
    """compact run-length rendering, low bit first"""
    out = []
    i = 0
    n = len(bits)
    while i < n:
        b = bits[i]
        j = i
        if b not in (0, 1, T) and b[0] == "or" and len(b[1]) == 1:
            k0 = next(iter(b[1]))
            # identity run in[k0..] or a repeated bit
            while j + 1 < n and bits[j + 1] == IN(k0 + (j + 1 - i)):
                j += 1
            if j > i:
                out.append(f"[{i}..{j}]=in[{k0}..{k0 + j - i}]")
                i = j + 1
                continue
        while j + 1 < n and bits[j + 1] == b:
            j += 1
        out.append((f"[{i}..{j}]=" if j > i else f"[{i}]=") + show_bit(b))
        i = j + 1
    return " ".join(out)


# =============================================================================================== language types
class LT:
    def __init__(self, name, kind, width, signed=False):
        self.name, self.kind, self.width, self.signed = name, kind, width, signed

    def __repr__(self):
        return self.name


LIT = LT("<integer literal>", "lit", 64, True)


def _norm(s):
    return re.sub(r"\s+", "", s)


def _mk(entries):
    d = {}
    for names, kind, width, signed in entries:
        names = names if isinstance(names, (list, tuple)) else [names]
        t = LT(names[0], kind, width, signed)
        for n in names:
            d[_norm(n)] = t
    return d


_CINTS = [("int8_t", "int", 8, True), ("uint8_t", "int", 8, False), ("int16_t", "int", 16, True),
          ("uint16_t", "int", 16, False), ("int32_t", "int", 32, True), ("uint32_t", "int", 32, False),
          ("int64_t", "int", 64, True), ("uint64_t", "int", 64, False),
          # wasm32: size_t / uintptr_t are 32-bit unsigned (clang wasm32 data model ILP32)
          ("size_t", "int", 32, False), ("uintptr_t", "int", 32, False), ("intptr_t", "int", 32, True),
          ("float", "float", 32, False), ("double", "float", 64, False), ("bool", "bool", 1, False),
          (["uint8_t*", "void*"], "ptr", 32, False)]

# per-language type-name tables (name -> kind, width, signedness); widths of pointer-sized types are wasm32's
LTYPES = {
    "rust": _mk([("i8", "int", 8, True), ("u8", "int", 8, False), ("i16", "int", 16, True), ("u16", "int", 16, False),
                 ("i32", "int", 32, True), ("u32", "int", 32, False), ("i64", "int", 64, True), ("u64", "int", 64, False),
                 ("usize", "int", 32, False), ("isize", "int", 32, True), ("f32", "float", 32, False),
                 ("f64", "float", 64, False), ("bool", "bool", 1, False), ("char", "char", 32, False),
                 ("*mut u8", "ptr", 32, False),
                 (["::core::mem::MaybeUninit::<u64>", "MaybeUninit<u64>"], "mu", 64, False)]),
    "c": _mk(_CINTS),
    "cpp": _mk(_CINTS),
    "csharp": _mk([("sbyte", "int", 8, True), ("byte", "int", 8, False), ("short", "int", 16, True),
                   ("ushort", "int", 16, False), ("int", "int", 32, True), ("uint", "int", 32, False),
                   ("long", "int", 64, True), ("ulong", "int", 64, False), ("nint", "int", 32, True),
                   # C# spec 8.3.6: char is an unsigned 16-bit integral type (a UTF-16 code unit); it converts
                   # implicitly to ushort/int/uint/long/ulong (10.2.3) and only explicitly FROM other integral types
                   ("char", "int", 16, False),
                   ("float", "float", 32, False), ("double", "float", 64, False), ("bool", "bool", 1, False)]),
    "go": _mk([("int8", "int", 8, True), (["uint8", "byte"], "int", 8, False), ("int16", "int", 16, True),
               ("uint16", "int", 16, False), (["int32", "rune"], "int", 32, True), ("uint32", "int", 32, False),
               ("int64", "int", 64, True), ("uint64", "int", 64, False), ("uintptr", "int", 32, False),
               ("float32", "float", 32, False), ("float64", "float", 64, False), ("bool", "bool", 1, False)]),
    "d": _mk([("byte", "int", 8, True), ("ubyte", "int", 8, False), ("short", "int", 16, True),
              ("ushort", "int", 16, False), ("int", "int", 32, True), ("uint", "int", 32, False),
              ("long", "int", 64, True), ("ulong", "int", 64, False), ("size_t", "int", 32, False),
              ("float", "float", 32, False), ("double", "float", 64, False), ("bool", "bool", 1, False),
              ("dchar", "char", 32, False), ("void*", "ptr", 32, False)]),
    "moonbit": _mk([("Int", "int", 32, True), ("UInt", "int", 32, False), ("Int64", "int", 64, True),
                    ("UInt64", "int", 64, False), ("Byte", "int", 8, False), ("Float", "float", 32, False),
                    ("Double", "float", 64, False), ("Bool", "bool", 1, False), ("Char", "char", 32, False)]),
}


def ltype(lang, name):
    t = LTYPES[lang].get(_norm(name))
    if t is None:
        raise Unknown(f"type `{name}` is not in the {lang} type table of convsem")
    return t


# =============================================================================================== values
class V:
    def __init__(self, ty, bits, ref=None):
        assert len(bits) == ty.width, (ty, len(bits))
        self.ty, self.bits, self.ref = ty, list(bits), ref

    @property
    def is_const(self):
        return all(b in (0, 1) for b in self.bits)

    def uval(self):
        return sum(b << i for i, b in enumerate(self.bits))

    def sval(self):
        u = self.uval()
        if self.ty.signed and self.bits[-1] == 1:
            u -= 1 << len(self.bits)
        return u

    def show(self):
        if self.is_const:
            if self.ty.kind == "bool":
                return "true" if self.bits[0] else "false"
            if self.ty.kind in ("float", "ptr", "mu"):
                return f"bits 0x{self.uval():x}"
            return str(self.sval())
        return show_bits(self.bits)


def const(ty, value):
    return V(ty, [(value >> i) & 1 for i in range(ty.width)])


def lit(value):
    return const(LIT, value)


def resize(bits, signed, w):
    if w <= len(bits):
        return list(bits[:w])
    return list(bits) + [bits[-1] if signed else 0] * (w - len(bits))


# justification of the integer cast rule, per language (printed in the evidence)
CAST_RULE = {
    "rust": "Rust reference, `as` numeric cast: truncates when narrowing; widening sign-extends a signed source and "
            "zero-extends an unsigned one; same width is a no-op; bool/char -> integer yields 0/1 / the scalar value; "
            "integer -> pointer goes through usize",
    "c": "C11 6.3.1.3 (+ C23 two's complement; clang/gcc define the signed case as wrap): conversion to a narrower "
         "type keeps the low bits, widening extends by the SOURCE type's signedness; conversion to _Bool is `!= 0` "
         "(6.3.1.2); _Bool promotes to 0/1",
    "cpp": "C++20 [conv.integral]: result is the value congruent modulo 2^N (low bits kept, widening by the source "
           "signedness); [conv.bool] integral -> bool is `!= 0`; bool -> integral is 0/1",
    "csharp": "C# spec 10.3.2 explicit numeric conversions in an unchecked context (the default for non-constant "
              "expressions): extra high bits are discarded, widening sign/zero-extends by the source type; "
              "10.2.3 implicit numeric conversions are the value-preserving widenings",
    "go": "Go spec, Conversions between numeric types: sign-extended if the source is signed, zero-extended otherwise, "
          "then truncated to fit the result type; no implicit conversions between named numeric types",
    "d": "D spec, Cast Expressions / Integer Conversions: integral casts truncate or extend by the source type's "
         "signedness; implicit conversion only to a type at least as wide; cast(bool) is `!= 0`; bool is 0/1",
    "moonbit": "MoonBit has no cast syntax; conversions are the methods listed in PRIMS",
}


def _implicit_int_ok(lang, s, d):
    if lang in ("c", "cpp"):
        return True
    if lang == "csharp":
        if d.name == "char":
            return False
        return (s.width < d.width and (d.signed or not s.signed)) or (s.name, d.name) in (("int", "nint"), ("char", "ushort"))
    if lang == "d":
        return d.width >= s.width
    return False


def convert(lang, v, dst, explicit):
    """Value conversion `v` -> type dst under the language's rules (explicit cast or implicit conversion)."""
    s = v.ty
    how = "cast" if explicit else "implicit conversion"
    if s.name == dst.name:
        return v
    sk, dk = s.kind, dst.kind
    if sk == "lit":
        if dk in ("int", "char"):
            if v.is_const:
                val = v.sval()
                lo, hi = (-(1 << (dst.width - 1)), (1 << dst.width) - 1)
                if not lo <= val <= hi:
                    raise Unknown(f"literal {val} does not fit {dst.name}")
            return V(dst, resize(v.bits, True, dst.width))
        if dk == "bool" and lang in ("c", "cpp"):
            return V(dst, [b_anyset(v.bits)])
        raise Unknown(f"{lang}: integer literal used as {dst.name}")
    if sk == "int" and dk == "int":
        if not explicit and not _implicit_int_ok(lang, s, dst):
            raise Unknown(f"{lang}: no implicit conversion {s.name} -> {dst.name} (the generated code needs an explicit cast)")
        return V(dst, resize(v.bits, s.signed, dst.width))
    if sk == "bool" and dk == "int":
        if lang in ("c", "cpp", "d") or (lang == "rust" and explicit):
            return V(dst, resize(v.bits, False, dst.width))
        raise Unknown(f"{lang}: no {how} bool -> {dst.name}")
    if sk == "int" and dk == "bool":
        if lang in ("c", "cpp") or (lang == "d" and explicit):
            return V(dst, [b_anyset(v.bits)])
        raise Unknown(f"{lang}: no {how} {s.name} -> bool")
    if sk == "char" and dk == "int":
        if (lang == "rust" and explicit) or (lang == "d" and (explicit or dst.width >= 32)):
            return V(dst, resize(v.bits, False, dst.width))
        raise Unknown(f"{lang}: no {how} {s.name} -> {dst.name}")
    if sk == "int" and dk == "char":
        if lang == "d" and explicit:
            return V(dst, resize(v.bits, s.signed, 32))
        raise Unknown(f"{lang}: no {how} {s.name} -> {dst.name}")
    if sk == "int" and dk == "ptr":
        if explicit and lang in ("c", "cpp", "d", "rust"):
            return V(dst, resize(v.bits, s.signed, 32))
        raise Unknown(f"{lang}: no {how} {s.name} -> pointer")
    if sk == "ptr" and dk == "int":
        if explicit and lang in ("c", "cpp", "d", "rust"):
            # widening a pointer is implementation-defined (clang zero-, gcc sign-extends): upper bits unknown
            return V(dst, list(v.bits[:dst.width]) + [T] * max(0, dst.width - 32))
        raise Unknown(f"{lang}: no {how} pointer -> {dst.name}")
    if sk == "ptr" and dk == "ptr":
        return V(dst, v.bits)
    if sk == "float" and dk == "float" and (explicit or lang in ("c", "cpp", "d", "csharp")):
        return V(dst, [T] * dst.width)  # a value conversion, not bit-preserving
    if {sk, dk} == {"float", "int"} and (explicit or lang in ("c", "cpp")):
        return V(dst, [T] * dst.width)  # numeric conversion, not a reinterpretation
    raise Unknown(f"{lang}: no {how} {s.name} -> {dst.name}")


# =============================================================================================== expression readers
# generic AST (tuples):
#   ('op',) ('var', n) ('int', v) ('bool', b) ('cast', ty, e) ('coerce', ty, e) ('call', name, targs, args)
#   ('mcall', recv, name, targs, args) ('bin', op, l, r) ('cond', c, a, b) ('field', e, n) ('compound', ty, e)
#   ('block', [('let', n, e) | ('expr', e)], tail) ('match', scrut, [(pat, body)]) ('cfgif', debug, release)
#   ('neg', e) ('panic',)
OPERAND = "__OP__"


def _int_lit(text):
    t = text.replace("_", "")
    m = re.match(r"^(0[xX][0-9a-fA-F]+|0[bB][01]+|0[oO][0-7]+|\d+)([A-Za-z]\w*)?$", t)
    if not m:
        raise Unknown(f"integer literal `{text}` not understood")
    body, suffix = m.group(1), m.group(2)
    return int(body, 0) if not body.isdigit() else int(body), suffix


def rust_ast(e):
    """syn JSON (lib/synq node) -> generic AST"""
    k = e.get("k")
    if k == "path":
        return ("op",) if e["path"] == OPERAND else ("var", e["path"])
    if k == "int":
        v, suffix = _int_lit(str(e["v"]) + (e.get("suffix") or ""))
        return ("cast", suffix, ("int", v)) if suffix else ("int", v)
    if k == "bool":
        return ("bool", bool(e["v"]))
    if k == "cast":
        return ("cast", e["ty"], rust_ast(e["e"]))
    if k == "call" and e["func"].get("k") == "path":
        return ("call", e["func"]["path"], [], [rust_ast(a) for a in e["args"]])
    if k == "mcall":
        tf = e.get("turbofish")
        targs = [tf.strip()[3:-1].strip()] if tf else []
        return ("mcall", rust_ast(e["recv"]), e["method"], targs, [rust_ast(a) for a in e["args"]])
    if k == "binary":
        return ("bin", e["op"], rust_ast(e["l"]), rust_ast(e["r"]))
    if k == "unary" and e["op"] == "*":
        return rust_ast(e["e"])  # deref of a reference to a Copy scalar
    if k == "unary" and e["op"] == "-":
        return ("neg", rust_ast(e["e"]))
    if k == "ref":
        return rust_ast(e["e"])
    if k == "block":
        stmts, tail = [], None
        for i, s in enumerate(e["stmts"]):
            if s["k"] == "let" and s["pat"].get("k") == "p_ident" and s.get("init") is not None:
                stmts.append(("let", s["pat"]["name"], rust_ast(s["init"])))
            elif s["k"] == "expr_stmt":
                if i == len(e["stmts"]) - 1 and not s.get("semi"):
                    tail = rust_ast(s["e"])
                else:
                    stmts.append(("expr", rust_ast(s["e"])))
            else:
                raise Unknown(f"rust: statement kind {s['k']} in a conversion template")
        if tail is None:
            raise Unknown("rust: block without a tail expression")
        return ("block", stmts, tail) if stmts else tail
    if k == "if":
        c = e["cond"]
        if e.get("else") is None:
            raise Unknown("rust: `if` without else")
        if c.get("k") == "macro" and synq.short(c["name"]) == "cfg" and synq.render(c.get("args")) == "debug_assertions":
            return ("cfgif", rust_ast(e["then"]), rust_ast(e["else"]))
        return ("cond", rust_ast(c), rust_ast(e["then"]), rust_ast(e["else"]))
    if k == "match":
        arms = []
        for a in e["arms"]:
            if a.get("guard"):
                raise Unknown("rust: match guard in a conversion template")
            p = a["pat"]
            if p.get("k") == "p_wild":
                pat = "_"
            elif p.get("k") == "p_lit" and p["lit"].get("k") in ("bool", "int"):
                pat = bool(p["lit"]["v"]) if p["lit"]["k"] == "bool" else _int_lit(str(p["lit"]["v"]))[0]
            else:
                raise Unknown(f"rust: match pattern {synq.pat_head(p)} in a conversion template")
            arms.append((pat, rust_ast(a["body"])))
        return ("match", rust_ast(e["scrut"]), arms)
    if k == "macro" and synq.short(e["name"]) in ("panic", "unreachable"):
        return ("panic",)
    raise Unknown(f"rust: expression kind `{k}` ({synq.render(e)[:60]}) not understood")


def read_rust(text):
    ast = facts.parse_snippet(text)
    if "error" in ast or "stmts" not in ast or len(ast["stmts"]) != 1 or ast["stmts"][0].get("k") != "expr_stmt":
        raise Unknown(f"rust: template does not parse as one expression: {ast.get('error', '')}")
    return rust_ast(ast["stmts"][0]["e"])


_TOK = re.compile(r"\s*(0[xX][0-9a-fA-F_]+[uUlL]*|\d[\d_]*[uUlL]*|[A-Za-z_]\w*|::|!=|==|<<|>>|&&|\|\||[-+*/%&|^!~?:.,(){}<>\[\]=;])")
_BINPREC = {"|": 3, "^": 4, "&": 5, "==": 6, "!=": 6, "<<": 8, ">>": 8, "+": 9, "-": 9, "*": 10}


class Reader:
    """Pratt reader for the C / C++ / C# / Go / D / MoonBit expression forms the backends emit."""

    def __init__(self, lang, text, variables=()):
        self.lang = lang
        self.text = text
        self.vars = set(variables) | {OPERAND}
        self.toks = []
        pos = 0
        s = text.strip()
        while pos < len(s):
            m = _TOK.match(s, pos)
            if not m:
                raise Unknown(f"{lang}: cannot tokenise `{s[pos:pos + 20]}`")
            self.toks.append(m.group(1))
            pos = m.end()
        self.i = 0

    def peek(self, k=0):
        return self.toks[self.i + k] if self.i + k < len(self.toks) else None

    def next(self):
        t = self.peek()
        if t is None:
            raise Unknown(f"{self.lang}: unexpected end of `{self.text}`")
        self.i += 1
        return t

    def expect(self, t):
        g = self.next()
        if g != t:
            raise Unknown(f"{self.lang}: expected `{t}` but found `{g}` in `{self.text}`")

    def parse(self):
        e = self.ternary()
        if self.peek() is not None:
            raise Unknown(f"{self.lang}: trailing `{self.peek()}` in `{self.text}`")
        return e

    def ternary(self):
        c = self.binary(1)
        if self.peek() == "?" and self.lang in ("c", "cpp", "csharp", "d"):
            self.next()
            a = self.ternary()
            self.expect(":")
            b = self.ternary()
            return ("cond", c, a, b)
        return c

    def binary(self, minp):
        lhs = self.unary()
        while True:
            op = self.peek()
            if op in ("<", ">", "&&", "||", "/", "%"):
                raise Unknown(f"{self.lang}: operator `{op}` not modelled")
            p = _BINPREC.get(op)
            if p is None or p < minp:
                return lhs
            if self.lang in ("go", "moonbit") and op not in ("==", "!=", "+", "-"):
                raise Unknown(f"{self.lang}: precedence of `{op}` not modelled")
            self.next()
            rhs = self.binary(p + 1)
            lhs = ("bin", op, lhs, rhs)

    def try_type(self):
        """type name at the cursor -> normalised name (cursor advanced) or None (cursor unchanged)"""
        save = self.i
        t = self.peek()
        if t is None or not re.match(r"[A-Za-z_]", t):
            return None
        self.next()
        if t in ("union", "struct") and self.lang in ("c", "cpp"):
            n = self.next()
            return f"{t} {n}"
        name = t
        while self.peek() == "*":
            self.next()
            name += "*"
        if _norm(name) in LTYPES[self.lang]:
            return name
        self.i = save
        return None

    def unary(self):
        t = self.peek()
        lang = self.lang
        if t == "(" and lang in ("c", "cpp", "csharp"):
            save = self.i
            self.next()
            ty = self.try_type()
            if ty is not None and self.peek() == ")":
                self.next()
                if self.peek() == "{" and lang in ("c", "cpp"):
                    self.next()
                    e = self.ternary()
                    self.expect("}")
                    return self.postfix(("compound", ty, e))
                return ("cast", ty, self.unary())
            self.i = save
        if t == "-":
            self.next()
            return ("neg", self.unary())
        if t in ("!", "~", "*", "&"):
            raise Unknown(f"{lang}: unary `{t}` not modelled")
        if t == "cast" and lang == "d" and self.peek(1) == "(":
            self.next()
            self.next()
            ty = self.try_type()
            if ty is None:
                raise Unknown(f"d: cast to an unknown type in `{self.text}`")
            self.expect(")")
            return ("cast", ty, self.unary())
        if t == "if" and lang == "moonbit":
            self.next()
            c = self.binary(1)
            self.expect("{")
            a = self.ternary()
            self.expect("}")
            self.expect("else")
            self.expect("{")
            b = self.ternary()
            self.expect("}")
            return ("cond", c, a, b)
        return self.postfix(self.primary())

    def args(self):
        self.expect("(")
        out = []
        if self.peek() == ")":
            self.next()
            return out
        while True:
            out.append(self.ternary())
            t = self.next()
            if t == ")":
                return out
            if t != ",":
                raise Unknown(f"{self.lang}: expected `,` or `)` in `{self.text}`")

    def primary(self):
        t = self.next()
        lang = self.lang
        if re.match(r"\d", t):
            v, suffix = _int_lit(re.sub(r"[uUlL]+$", "", t))
            return ("int", v)
        if t == "(":
            e = self.ternary()
            self.expect(")")
            return e
        if not re.match(r"[A-Za-z_]", t):
            raise Unknown(f"{lang}: unexpected `{t}` in `{self.text}`")
        if t in ("true", "false"):
            return ("bool", t == "true")
        if t == "unchecked" and lang == "csharp" and self.peek() == "(":
            # C# spec 12.8.20: unchecked(e) evaluates e in an unchecked context (same value, no overflow trap)
            self.next()
            e = self.ternary()
            self.expect(")")
            return e
        if t in self.vars:
            return ("op",) if t == OPERAND else ("var", t)
        # functional cast / conversion  T(e)
        if _norm(t) in LTYPES[lang] and self.peek() == "(" and lang in ("go", "cpp"):
            a = self.args()
            if len(a) != 1:
                raise Unknown(f"{lang}: conversion {t}(..) with {len(a)} arguments")
            return ("cast", t, a[0])
        # a dotted / scoped name of a function
        name = t
        while self.peek() in ("::", ".") and re.match(r"[A-Za-z_]", self.peek(1) or ""):
            name += self.next() + self.next()
        targs = []
        if self.peek() == "<" and lang == "cpp":
            self.next()
            while True:
                ty = self.try_type()
                if ty is None:
                    raise Unknown(f"cpp: template argument not a known type in `{self.text}`")
                targs.append(ty)
                s = self.next()
                if s == ">":
                    break
                if s != ",":
                    raise Unknown(f"cpp: malformed template argument list in `{self.text}`")
        if self.peek() == "(":
            return ("call", name, targs, self.args())
        raise Unknown(f"{lang}: free name `{name}` in `{self.text}`")

    def postfix(self, e):
        while self.peek() == ".":
            self.next()
            n = self.next()
            if not re.match(r"[A-Za-z_]", n):
                raise Unknown(f"{self.lang}: `.{n}` in `{self.text}`")
            targs = []
            if self.peek() == "!" and self.lang == "d":
                self.next()
                ty = self.try_type()
                if ty is None:
                    raise Unknown(f"d: template instantiation with an unknown type in `{self.text}`")
                targs.append(ty)
                a = self.args() if self.peek() == "(" else []
                e = ("mcall", e, n, targs, a)
            elif self.peek() == "(":
                e = ("mcall", e, n, targs, self.args())
            else:
                e = ("field", e, n)
        return e


_GO_PRELUDE = re.compile(r"^var (\w+) (\w+) if (.+?) \{ (\w+) = (.+?) \} else \{ (\w+) = (.+?) \}$")


def read_template(lang, text, prelude=""):
    """-> (ast, env_asts) ; env_asts binds temporaries introduced by statements written before the expression"""
    env = {}
    prelude = " ".join(prelude.split())
    if prelude:
        m = _GO_PRELUDE.match(prelude) if lang == "go" else None
        if not m or not (m.group(1) == m.group(4) == m.group(6)):
            raise Unknown(f"{lang}: statements written before the expression are not understood: `{prelude[:80]}`")
        name, ty = m.group(1), m.group(2)
        # Go spec, Assignability: an untyped constant is converted to the variable's declared type
        env[name] = ("cond", Reader(lang, m.group(3)).parse(), ("coerce", ty, Reader(lang, m.group(5)).parse()),
                     ("coerce", ty, Reader(lang, m.group(7)).parse()))
    if lang == "rust":
        if prelude:
            raise Unknown("rust: prelude statements not understood")
        return read_rust(text), env
    return Reader(lang, text, env.keys()).parse(), env


# =============================================================================================== evaluator
class Ctx:
    def __init__(self, lang, operand, helpers=None, env_asts=None):
        self.lang, self.operand, self.helpers = lang, operand, helpers or {}
        self.env_asts = env_asts or {}
        self.notes = []


def _reinterpret(v, dst, what):
    if v.ty.width != dst.width:
        raise Unknown(f"{what}: size mismatch {v.ty.name} ({v.ty.width} bit) vs {dst.name} ({dst.width} bit)")
    return V(dst, v.bits)


def _exact(lang, v, tyname, what):
    """argument of a function with a fixed parameter type: exact type in strict languages, implicit conversion
    where the language has one"""
    return convert(lang, v, ltype(lang, tyname), explicit=False)


# primitive table: (language, kind, name) -> (receiver/argument type or None, result type, transfer, justification)
# transfer: 'bits' = same bits under the result type (reinterpretation / same-width conversion)
#           'ext'  = value-preserving widening by the argument's signedness; 'wrap' = keep the low bits
PRIMS = {
    # ---- Rust
    ("rust", "call", "i64::from"): (None, "i64", "ext", "core `impl From<i8|i16|i32|u8|u16|u32> for i64` is the lossless value-preserving widening"),
    ("rust", "mcall", "to_bits"): (("f32", "f64"), ("u32", "u64"), "bits", "f32::to_bits / f64::to_bits: raw transmute to u32 / u64"),
    ("rust", "call", "f32::from_bits"): ("u32", "f32", "bits", "f32::from_bits(u32): raw transmute"),
    ("rust", "call", "f64::from_bits"): ("u64", "f64", "bits", "f64::from_bits(u64): raw transmute"),
    ("rust", "call", "::core::mem::MaybeUninit::new"): ("u64", "MaybeUninit<u64>", "bits", "MaybeUninit::new(v) stores v unchanged"),
    ("rust", "mcall", "assume_init"): ("MaybeUninit<u64>", "u64", "bits", "MaybeUninit::assume_init returns the stored bytes as a u64"),
    ("rust", "call", "core::char::from_u32_unchecked"): ("u32", "char", "bits", "char::from_u32_unchecked: the u32 is the scalar value, validity ignored"),
    # ---- C#
    ("csharp", "call", "global::System.BitConverter.Int32BitsToSingle"): ("int", "float", "bits", ".NET BitConverter.Int32BitsToSingle(int): reinterprets the bits"),
    ("csharp", "call", "global::System.BitConverter.SingleToInt32Bits"): ("float", "int", "bits", ".NET BitConverter.SingleToInt32Bits(float): reinterprets the bits"),
    ("csharp", "call", "global::System.BitConverter.Int64BitsToDouble"): ("long", "double", "bits", ".NET BitConverter.Int64BitsToDouble(long): reinterprets the bits"),
    ("csharp", "call", "global::System.BitConverter.DoubleToInt64Bits"): ("double", "long", "bits", ".NET BitConverter.DoubleToInt64Bits(double): reinterprets the bits"),
    # ---- Go
    ("go", "call", "math.Float32frombits"): ("uint32", "float32", "bits", "Go math.Float32frombits(uint32): IEEE 754 bits -> float32"),
    ("go", "call", "math.Float32bits"): ("float32", "uint32", "bits", "Go math.Float32bits(float32): IEEE 754 bits"),
    ("go", "call", "math.Float64frombits"): ("uint64", "float64", "bits", "Go math.Float64frombits(uint64)"),
    ("go", "call", "math.Float64bits"): ("float64", "uint64", "bits", "Go math.Float64bits(float64)"),
    # ---- MoonBit (core library; methods keyed by receiver type; `T::m(x)` is the same function)
    ("moonbit", "Byte", "to_int"): ("Byte", "Int", "ext", "Byte::to_int: value-preserving (Byte is 0..255)"),
    ("moonbit", "Char", "to_int"): ("Char", "Int", "bits", "Char::to_int: the Unicode scalar value"),
    ("moonbit", "Int", "to_byte"): ("Int", "Byte", "wrap", "Int::to_byte keeps the low 8 bits"),
    ("moonbit", "Int", "unsafe_to_char"): ("Int", "Char", "bits", "Int::unsafe_to_char: the Int is the scalar value, validity unchecked"),
    ("moonbit", "UInt", "reinterpret_as_int"): ("UInt", "Int", "bits", "UInt::reinterpret_as_int: same 32 bits"),
    ("moonbit", "Int", "reinterpret_as_uint"): ("Int", "UInt", "bits", "Int::reinterpret_as_uint: same 32 bits"),
    ("moonbit", "UInt64", "reinterpret_as_int64"): ("UInt64", "Int64", "bits", "UInt64::reinterpret_as_int64: same 64 bits"),
    ("moonbit", "Int64", "reinterpret_as_uint64"): ("Int64", "UInt64", "bits", "Int64::reinterpret_as_uint64: same 64 bits"),
    ("moonbit", "Int", "reinterpret_as_float"): ("Int", "Float", "bits", "Int::reinterpret_as_float = f32.reinterpret_i32"),
    ("moonbit", "Float", "reinterpret_as_int"): ("Float", "Int", "bits", "Float::reinterpret_as_int = i32.reinterpret_f32"),
    ("moonbit", "Int64", "reinterpret_as_double"): ("Int64", "Double", "bits", "Int64::reinterpret_as_double = f64.reinterpret_i64"),
    ("moonbit", "Double", "reinterpret_as_int64"): ("Double", "Int64", "bits", "Double::reinterpret_as_int64 = i64.reinterpret_f64"),
    ("moonbit", "Int", "to_int64"): ("Int", "Int64", "ext", "Int::to_int64 = i64.extend_i32_s"),
    ("moonbit", "Int64", "to_int"): ("Int64", "Int", "wrap", "Int64::to_int = i32.wrap_i64"),
}
OTHER_RULES = {
    "rust block `let t = MaybeUninit::<u64>::uninit(); t.as_mut_ptr().cast::<T>().write(x); t`":
        "wasm is little endian: a T written at offset 0 of the u64 occupies its low size_of::<T>() bytes, the rest stays uninitialised (unknown)",
    "rust `.as_ptr().cast::<T>().read()` on a MaybeUninit<u64>": "reads the low size_of::<T>() bytes (little endian)",
    "rust `core::char::from_u32(x).unwrap()`": "returns the same scalar value or panics (a trap, never a different value)",
    "rust `if cfg!(debug_assertions) {A} else {B}`": "value of B (release); A must agree with B wherever A does not panic",
    "c `((union U){ e }).b`": "C11 6.5.2.3 fn.95: reading a member other than the one last stored reinterprets the object "
                              "representation; e is converted to the first member's type (6.7.9p17); member types read from the union definition in the generator",
    "cpp `std::bit_cast<To, From>(e)`": "C++20 [bit.cast]: the bits of the From value (e converted to From) as a To of the same size",
    "d `e.reinterpretCast!T`": "helper in crates/d/src/wit_common.d (union pun, constrained to T.sizeof == U.sizeof; text verified on every run)",
    "moonbit `x.land(c)`": "Int::land is the bitwise and",
    "moonbit `mbt_ffi_extend8/16`": "inline wasm `i32.extend8_s` / `i32.extend16_s` (body read from crates/moonbit/src/ffi.rs on every run): sign-extends the low 8 / 16 bits",
    "`x != 0` / `x == 0`": "true iff some / no bit is set",
    "`c ? a : b`, `if c {a} else {b}`, `match c {true => a, false => b}`": "bitwise multiplexer on the condition bit",
    "`+ - *`": "exact on constants; on a non-constant operand every result bit is unknown",
    "`& | ^ << >>` with a constant": "bitwise on the provenance vector (>> is arithmetic for a signed left operand)",
}


def _apply(lang, key, args_types, v, what):
    argt, rest, how, _ = PRIMS[key]
    if isinstance(argt, tuple):
        if v.ty.name not in argt:
            raise Unknown(f"{what}: receiver of type {v.ty.name}")
        dst = ltype(lang, rest[argt.index(v.ty.name)])
    else:
        dst = ltype(lang, rest)
        if argt is not None:
            if v.ty.kind == "lit" and lang == "moonbit":
                v = convert(lang, v, ltype(lang, argt), False)
            v = _exact(lang, v, argt, what)
    if how == "bits":
        return _reinterpret(v, dst, what)
    if v.ty.kind != "int":
        raise Unknown(f"{what}: argument of type {v.ty.name}")
    if how == "ext" and not (v.ty.width < dst.width or (v.ty.width == dst.width and v.ty.signed == dst.signed)) \
            or (how == "ext" and v.ty.signed and not dst.signed):
        raise Unknown(f"{what}: {v.ty.name} -> {dst.name} is not a value-preserving widening")
    return V(dst, resize(v.bits, v.ty.signed, dst.width))


def _unify(lang, a, b):
    if a.ty.kind == "lit" and b.ty.kind != "lit":
        return convert(lang, a, b.ty, False), b
    if b.ty.kind == "lit" and a.ty.kind != "lit":
        return a, convert(lang, b, a.ty, False)
    if a.ty.name != b.ty.name:
        raise Unknown(f"{lang}: operands of different types {a.ty.name} / {b.ty.name}")
    return a, b


BOOL = {lang: LTYPES[lang][_norm("Bool" if lang == "moonbit" else "bool")] for lang in LTYPES}


def _truth(lang, v):
    if v.ty.kind == "bool":
        return v.bits[0]
    if lang in ("c", "cpp") and v.ty.kind in ("int", "lit"):
        return b_anyset(v.bits)
    raise Unknown(f"{lang}: condition of type {v.ty.name}")


def _binop(lang, op, a, b):
    a, b = _unify(lang, a, b)
    if op in ("==", "!="):
        if a.ty.kind not in ("int", "lit", "bool", "char"):
            raise Unknown(f"{lang}: comparison of {a.ty.name}")
        diff = b_anyset([b_xor(x, y) for x, y in zip(a.bits, b.bits)])
        return V(BOOL[lang], [diff if op == "!=" else bnot(diff)])
    if a.ty.kind not in ("int", "lit"):
        raise Unknown(f"{lang}: `{op}` on {a.ty.name}")
    w = a.ty.width
    if op in ("&", "|", "^"):
        f = {"&": b_and, "|": b_or, "^": b_xor}[op]
        return V(a.ty, [f(x, y) for x, y in zip(a.bits, b.bits)])
    if op in ("<<", ">>"):
        if not b.is_const:
            return V(a.ty, [T] * w)
        n = b.uval()
        if n >= w:
            raise Unknown(f"shift by {n} on a {w}-bit value")
        if op == "<<":
            return V(a.ty, [0] * n + a.bits[:w - n])
        return V(a.ty, a.bits[n:] + [a.bits[-1] if a.ty.signed else 0] * n)
    if op in ("+", "-", "*"):
        if a.is_const and b.is_const:
            x, y = a.sval(), b.sval()
            r = x + y if op == "+" else x - y if op == "-" else x * y
            return const(a.ty, r & ((1 << w) - 1))
        return V(a.ty, [T] * w)  # arithmetic on a non-constant value
    raise Unknown(f"operator `{op}` not modelled")


def _values_agree(a, b):
    return a.ty.name == b.ty.name and a.bits == b.bits


def ev(e, cx, env):
    lang = cx.lang
    k = e[0]
    if k == "op":
        return cx.operand
    if k == "var":
        if e[1] in env:
            return env[e[1]]
        if e[1] in cx.env_asts:
            return ev(cx.env_asts[e[1]], cx, env)
        raise Unknown(f"{lang}: free variable `{e[1]}`")
    if k == "int":
        return lit(e[1])
    if k == "bool":
        return V(BOOL[lang], [1 if e[1] else 0])
    if k == "neg":
        return _binop(lang, "-", lit(0), ev(e[1], cx, env))
    if k == "cast":
        return convert(lang, ev(e[2], cx, env), ltype(lang, e[1]), explicit=True)
    if k == "coerce":
        return convert(lang, ev(e[2], cx, env), ltype(lang, e[1]), explicit=False)
    if k == "bin":
        return _binop(lang, e[1], ev(e[2], cx, env), ev(e[3], cx, env))
    if k == "cond":
        c = _truth(lang, ev(e[1], cx, env))
        a, b = ev(e[2], cx, env), ev(e[3], cx, env)
        a, b = _unify(lang, a, b)
        return V(a.ty, [b_mux(c, x, y) for x, y in zip(a.bits, b.bits)])
    if k == "match":
        s = ev(e[1], cx, env)
        arms = dict((p, b) for p, b in e[2] if p != "_")
        if s.ty.kind == "bool" and set(arms) == {True, False}:
            return ev(("cond", e[1], arms[True], arms[False]), cx, env)
        # integer scrutinee with literal arms and a panicking catch-all: a partial function (debug refinement only)
        wild = [b for p, b in e[2] if p == "_"]
        if s.ty.kind == "int" and len(wild) == 1 and wild[0] == ("panic",) and s.is_const:
            if s.uval() in arms:
                return ev(arms[s.uval()], cx, env)
            return None  # traps
        raise Unknown(f"{lang}: match on a non-constant {s.ty.name}")
    if k == "cfgif":
        rel = ev(e[2], cx, env)
        _check_debug_refines(e[1], rel, e[2], cx, env)
        return rel
    if k == "block":
        env = dict(env)
        for st in e[1]:
            if st[0] == "let":
                env[st[1]] = ev(st[2], cx, env)
            else:
                _effect(st[1], cx, env)
        return ev(e[2], cx, env)
    if k == "compound":
        return _compound(e, cx, env)
    if k == "field":
        base = ev(e[1], cx, env)
        if base.ref and base.ref[0] == "union":
            members = base.ref[1]
            if e[2] not in members:
                raise Unknown(f"union has no member {e[2]}")
            return _reinterpret(base, ltype(lang, members[e[2]]), f"union member .{e[2]}")
        raise Unknown(f"{lang}: field access .{e[2]}")
    if k == "call":
        return _call(e, cx, env)
    if k == "mcall":
        return _mcall(e, cx, env)
    if k == "panic":
        raise Unknown("panic!() reached")
    raise Unknown(f"AST node {k} not modelled")


def _check_debug_refines(debug, rel, rel_ast, cx, env):
    """`if cfg!(debug_assertions) {A} else {B}`: A must equal B, or be a literal-armed match that agrees with B on
    every listed constant and panics elsewhere."""
    if debug[0] == "match" and debug[2] and debug[2][-1] == ("_", ("panic",)):
        scr = debug[1]
        if scr[0] != "var" or scr[1] not in env:
            raise Unknown("debug branch matches on something other than a parameter")
        for pat, body in debug[2][:-1]:
            env2 = dict(env)
            env2[scr[1]] = const(env[scr[1]].ty, pat)
            a, b = ev(body, cx, env2), ev(rel_ast, cx, env2)
            if not _values_agree(a, b):
                raise Unknown(f"debug and release branches disagree for input {pat}: {a.show()} vs {b.show()}")
        return
    a = ev(debug, cx, env)
    if not _values_agree(a, rel):
        raise Unknown(f"debug branch computes {a.show()} but release branch {rel.show()}")


def _effect(e, cx, env):
    """statement with an effect on a local: `t.as_mut_ptr().cast::<T>().write(x)`"""
    if e[0] == "mcall" and e[2] == "write" and len(e[4]) == 1:
        c = e[1]
        if c[0] == "mcall" and c[2] == "cast" and len(c[3]) == 1 and c[1][0] == "mcall" and c[1][2] == "as_mut_ptr" \
                and c[1][1][0] == "var" and c[1][1][1] in env and env[c[1][1][1]].ty.kind == "mu":
            var = c[1][1][1]
            ty = ltype(cx.lang, c[3][0])
            x = ev(e[4][0], cx, env)
            if x.ty.name != ty.name:
                raise Unknown(f"write::<{ty.name}> of a {x.ty.name}")
            old = env[var]
            env[var] = V(old.ty, x.bits + old.bits[ty.width:])
            return
    raise Unknown(f"{cx.lang}: statement not modelled in a conversion template")


def _compound(e, cx, env):
    ty = e[1]
    if not ty.startswith("union "):
        raise Unknown(f"compound literal of {ty}")
    members = (cx.helpers.get("unions") or {}).get(ty.split()[1])
    if members is None:
        raise Unknown(f"definition of `{ty}` not found in the generator source")
    first = next(iter(members))
    v = convert(cx.lang, ev(e[2], cx, env), ltype(cx.lang, members[first]), explicit=False)
    if len({ltype(cx.lang, t).width for t in members.values()}) != 1:
        raise Unknown(f"`{ty}` has members of different sizes")
    return V(v.ty, v.bits, ref=("union", members))


def _call(e, cx, env):
    lang, name, targs = cx.lang, e[1], e[2]
    args = [ev(a, cx, env) for a in e[3]]
    key = (lang, "call", name)
    if key in PRIMS and len(args) == 1:
        return _apply(lang, key, None, args[0], name)
    if lang == "rust":
        if name == "::core::mem::MaybeUninit::uninit" and not args:
            if not cx.helpers.get("uninit_u64"):
                raise Unknown("MaybeUninit::uninit(): element type not established as u64")
            return V(ltype(lang, "MaybeUninit<u64>"), [T] * 64)
        h = (cx.helpers.get("fns") or {}).get(name)
        if h is not None and len(args) == len(h["params"]):
            env2 = {}
            for (pn, pt), a in zip(h["params"], args):
                if pt is None:  # trait-dispatched `self`
                    if a.ty.name not in h["impls"]:
                        raise Unknown(f"{name}: no impl for {a.ty.name} (implemented for {h['impls']})")
                    env2[pn] = a
                else:
                    env2[pn] = _exact(lang, a, pt, name)
            r = ev(h["body"], cx, env2)
            return convert(lang, r, ltype(lang, h["ret"]), False)
    if lang == "cpp" and name == "std::bit_cast" and len(targs) == 2 and len(args) == 1:
        to, frm = ltype(lang, targs[0]), ltype(lang, targs[1])
        return _reinterpret(convert(lang, args[0], frm, explicit=False), to, "std::bit_cast")
    if lang == "moonbit":
        if "::" in name and len(args) >= 1:
            recv_ty, m = name.split("::", 1)
            recv = args[0]
            if recv.ty.kind == "lit":
                recv = convert(lang, recv, ltype(lang, recv_ty), False)
            if recv.ty.name != recv_ty:
                raise Unknown(f"moonbit: {name} applied to a {recv.ty.name}")
            return _mb_method(recv, m, args[1:], cx)
        h = (cx.helpers.get("ffi") or {}).get(name)
        if h is not None and len(args) == 1:
            a = _exact(lang, args[0], h["param"], name)
            n = h["extend"]
            return V(ltype(lang, h["ret"]), a.bits[:n] + [a.bits[n - 1]] * (32 - n))
    raise Unknown(f"{lang}: function `{name}` is not in the primitive table")


def _mb_method(recv, m, args, cx):
    lang = "moonbit"
    key = (lang, recv.ty.name, m)
    if key in PRIMS and not args:
        return _apply(lang, key, None, recv, f"{recv.ty.name}::{m}")
    if m == "land" and recv.ty.name in ("Int", "UInt", "Int64", "UInt64") and len(args) == 1:
        return _binop(lang, "&", recv, args[0])
    raise Unknown(f"moonbit: method {recv.ty.name}::{m} is not in the primitive table")


def _mcall(e, cx, env):
    lang, m, targs = cx.lang, e[2], e[3]
    if lang == "rust":
        # core::char::from_u32(x).unwrap()
        if m == "unwrap" and e[1][0] == "call" and e[1][1] in ("core::char::from_u32", "char::from_u32") and len(e[1][3]) == 1:
            x = _exact(lang, ev(e[1][3][0], cx, env), "u32", "char::from_u32")
            return V(ltype(lang, "char"), x.bits)
        # x.as_ptr().cast::<T>().read()
        if m == "read" and not e[4] and e[1][0] == "mcall" and e[1][2] == "cast" and len(e[1][3]) == 1 and \
                e[1][1][0] == "mcall" and e[1][1][2] == "as_ptr":
            base = ev(e[1][1][1], cx, env)
            if base.ty.kind != "mu":
                raise Unknown(f"as_ptr().cast().read() on a {base.ty.name}")
            ty = ltype(lang, e[1][3][0])
            return V(ty, base.bits[:ty.width])
    recv = ev(e[1], cx, env)
    args = [ev(a, cx, env) for a in e[4]]
    if lang == "moonbit":
        return _mb_method(recv, m, args, cx)
    if lang == "d" and m == "reinterpretCast" and len(targs) == 1 and not args:
        if not cx.helpers.get("d_reinterpret"):
            raise Unknown("d: reinterpretCast helper definition not verified")
        return _reinterpret(recv, ltype(lang, targs[0]), "reinterpretCast")
    key = (lang, "mcall", m)
    if key in PRIMS and not args:
        return _apply(lang, key, None, recv, f".{m}()")
    if lang == "rust" and not args:
        h = (cx.helpers.get("fns") or {}).get(m)
        if h is not None and h["params"] and h["params"][0][1] is None:
            return _call(("call", m, [], [e[1]]), cx, env)
    raise Unknown(f"{lang}: method `.{m}()` on {recv.ty.name} is not in the primitive table")


def evaluate(lang, text, operand, helpers=None, prelude=""):
    ast, env_asts = read_template(lang, text, prelude)
    cx = Ctx(lang, operand, helpers, env_asts)
    r = ev(ast, cx, {})
    if r is None:
        raise Unknown("evaluation traps")
    return r


# =============================================================================================== template extraction
class Tmpl:
    """what an arm pushes: `text` (operand = __OP__), `prelude` = statements written to the source before it"""

    def __init__(self, text, prelude):
        self.text, self.prelude = text, prelude

    def show(self):
        return self.text.replace(OPERAND, "{}") + (f"   [after: {' '.join(self.prelude.split())}]" if self.prelude.strip() else "")


_STR_PASS = {"clone", "to_string", "to_owned", "into", "as_str", "to_str", "as_ref", "borrow", "as_mut", "trim"}


class Extract:
    """Partial evaluation of the string an arm of `emit` / of a cast function builds (DESIGN §3 E2, template PE)."""

    def __init__(self, fn, operands=None, results=None, operand_str=None):
        self.fn = fn
        self.operands, self.results, self.operand_str = operands, results, operand_str
        self.closures = {n: i for n, i, st in synq.bindings(fn.body) if i is not None and i.get("k") == "closure"}
        self.pushed = []
        self.prelude = ""
        self.depth = 0
        self._crate_fns = None
        self.extra_io = set()

    # -- general values during partial evaluation: str (template), int (literal), ('variant', Name) (the instruction
    #    the arm is evaluated for), tuple of values; None = unknown (an error only when used)
    def val(self, e, env):
        k = e.get("k")
        if k == "int":
            return _int_lit(str(e["v"]) + (e.get("suffix") or ""))[0]
        if k == "path" and e["path"] in env and env[e["path"]] is not None and not isinstance(env[e["path"]], str):
            return env[e["path"]]
        if k == "ref" or (k == "unary" and e["op"] == "*"):
            inner = e["e"]
            if inner.get("k") in ("path", "int", "tuple", "match"):
                return self.val(inner, env)
        if k == "tuple":
            out = []
            for x in e["elems"]:
                try:
                    out.append(self.val(x, env))
                except Unknown:
                    if self.mentions_io(x):
                        raise
                    out.append(None)
            return tuple(out)
        if k == "match":
            # partial evaluation of a match on a literal argument / on the instruction being evaluated
            sc = self.val(e["scrut"], env)
            for a in synq.arms(e):
                hit = False
                for alt, head in zip(a.alts, a.heads):
                    if head == "_":
                        hit = True
                    elif isinstance(sc, int) and not isinstance(sc, bool) and alt.get("k") == "p_lit" and alt["lit"].get("k") == "int":
                        hit = _int_lit(str(alt["lit"]["v"]))[0] == sc
                    elif isinstance(sc, tuple) and len(sc) == 2 and sc[0] == "variant" and alt.get("k") in ("p_path", "p_struct", "p_tuple_struct", "p_ident"):
                        hit = synq.short(head) == sc[1]
                    elif isinstance(sc, str) or sc is None:
                        raise Unknown("match on a value that is not a literal")
                    if hit:
                        break
                if hit:
                    if a.guard is not None:
                        raise Unknown("match guard during partial evaluation")
                    body = a.body
                    if body.get("k") == "block":
                        return self.val_block(body, env)
                    return self.val(body, env)
            raise Unknown("no arm of the match applies")
        if k == "block":
            return self.val_block(e, env)
        return self.s(e, env)

    def val_block(self, e, env):
        env = dict(env)
        stmts = e["stmts"]
        if not stmts or stmts[-1].get("k") != "expr_stmt" or stmts[-1].get("semi"):
            raise Unknown("block without a tail value")
        self.run(stmts[:-1], env)
        return self.val(stmts[-1]["e"], env)

    def bind(self, pat, v, env):
        k = pat.get("k")
        if k == "p_ident" and not pat.get("sub"):
            env[pat["name"]] = v
        elif k == "p_tuple" and isinstance(v, tuple) and len(v) == len(pat["elems"]) and v[:1] != ("variant",):
            for pe, ve in zip(pat["elems"], v):
                self.bind(pe, ve, env)

    def crate_fns(self, name):
        """functions / methods called `name` defined anywhere in the crate of the function under analysis"""
        if self._crate_fns is None:
            root = os.path.dirname(self.fn.file) + "/"
            self._crate_fns = {}
            for rel in synq.files():
                if rel.startswith(root):
                    for f in synq.all_fns(rel):
                        if f.body is not None:
                            self._crate_fns.setdefault(f.name, []).append(f)
        return self._crate_fns.get(name, [])

    def inline(self, name, args, env, what):
        """`helper(lit, operand, ..)` / `self.helper(..)`: a function of the same crate whose body is `let`s followed
        by one string-building expression over its parameters is evaluated with the arguments substituted
        (behaviour-preserving helper extraction must not change the verdict)."""
        cands = self.crate_fns(name)
        if len(cands) != 1:
            raise Unknown(f"{what}: {len(cands)} definitions of `{name}` in the crate")
        if self.depth >= 3:
            raise Unknown(f"{what}: helper nesting too deep")
        f = cands[0]
        params = [p for p in f.node["sig"]["params"] if not p.get("self")]
        if len(params) != len(args) or any(p["pat"].get("k") != "p_ident" for p in params):
            raise Unknown(f"{what}: arity / parameter patterns of `{name}`")
        env2 = {}
        for p, a in zip(params, args):
            try:
                env2[p["pat"]["name"]] = self.val(a, env)
            except Unknown:
                env2[p["pat"]["name"]] = None  # not a template / literal: poison (an error only if the body uses it)
        # the helper must end in one string expression; statements before it may only be `let`s (partially evaluated
        # on the literal arguments) and generator bookkeeping that does not touch the parameters; no early exit
        stmts = f.body.get("stmts", [])
        if not stmts or stmts[-1].get("k") != "expr_stmt" or stmts[-1].get("semi"):
            raise Unknown(f"{what}: body of `{name}` does not end in one string expression")
        if any(n.get("k") in ("return", "try", "while", "loop", "for") for n in synq.walk(f.body)):
            raise Unknown(f"{what}: body of `{name}` has an early exit or a loop")
        saved = (self.operands, self.results, self.operand_str, self.closures, self.extra_io)
        self.operands = self.results = self.operand_str = None  # the helper sees only its parameters
        self.closures = {}
        self.extra_io = {p["pat"]["name"] for p in params}
        self.depth += 1
        try:
            out = self.run(stmts, env2, want_tail=True)
        finally:
            self.depth -= 1
            self.operands, self.results, self.operand_str, self.closures, self.extra_io = saved
        if out is None:
            raise Unknown(f"{what}: `{name}` has no string value")
        return out

    # -- symbolic strings are python strings in which the operand is the marker __OP__
    def s(self, e, env):
        k = e.get("k")
        if k == "str":
            return e["v"]
        if k == "path":
            p = e["path"]
            if p in env:
                if not isinstance(env[p], str):
                    raise Unknown(f"`{p}` is bound to something that is not a string template")
                return env[p]
            if p == self.operand_str:
                return OPERAND
            raise Unknown(f"value of `{p}` not known")
        if k == "ref" or (k == "unary" and e["op"] == "*"):
            return self.s(e["e"], env)
        if k == "index" and synq.render(e["base"]) == self.operands and synq.render(e["index"]) == "0":
            return OPERAND
        if k == "mcall":
            m = e["method"]
            if m == "unwrap" and e["recv"].get("k") == "mcall" and e["recv"]["method"] == "pop" and \
                    synq.render(e["recv"]["recv"]) == self.operands:
                return OPERAND
            if m in _STR_PASS and not e["args"]:
                return self.s(e["recv"], env)
            if m.startswith("path_to_") and not e["args"]:
                return m[len("path_to_"):]  # path of a runtime helper: its semantics come from the helper's own text
            if m == "tmp" and len(e["args"]) == 1 and e["args"][0].get("k") == "str":
                return "tmp_" + re.sub(r"\W", "_", e["args"][0]["v"])  # a fresh local of the generated function
        if k == "macro" and synq.short(e["name"]) == "format":
            return self.fmt(synq.Fmt(e), env)
        if k == "block":
            env = dict(env)
            tail = self.run(e["stmts"], env, want_tail=True)
            if tail is None:
                raise Unknown("block without a string tail")
            return tail
        if k == "match":
            v = self.val(e, env)
            if not isinstance(v, str):
                raise Unknown("match does not evaluate to a string template")
            return v
        if k == "call" and e["func"].get("k") == "path" and e["func"]["path"] not in self.closures:
            return self.inline(synq.short(e["func"]["path"]), e["args"], env, f"`{synq.render(e)[:50]}`")
        if k == "mcall" and synq.render(e["recv"]).split(".")[0] == "self":
            return self.inline(e["method"], e["args"], env, f"`{synq.render(e)[:50]}`")
        raise Unknown(f"string expression `{synq.render(e)[:70]}` not understood")

    def fmt(self, f, env):
        if f.template is None:
            raise Unknown("format-like macro without a literal template")
        out, pos, last = [], 0, 0
        for m in re.finditer(r"\{\{|\}\}|\{([^{}]*)\}", f.template):
            out.append(f.template[last:m.start()])
            last = m.end()
            g = m.group(0)
            if g in ("{{", "}}"):
                out.append(g[0])
                continue
            inner = m.group(1)
            if ":" in inner:
                raise Unknown(f"format spec `{{{inner}}}` in a conversion template")
            name = inner.strip()
            if name == "" or name.isdigit():
                idx = pos if name == "" else int(name)
                pos += 1 if name == "" else 0
                if idx >= len(f.positional):
                    raise Unknown("format hole without an argument")
                out.append(self.s(f.positional[idx], env))
            elif name in f.named:
                out.append(self.s(f.named[name], env))
            else:
                out.append(self.s({"k": "path", "path": name}, env))
        out.append(f.template[last:])
        return "".join(out)

    def mentions_io(self, node):
        names = ({self.operands, self.results, self.operand_str} | self.extra_io) - {None}
        return any(n.get("k") == "path" and n["path"] in names for n in synq.walk(node))

    def stmt_expr(self, e, env):
        k = e.get("k")
        if k == "mcall":
            recv = synq.render(e["recv"])
            if e["method"] == "push" and recv == self.results and len(e["args"]) == 1:
                self.pushed.append(self.s(e["args"][0], env))
                return
            if e["method"] == "push_str" and e["recv"].get("k") == "path" and e["recv"]["path"] in env and len(e["args"]) == 1:
                env[e["recv"]["path"]] = self.s(e["recv"], env) + self.s(e["args"][0], env)
                return
            if e["method"] == "push_str" and recv.startswith("self") and len(e["args"]) == 1 and self.mentions_io(e):
                self.prelude += self.s(e["args"][0], env)
                return
        if k == "macro" and synq.short(e["name"]) in ("uwriteln", "uwrite", "writeln", "write"):
            f = synq.Fmt(e)
            if self.mentions_io(e) or any(h[1] in env for h in f.holes() if h[0] == "name"):
                self.prelude += self.fmt(f, env) + "\n"
            return
        if k == "call" and e["func"].get("k") == "path" and e["func"]["path"] in self.closures:
            c = self.closures[e["func"]["path"]]
            if len(c["params"]) != len(e["args"]):
                raise Unknown("closure arity")
            env2 = {p["name"]: self.s(a, env) for p, a in zip(c["params"], e["args"])}
            body = c["body"]
            self.run(body["stmts"] if body.get("k") == "block" else [{"k": "expr_stmt", "e": body, "semi": True}], env2)
            return
        if k == "block":
            self.run(e["stmts"], dict(env))
            return
        if not self.mentions_io(e):
            return  # generator bookkeeping (`self.use_ffi(..)`, `self.needs_x = true`, `*need_math = true`)
        raise Unknown(f"statement `{synq.render(e)[:70]}` touches the operands/results in a way not understood")

    def run(self, stmts, env, want_tail=False):
        tail = None
        for i, st in enumerate(stmts):
            k = st.get("k")
            if k == "let":
                init = st.get("init")
                for b in synq.walk(st["pat"]):
                    if b.get("k") == "p_ident":
                        env[b["name"]] = None
                if init is not None:
                    try:
                        self.bind(st["pat"], self.val(init, env), env)
                    except Unknown:
                        if self.mentions_io(init):
                            raise
            elif k == "expr_stmt":
                if want_tail and i == len(stmts) - 1 and not st.get("semi"):
                    tail = self.s(st["e"], env)
                else:
                    self.stmt_expr(st["e"], env)
            elif k == "item_stmt":
                continue
            else:
                raise Unknown(f"statement kind {k}")
        return tail


def emit_template(fn, arm, ins=None):
    """template pushed by an arm of a backend's `Bindgen::emit` for a one-operand, one-result instruction; `ins` = the
    alternative of an or-pattern arm being evaluated (an inner `match inst {..}` is resolved for it)"""
    ps = [p for p in fn.params if p != "self"]
    if len(ps) < 4:
        raise Unknown("emit: unexpected signature")
    x = Extract(fn, operands=ps[2], results=ps[3])
    body = arm.body
    env = {ps[1]: ("variant", ins)} if ins is not None and ps[1] is not None else {}
    x.run(body["stmts"] if body.get("k") == "block" else [{"k": "expr_stmt", "e": body, "semi": True}], env)
    if len(x.pushed) != 1:
        raise Unknown(f"arm pushes {len(x.pushed)} results (expected exactly one)")
    return Tmpl(x.pushed[0], x.prelude)


def cast_template(fn, arm):
    """string returned by an arm of a backend's cast function"""
    ps = [p for p, d in zip(fn.params, fn.node["sig"]["params"]) if p != "self" and "str" in d.get("ty", "").lower()]
    if not ps:
        raise Unknown("cast function: no string parameter")
    x = Extract(fn, operand_str=ps[0])
    body = arm.body
    if body.get("k") == "block":
        t = x.run(body["stmts"], {}, want_tail=True)
    else:
        t = x.s(body, {})
    if t is None:
        raise Unknown("arm has no string value")
    return Tmpl(t, x.prelude)


def instruction_match(fn):
    """the `match inst { Instruction::.. }` of emit: the match with the most `Instruction::` arms"""
    best = None
    for m in synq.matches_in(fn.body):
        n = sum(1 for a in synq.arms(m) for h in a.heads if "Instruction::" in h)
        if n >= 20 and (best is None or n > best[0]):
            best = (n, m)
    if best is None:
        raise AnchorMissing(f"{fn.file}: no match over Instruction in emit")
    return best[1]


# =============================================================================================== backend tables
BACKENDS = {
    "rust": dict(lang="rust", emit="crates/rust/src/bindgen.rs", cast=("crates/rust/src/lib.rs", "perform_cast"),
                 types=("crates/rust/src/interface.rs", "print_ty"), wasm=("crates/rust/src/lib.rs", "wasm_type")),
    "c": dict(lang="c", emit="crates/c/src/lib.rs", cast=("crates/c/src/lib.rs", "perform_cast"),
              types=("crates/c/src/lib.rs", "push_type_name"), wasm=("crates/c/src/lib.rs", "wasm_type")),
    "cpp": dict(lang="cpp", emit="crates/cpp/src/lib.rs", cast=("crates/cpp/src/lib.rs", "perform_cast"),
                types=("crates/cpp/src/lib.rs", "type_name"), wasm=("crates/c/src/lib.rs", "wasm_type"),
                wasm_via="wit_bindgen_c::wasm_type"),
    "csharp": dict(lang="csharp", emit="crates/csharp/src/function.rs", cast=("crates/csharp/src/function.rs", "perform_cast"),
                   types=("crates/csharp/src/interface.rs", "name_with_qualifier"),
                   wasm=("crates/csharp/src/world_generator.rs", "wasm_type")),
    "go": dict(lang="go", emit="crates/go/src/lib.rs", cast=("crates/go/src/lib.rs", "cast"),
               types=("crates/go/src/lib.rs", "type_name"), wasm=("crates/go/src/lib.rs", "wasm_type")),
    "moonbit": dict(lang="moonbit", emit="crates/moonbit/src/lib.rs", cast=("crates/moonbit/src/lib.rs", "perform_cast"),
                    types=("crates/moonbit/src/pkg.rs", "type_name"), wasm=("crates/moonbit/src/lib.rs", "wasm_type")),
    "d": dict(lang="d", emit="crates/d/src/lib.rs", cast=("crates/d/src/lib.rs", "perform_cast"),
              types=("crates/d/src/lib.rs", "type_name"), wasm=("crates/d/src/lib.rs", "wasm_type")),
}
WIT_SCALARS = ["Bool", "U8", "S8", "U16", "S16", "U32", "S32", "U64", "S64", "Char", "F32", "F64"]
WASM_TYPES = ["I32", "I64", "F32", "F64", "Pointer", "PointerOrI64", "Length"]


def _string_table(rel, fname, prefix, keys):
    """`match x { <prefix>K => "<name>".. }` inside fn `fname` of file rel -> {K: name}; every K needs an explicit
    arm whose body holds exactly one string literal"""
    found = []
    for f in synq.find_fns(rel, fname):
        for m in synq.matches_in(f.body):
            heads = {synq.short(h) for a in synq.arms(m) for h in a.heads if h.startswith(prefix) or ("::" + prefix) in h}
            if not set(keys) <= heads:
                continue
            tbl = {}
            for kk in keys:
                arms_ = [a for a in synq.arms(m) if any(synq.short(h) == kk and prefix in h for h in a.heads)]
                strs = synq.strings(arms_[0].body)
                if len(arms_) != 1 or len(strs) != 1:
                    tbl = None
                    break
                tbl[kk] = strs[0]["v"]
            if tbl:
                found.append(tbl)
    if len(found) != 1:
        raise AnchorMissing(f"{rel}: fn {fname}: {len(found)} string tables over {prefix}{{{','.join(keys[:3])},..}}")
    return found[0]


_TABLE_CACHE = {}


def backend_tables(be):
    """(WIT scalar -> language type name, WasmType -> language type name), read from the backend's own source"""
    if be not in _TABLE_CACHE:
        d = BACKENDS[be]
        types = _string_table(d["types"][0], d["types"][1], "Type::", WIT_SCALARS)
        wasm = _string_table(d["wasm"][0], d["wasm"][1], "WasmType::", WASM_TYPES)
        if d.get("wasm_via"):
            src = open(os.path.join(facts.REPO, d["emit"])).read()
            if d["wasm_via"] not in src:
                raise AnchorMissing(f"{d['emit']} no longer uses {d['wasm_via']} for core types")
        _TABLE_CACHE[be] = (types, wasm)
    return _TABLE_CACHE[be]


# =============================================================================================== helper definitions
def _all_strings(rel):
    return [n["v"] for n in synq.strings(synq.load(rel))]


def rust_runtime_helpers():
    """Helper functions the Rust templates call, parsed from the text the generator itself emits
    (crates/rust/src/lib.rs: emit_runtime_item / emit_runtime_as_trait).  -> (fns, facts_for_R14_3)"""
    rel = "crates/rust/src/lib.rs"
    fns, info = {}, {"as_lists": {}, "as_templates": []}
    eri = synq.find_fn(rel, "emit_runtime_item")
    m = synq.find_match(eri.body, "RuntimeItem::", min_arms=5)
    # bool_lift / char_lift: literal Rust text
    for item, name in (("BoolLift", "bool_lift"), ("CharLift", "char_lift")):
        arm = synq.arm_for(m, "RuntimeItem::" + item)
        if arm is None or "_" in arm.heads:
            raise AnchorMissing(f"RuntimeItem::{item} arm")
        txt = [s["v"] for s in synq.strings(arm.body) if f"fn {name}" in s["v"]]
        if len(txt) != 1:
            raise AnchorMissing(f"text of {name}")
        ast = facts.parse_snippet(txt[0])
        fs = [it for it in ast.get("items", []) if it.get("k") == "fn" and it["sig"]["name"] == name]
        if len(fs) != 1:
            raise AnchorMissing(f"{name} does not parse")
        sig = fs[0]["sig"]
        fns[name] = dict(params=[(p["pat"]["name"], p["ty"]) for p in sig["params"]], ret=sig["ret"],
                         body=rust_ast(fs[0]["body"]), impls=None, text=txt[0])
    # as_<ty> traits
    g = synq.find_fn(rel, "emit_runtime_as_trait")
    gp = [p for p in g.params if p != "self"]
    fmts = [f for f in synq.fmts(g.body) if f.template and "as_{" in f.template]
    info["as_templates"] = [f.template for f in fmts]
    for item, ty in (("AsI32", "i32"), ("AsI64", "i64"), ("AsF32", "f32"), ("AsF64", "f64")):
        arm = synq.arm_for(m, "RuntimeItem::" + item)
        calls = synq.method_calls(arm.body, "emit_runtime_as_trait") if arm is not None and "_" not in arm.heads else []
        if len(calls) != 1 or len(calls[0]["args"]) != 2 or calls[0]["args"][0].get("k") != "str":
            raise AnchorMissing(f"RuntimeItem::{item}: call of emit_runtime_as_trait")
        tyarg = calls[0]["args"][0]["v"]
        lst = [s["v"] for s in synq.strings(calls[0]["args"][1])]
        info["as_lists"][item] = (tyarg, lst)
        # instantiate the generator's own templates and parse the result as Rust
        sub = {gp[0]: tyarg, "upcase": tyarg.upper()}
        items = []
        for f in fmts:
            per_type = any(h[1] == gp[1] or h[1] == "to_convert" for h in f.holes())
            for conv in (lst if per_type else [None]):
                text = f.template.replace("{{", "\x01").replace("}}", "\x02")
                for kk, vv in dict(sub, **({"to_convert": conv} if conv else {})).items():
                    text = text.replace("{" + kk + "}", vv)
                text = text.replace("\x01", "{").replace("\x02", "}")
                if re.search(r"\{\w+\}", text):
                    raise AnchorMissing(f"as-trait template has an unbound hole: {text[:60]}")
                ast = facts.parse_snippet(text)
                if "items" not in ast:
                    raise AnchorMissing(f"instantiated as-trait template does not parse: {ast.get('error')}")
                items += [(conv, it) for it in ast["items"]]
        info.setdefault("as_items", {})[item] = items
        # the per-type impl bodies must all be the same expression; that expression is the helper's body
        bodies = {}
        for conv, it in items:
            if it.get("k") == "impl" and conv is not None and _norm(it["self_ty"]) == _norm(conv):
                for mfn in it["items"]:
                    if mfn.get("k") == "fn" and mfn["sig"]["name"] == "as_" + tyarg:
                        bodies[conv] = mfn["body"]
        if set(bodies) != set(lst):
            raise AnchorMissing(f"{item}: impl blocks do not cover the listed types")
        rendered = {synq.render(b) for b in bodies.values()}
        if len(rendered) != 1:
            raise AnchorMissing(f"{item}: impl bodies differ")
        fns["as_" + tyarg] = dict(params=[("self", None)], ret=tyarg, body=rust_ast(next(iter(bodies.values()))),
                                  impls=lst, text=next(iter(rendered)))
    return fns, info


def helpers_for(be):
    """facts about helper definitions, read from the generator source on every run (fail closed when they move)"""
    h = {}
    if be == "rust":
        h["fns"], h["rust_info"] = rust_runtime_helpers()
        src = open(os.path.join(facts.REPO, "crates/rust/src/lib.rs")).read()
        h["uninit_u64"] = "MaybeUninit::<u64>::uninit()" in src
    elif be == "c":
        h["unions"] = {}
        for s in _all_strings("crates/c/src/lib.rs"):
            for m in re.finditer(r"union (\w+) \{+ (\w+) (\w+); (\w+) (\w+); \}+;", s):
                h["unions"][m.group(1)] = {m.group(3): m.group(2), m.group(5): m.group(4)}
    elif be == "d":
        p = os.path.join(facts.REPO, "crates/d/src/wit_common.d")
        txt = " ".join(open(p).read().split()) if os.path.exists(p) else ""
        h["d_reinterpret"] = bool(re.search(
            r"auto ref T reinterpretCast\(T, U\)\(auto ref U from\) @trusted if \(T\.sizeof == U\.sizeof\) \{ "
            r"union tmp \{ U from; T to; \} return tmp\(from\)\.to; \}", txt))
    elif be == "moonbit":
        h["ffi"] = {}
        for s in _all_strings("crates/moonbit/src/ffi.rs"):
            for m in re.finditer(r'extern "wasm" fn (\w+)\((\w+) : (\w+)\) -> (\w+) =\s*#\|\(func \(param i32\) \(result i32\) '
                                 r'local\.get 0 i32\.extend(8|16)_s\)', s):
                h["ffi"][m.group(1)] = dict(param=m.group(3), ret=m.group(4), extend=int(m.group(5)))
    return h


# =============================================================================================== canonical mapping
# WIT scalar -> (kind, significant bits n, signed)
WIT = {"Bool": ("bool", 1, False), "U8": ("int", 8, False), "S8": ("int", 8, True), "U16": ("int", 16, False),
       "S16": ("int", 16, True), "U32": ("int", 32, False), "S32": ("int", 32, True), "U64": ("int", 64, False),
       "S64": ("int", 64, True), "Char": ("char", 32, False), "F32": ("float", 32, False), "F64": ("float", 64, False)}
# instruction -> (direction, WIT scalar, core type)
SCALAR_INSTRUCTIONS = {}
for _t in ("Bool", "Char", "U8", "S8", "U16", "S16", "U32", "S32"):
    SCALAR_INSTRUCTIONS[f"I32From{_t}"] = ("lower", _t, "I32")
    SCALAR_INSTRUCTIONS[f"{_t}FromI32"] = ("lift", _t, "I32")
for _t in ("U64", "S64"):
    SCALAR_INSTRUCTIONS[f"I64From{_t}"] = ("lower", _t, "I64")
    SCALAR_INSTRUCTIONS[f"{_t}FromI64"] = ("lift", _t, "I64")
for _t, _c in (("F32", "F32"), ("F64", "F64")):
    SCALAR_INSTRUCTIONS[f"Core{_c}From{_t}"] = ("lower", _t, _c)
    SCALAR_INSTRUCTIONS[f"{_t}FromCore{_c}"] = ("lift", _t, _c)
assert len(SCALAR_INSTRUCTIONS) == 24  # 12 lowerings + 12 liftings


def symbolic(ty):
    return V(ty, [IN(i) for i in range(ty.width)])


def _normalise(bits, n, signed):
    """rewrite provenance under the precondition that the operand holds a valid value of an n-bit WIT type stored
    in a wider language type: bits >= n equal bit n-1 (signed) or are 0 (unsigned)"""
    out = []
    for b in bits:
        if b in (0, 1, T):
            out.append(b)
            continue
        s2 = set()
        for i in b[1]:
            if i < n:
                s2.add(i)
            elif signed:
                s2.add(n - 1)
        if b[0] == "or":
            out.append(("or", frozenset(s2)) if s2 else 0)
        else:
            out.append(("nor", frozenset(s2)) if s2 else 1)
    return out


def _ext_bits(n, signed, w):
    return [IN(k) if k < n else (IN(n - 1) if signed else 0) for k in range(w)]


def _first_diff(got, want):
    for i, (g, w_) in enumerate(zip(got, want)):
        if g != w_:
            return f"bit {i} is {show_bit(g)}, canonical {show_bit(w_)}"
    return ""


class Verdict:
    def __init__(self, ok, detail, result=None):
        self.ok, self.detail, self.result = ok, detail, result


def _lower_samples(kind, n, signed):
    if kind == "bool":
        return [0, 1]
    if kind == "float":
        return [0, 0x3F800000 if n == 32 else 0x3FF0000000000000, (1 << n) - 1, 1 << (n - 1)]
    if kind == "char":
        return [0, 0x41, 0xD7FF, 0xE000, 0x10FFFF]
    if signed:
        return [0, 1, 5, (1 << (n - 1)) - 1, -1, -5, -(1 << (n - 1))]
    return [0, 1, 5, (1 << (n - 1)) - 1, 1 << (n - 1), (1 << n) - 1]


_LIFT_SAMPLES32 = [0, 1, 5, 127, 128, 255, 256, 0x7FFF, 0x8000, 0xFFFF, 0x10000, 0x7FFFFFFF, 0x80000000, 0xFFFFFF80, 0xFFFFFFFF]


def _wrap(v, n, signed):
    v &= (1 << n) - 1
    return v - (1 << n) if signed and v >> (n - 1) else v


def check_scalar(be, ins, tmpl, helpers=None):
    """Is `tmpl` (what backend `be` pushes for scalar instruction `ins`) the canonical-ABI mapping?"""
    lang = BACKENDS[be]["lang"]
    direction, wit, core = SCALAR_INSTRUCTIONS[ins]
    kind, n, signed = WIT[wit]
    try:
        types, wasm = backend_tables(be)
        lty, cty = ltype(lang, types[wit]), ltype(lang, wasm[core])
        src, dst = (lty, cty) if direction == "lower" else (cty, lty)
        if lty.width < n and kind != "bool":
            return Verdict(False, f"the backend's type for {wit} ({lty.name}) is narrower than {n} bits")

        def run(operand):
            r = evaluate(lang, tmpl.text, operand, helpers, tmpl.prelude)
            return convert(lang, r, dst, explicit=False)
        r = run(symbolic(src))
        w = dst.width
        if direction == "lower":
            got = _normalise(r.bits, n, signed) if kind in ("int", "bool") and src.width > n else r.bits
            if kind == "bool":
                want = [IN(0)] + [0] * (w - 1)
            elif kind in ("float", "char"):
                want = [IN(k) for k in range(w)]
            else:
                want = _ext_bits(n, signed, w)
            typeok = dst.kind == ("float" if kind == "float" else "int") and w == (64 if core in ("I64", "F64") else 32)
        else:
            got = r.bits
            if kind == "bool":
                want = [("or", frozenset(range(src.width)))]
                typeok = dst.kind == "bool"
            elif kind == "float":
                want = [IN(k) for k in range(w)]
                typeok = dst.kind == "float" and w == n
            elif kind == "char":
                want = [IN(k) for k in range(w)]
                typeok = dst.kind in ("char", "int") and w == 32
            else:
                want = _ext_bits(n, signed, w)
                # the denoted VALUE must be the low n bits read with the WIT type's signedness
                typeok = dst.kind == "int" and (dst.signed if signed else (not dst.signed or w > n))
        if not typeok:
            return Verdict(False, f"result type {dst.name} cannot denote a {wit} ({'lowered' if direction == 'lower' else 'lifted'})", r)
        if got == want:
            return Verdict(True, f"{src.name} -> {dst.name}: {show_bits(got)}", r)
        # diagnostics only: constant-fold the template on a few concrete inputs
        cex = ""
        samples = _lower_samples(kind, n, signed) if direction == "lower" else \
            [0, 0x41, 0xD7FF, 0xFFFF, 0x1F600, 0x10FFFF] if kind == "char" else \
            (_LIFT_SAMPLES32 if src.width == 32 else _LIFT_SAMPLES32 + [1 << 32, (1 << 63), (1 << 64) - 1])
        for x in samples:
            try:
                rc = run(const(src, x & ((1 << src.width) - 1)))
            except Unknown as e:
                cex = f"; {ins}({x}) cannot be folded: {e}"
                break
            if not rc.is_const:
                continue
            if direction == "lower":
                exp = x & ((1 << w) - 1)
                bad = rc.uval() != exp
                shown, expshown = _wrap(rc.uval(), w, True), _wrap(exp, w, True)
            elif kind == "bool":
                exp = 1 if x else 0
                bad = rc.uval() != exp
                shown, expshown = rc.show(), "true" if exp else "false"
            elif kind in ("float", "char"):
                bad = rc.uval() != x
                shown, expshown = rc.show(), x
            else:
                exp = _wrap(x, n, signed)
                bad = rc.sval() != exp
                shown, expshown = rc.sval(), exp
            if bad:
                xs = _wrap(x, src.width, src.signed) if src.kind == "int" else x
                cex = f"; counter-example: {ins}({xs}) = {shown}, canonical {expshown}"
                break
        return Verdict(False, f"`{tmpl.show()}` is not the canonical mapping {src.name} -> {dst.name}: {_first_diff(got, want)}; "
                              f"abstract result {show_bits(got)}{cex}", r)
    except Unknown as e:
        return Verdict(False, f"`{tmpl.show()}`: not discharged: {e}")


# =============================================================================================== Bitcasts (C04 R4.4)
_ABBR = {"I32": "I32", "I64": "I64", "F32": "F32", "F64": "F64", "P": "Pointer", "P64": "PointerOrI64", "L": "Length"}
# mode: id = every bit kept; wrap = low bits of the (narrower) target; ext = source bits kept, upper half all-sign or
# all-zero (the spec's lift wraps, so either extension is accepted); low32 = low 32 bits kept, upper half unconstrained
BITCAST_MODE = {"F32ToI32": "id", "I32ToF32": "id", "F64ToI64": "id", "I64ToF64": "id", "I64ToI32": "wrap", "I64ToL": "wrap",
                "I32ToI64": "ext", "LToI64": "ext", "F32ToI64": "ext", "I64ToF32": "wrap", "I64ToP64": "id", "P64ToI64": "id",
                "PToP64": "low32", "P64ToP": "wrap", "I32ToP": "id", "PToI32": "id", "I32ToL": "id", "LToI32": "id",
                "LToP": "id", "PToL": "id"}


def check_bitcast(be, name, tmpl, helpers=None):
    lang = BACKENDS[be]["lang"]
    if name == "None":
        return Verdict(tmpl.text == OPERAND and not tmpl.prelude.strip(), f"`{tmpl.show()}` must be the operand itself")
    a, b = name.split("To", 1)
    mode = BITCAST_MODE[name]
    try:
        _, wasm = backend_tables(be)
        src, dst = ltype(lang, wasm[_ABBR[a]]), ltype(lang, wasm[_ABBR[b]])
        r0 = evaluate(lang, tmpl.text, symbolic(src), helpers, tmpl.prelude)
        note = ""
        pointerish = bool({a, b} & {"P", "P64", "L"})
        try:
            r = convert(lang, r0, dst, explicit=False)
        except Unknown as e:
            if not pointerish or r0.ty.kind not in ("int", "ptr"):
                raise
            # pointer/length forms: identity-or-representation-change; only the bits are decided
            r = convert(lang, r0, dst, explicit=True) if lang in ("c", "cpp", "d", "rust") or dst.kind == "int" else r0
            note = f" (note: the template's type is {r0.ty.name}, the slot is declared {dst.name}: {e})"
        got, ws, wd = r.bits, src.width, dst.width
        lo = min(ws, wd, 32 if mode == "low32" else 64)
        ok = got[:lo] == [IN(k) for k in range(lo)]
        if mode == "id":
            ok = ok and ws == wd and lo == wd
        elif mode == "wrap":
            ok = ok and lo == wd
        elif mode == "ext":
            up = got[ws:]
            ok = ok and lo == ws and wd > ws and (all(x == 0 for x in up) or all(x == IN(ws - 1) for x in up))
        want = {"id": "every bit kept", "wrap": f"low {wd} bits kept", "ext": f"the {ws} source bits kept, upper bits a sign or zero extension",
                "low32": "low 32 bits kept"}[mode]
        if ok:
            return Verdict(True, f"{src.name} -> {dst.name}: {show_bits(got)}{note}", r)
        return Verdict(False, f"`{tmpl.show()}` is not {want} ({src.name} -> {dst.name}): abstract result {show_bits(got)}{note}", r)
    except Unknown as e:
        return Verdict(False, f"`{tmpl.show()}`: not discharged: {e}")


_HELPERS = {}


def cached_helpers(be):
    if be not in _HELPERS:
        _HELPERS[be] = helpers_for(be)
    return _HELPERS[be]


def check_bitcasts(rep, rule_id, backend_name, fninfo, match_node):
    """C04 R4.4: discharge every `Bitcast::X` arm of a backend's cast function (called from rules/C04.py)."""
    helpers = cached_helpers(backend_name)
    n = 0
    for arm in synq.arms(match_node):
        for h in arm.heads:
            if not h.startswith("Bitcast::"):
                continue
            name = synq.short(h)
            if name == "Sequence":
                continue  # composition is checked structurally by the caller
            if name != "None" and name not in BITCAST_MODE:
                rep.ob(rule_id, f"{backend_name}: Bitcast::{name} conversion template is canonical", False,
                       "variant not in convsem's Bitcast table", fninfo.loc(arm.node))
                continue
            try:
                tmpl = cast_template(fninfo, arm)
                v = check_bitcast(backend_name, name, tmpl, helpers)
            except Unknown as e:
                v = Verdict(False, f"template could not be extracted: {e}")
            n += 1
            rep.ob(rule_id, f"{backend_name}: Bitcast::{name} conversion template is canonical", v.ok, v.detail, fninfo.loc(arm.node))
    rep.floor(rule_id, f"{backend_name}: Bitcast arms evaluated by convsem", n, 21)


def primitive_table():
    rows = [f"{k[0]}: {k[2] if k[1] in ('call', 'mcall') else k[1] + '::' + k[2]} — {v[3]}" for k, v in sorted(PRIMS.items())]
    rows += [f"{lang}: casts / implicit conversions — {txt}" for lang, txt in sorted(CAST_RULE.items())]
    rows += [f"{k} — {v}" for k, v in OTHER_RULES.items()]
    return rows


if __name__ == "__main__":
    import sys
    only = sys.argv[1:] or list(BACKENDS)
    for be in only:
        d = BACKENDS[be]
        f = synq.find_fn(d["emit"], "emit")
        m = instruction_match(f)
        hp = cached_helpers(be)
        print(f"== {be}")
        for ins in SCALAR_INSTRUCTIONS:
            a = synq.arm_for(m, "Instruction::" + ins)
            try:
                v = check_scalar(be, ins, emit_template(f, a, ins), hp)
            except Unknown as e:
                v = Verdict(False, f"extract: {e}")
            print(f"  {'ok  ' if v.ok else 'FAIL'} {ins:16} {v.detail}")
        cf = [x for x in synq.all_fns(d["cast"][0]) if x.name == d["cast"][1] and x.body is not None][0]
        cm = synq.find_match(cf.body, "Bitcast::", min_arms=5)
        for arm in synq.arms(cm):
            for h in arm.heads:
                nm = synq.short(h)
                if nm == "Sequence" or not h.startswith("Bitcast::"):
                    continue
                try:
                    v = check_bitcast(be, nm, cast_template(cf, arm), hp)
                except Unknown as e:
                    v = Verdict(False, f"extract: {e}")
                print(f"  {'ok  ' if v.ok else 'FAIL'} Bitcast::{nm:10} {v.detail}")
