#!/usr/bin/env python3
"""Run the registered checks against behaviour-preserving refactorings written by independent sub-agents.

usage: benign_check.py <src_dir> <tag> [--checks C01,C13]
  <src_dir> holds benign-N.diff files and meta.json as delivered by an agent working from seeded/BENIGN_BRIEF.md
  (it never saw /verif).  Each patch is applied alone to a scratch worktree of /repo HEAD (under /tmp, removed
  afterwards), the touched crates' tests are run (`cargo test -p <crate> --offline`), and then every accepted check
  (thorough tier) is run with VERIF_REPO set to that tree.  A check that reports a VIOLATION on such a tree is a
  FALSE ALARM of that check (unless the refactoring turns out not to be neutral, which is then noted by hand).
Results: /verif/seeded/benign/<tag>/ (the patches, the agent's meta.json and results.json: per patch which checks fired
and with which obligations).  Nothing is added to rules/ or selftest/ by this tool.
"""
import json
import os
import re
import shutil
import subprocess
import sys

VERIF = os.path.dirname(os.path.dirname(os.path.abspath(__file__)))


def sh(cmd, **kw):
    return subprocess.run(cmd, shell=isinstance(cmd, str), capture_output=True, text=True, **kw)


def main():
    args = sys.argv[1:]
    src, tag = args[0], args[1]
    only = args[args.index("--checks") + 1].split(",") if "--checks" in args else None
    skip_tests = "--skip-tests" in args   # re-run after rule changes: the crates' tests were run in the first pass
    slot = os.environ.get("VSEED_SLOT", "")
    tmp = "/tmp/vbenign" + slot
    wt = os.path.join(tmp, "wt")
    if os.path.exists(tmp):
        sh(["git", "-C", "/repo", "worktree", "remove", "--force", wt])
        sh(["git", "-C", "/repo", "worktree", "prune"])
        shutil.rmtree(tmp, ignore_errors=True)
    os.makedirs(tmp)
    accepted = open(os.path.join(VERIF, "rules", "ACCEPTED")).read().split()
    todo = only or accepted
    dst = os.path.join(VERIF, "seeded", "benign", tag)
    os.makedirs(dst, exist_ok=True)
    results = {}
    rp = os.path.join(dst, "results.json")
    if os.path.exists(rp):
        results = json.load(open(rp))
    try:
        r = sh(["git", "-C", "/repo", "worktree", "add", "-q", "--detach", wt])
        assert r.returncode == 0, r.stderr
        for fn in sorted(os.listdir(src)):
            if not re.match(r"benign-\d+\.diff$", fn):
                continue
            sh(["git", "-C", wt, "checkout", "-q", "--", "."])
            sh(["git", "-C", wt, "clean", "-fdq"])
            shutil.copy2(os.path.join(src, fn), os.path.join(dst, fn))
            a = sh(["git", "-C", wt, "apply", "--whitespace=nowarn", os.path.join(os.path.abspath(src), fn)])
            if a.returncode != 0:
                results[fn] = {"status": "does not apply", "detail": a.stderr[-300:]}
                print(fn, "DOES NOT APPLY")
                continue
            touched = sorted({m.group(1) for m in re.finditer(r"^\+\+\+ b/crates/([^/]+)/", open(os.path.join(src, fn)).read(), re.M)})
            pk = []
            for c in touched:
                t = open(os.path.join(wt, "crates", c, "Cargo.toml")).read()
                m = re.search(r'^name\s*=\s*"([^"]+)"', t, re.M)
                if m:
                    pk.append(m.group(1))
            env = dict(os.environ, CARGO_NET_OFFLINE="true", CARGO_TARGET_DIR=os.path.join(VERIF, ".cache", "benign-target" + slot))
            cmd = ["cargo", "test", "--offline", "--no-fail-fast"] + [x for p in pk for x in ("-p", p)]
            if skip_tests:
                class _T:
                    returncode = (results.get(fn) or {}).get("tests_exit", 0)
                    stdout = stderr = ""
                t = _T()
            else:
                t = sh(cmd, cwd=wt, env=env)
            sh(["git", "-C", wt, "checkout", "Cargo.lock"])
            res = {"status": "ran", "crates": pk, "tests_exit": t.returncode, "fired": {}, "checks_run": todo}
            if t.returncode != 0:
                res["status"] = "tests of the touched crates fail: not a neutral refactoring"
                res["tests_tail"] = (t.stdout + t.stderr)[-600:]
                results[fn] = res
                print(fn, "TESTS FAIL")
                continue
            for c in todo:
                r = sh([sys.executable, os.path.join(VERIF, "check.py"), c, "--tier", "thorough"],
                       env=dict(os.environ, VERIF_REPO=wt, VERIF_EVIDENCE_DIR=os.path.join(tmp, "ev")))
                if r.returncode != 0:
                    fails = [l for l in r.stdout.splitlines() if l.startswith("[FAIL]")]
                    res["fired"][c] = {"exit": r.returncode, "fails": fails[:8], "tail": "" if fails else (r.stdout + r.stderr)[-400:]}
            results[fn] = res
            print(fn, "FALSE ALARMS:" if res["fired"] else "silent", ", ".join(res["fired"]))
            for c, v in res["fired"].items():
                for l in v["fails"][:4]:
                    print("    ", c, l[:240])
            json.dump(results, open(rp, "w"), indent=1, sort_keys=True)
        mp = os.path.join(src, "meta.json")
        if os.path.exists(mp):
            shutil.copy2(mp, os.path.join(dst, "meta.json"))
        json.dump(results, open(rp, "w"), indent=1, sort_keys=True)
    finally:
        sh(["git", "-C", "/repo", "worktree", "remove", "--force", wt])
        sh(["git", "-C", "/repo", "worktree", "prune"])
        shutil.rmtree(tmp, ignore_errors=True)
    return 0


if __name__ == "__main__":
    sys.exit(main())
