"""C27 — distinct packages get distinct generated module names (version mangling in name_package_module)."""
import string

from lib import synq
from lib.synq import render

PATH = "crates/core/src/path.rs"
SEMVER_ALPHABET = string.digits + string.ascii_letters + ".+-"

CLAIM = dict(
    level="other", engine="synfacts", design="DESIGN.md §5 C27",
    technique="extraction of the character-substitution chain from the syntax tree and an injectivity decision over "
              "the semver alphabet (collision groups of the per-character code + case folding of the trailing conversion)",
    text="Decides whether the version part of a generated module name is an injective function of the semver string "
         "(per-character substitution code over [0-9A-Za-z.+-] followed by the trailing case conversion) and that the "
         "suffix is appended exactly when several packages share namespace and name. Not decided: collisions of the "
         "base name itself after snake-casing (WIT package names are kebab-case and unique case-insensitively).",
    note="syn")

CASE_FOLDING = {"to_snake_case", "to_lowercase", "to_ascii_lowercase", "to_kebab_case", "to_lower_camel_case",
                "to_upper_camel_case", "to_shouty_snake_case", "to_uppercase", "to_ascii_uppercase"}
# heck's case conversions additionally treat every non-alphanumeric as a word boundary and collapse runs of them
SEPARATOR_COLLAPSING = {"to_snake_case", "to_kebab_case", "to_lower_camel_case", "to_upper_camel_case", "to_shouty_snake_case"}


def chain(e):
    """method chain of an expression, innermost first: [(method, args), ...] and the root expression"""
    out = []
    while e.get("k") == "mcall":
        out.append((e["method"], e["args"]))
        e = e["recv"]
    out.reverse()
    return e, out


def lit_str(e):
    if e.get("k") in ("str", "char"):
        return e["v"]
    return None


def run(rep, tier):
    rep.describe(
        "other",
        "R27.1: the `.replace(c, s)` chain applied to the version string is extracted from name_package_module and the "
        "image of every character of the semver alphabet is computed; two characters with the same image make two "
        "different versions collide. R27.2: a case-folding / separator-collapsing conversion applied after the "
        "substitution makes versions differing only in letter case (or in which separator is used) collide. R27.3: "
        "the version suffix is used exactly when more than one package has the same namespace AND name, and the "
        "unversioned member keeps the bare name. Only the mangling function is decided, not a concrete world.",
        trusted_base=["syn parse of crates/core/src/path.rs", "semver grammar: identifiers over [0-9A-Za-z-], separators . and +",
                      "heck case conversions fold case and treat non-alphanumerics as word boundaries"],
    )
    f = synq.find_fn(PATH, "name_package_module")
    rep.saw(f"{PATH}::name_package_module")
    rep.saw(file=PATH)

    def r1():
        # the `let version = <chain>` whose chain contains replace(...) calls
        cands = []
        for nm, init, st in synq.bindings(f.body):
            if init is None:
                continue
            root, ch = chain(init)
            if any(m == "replace" for m, _ in ch):
                cands.append((nm, root, ch, st))
        rep.floor("R27.1", "version mangling chains", len(cands), 1)
        if len(cands) != 1:
            rep.ob("R27.1", "exactly one version mangling chain", False, f"{len(cands)} found", f.loc())
            return
        nm, root, ch, st = cands[0]
        rep.ob("R27.1", "the chain starts from the version's string form", render(root) in ("version", "version.to_string()") or
               (ch and ch[0][0] == "to_string"), render(root), f.loc(st))
        image = {c: c for c in SEMVER_ALPHABET}
        unknown = []
        for m, args in ch:
            if m == "to_string":
                continue
            if m == "replace":
                a, b = lit_str(args[0]), lit_str(args[1])
                if a is None or b is None:
                    unknown.append(render(args))
                    continue
                image = {c: v.replace(a, b) for c, v in image.items()}
            elif m in CASE_FOLDING:
                continue
            else:
                unknown.append(m)
        rep.ob("R27.1", "every step of the chain is understood", not unknown, f"{unknown}", f.loc(st))
        groups = {}
        for c, v in image.items():
            groups.setdefault(v, []).append(c)
        coll = sorted("".join(sorted(g)) for g in groups.values() if len(g) > 1)
        if not coll:
            rep.ob("R27.1", "version characters keep distinct images", True, "", f.loc(st))
        for g in coll:
            rep.ob("R27.1", f"characters `{g}` of a version keep distinct images", False,
                   f"all of `{g}` are rewritten to `{image[g[0]]}`: e.g. versions 1.0.0-a.b and 1.0.0-a-b get the same module name",
                   f.loc(st))
        # prefix-freeness is trivial here (all images have length 1) unless a replacement is longer
        multi = {c: v for c, v in image.items() if len(v) != 1}
        rep.ob("R27.1", "the per-character code is length-preserving (uniquely decodable)", not multi or
               len(set(multi.values())) == len(multi), f"{multi}", f.loc(st), nontrivial=False)
        folds = [m for m, _ in ch if m in CASE_FOLDING]
        rep.ob("R27.2", "no case-folding conversion is applied to the version after substitution", not folds,
               f"`{folds}` lower-cases letters and collapses separators: versions 1.0.0-RC and 1.0.0-rc get the same module name",
               f.loc(st))
    rep.guard("R27.1", "version mangling", r1)

    def r3():
        # the filter closure compares namespace and name
        cl = [n for n in synq.walk(f.body) if n.get("k") == "closure"]
        cmps = set()
        for n in synq.walk(f.body):
            if n.get("k") == "binary" and n["op"] == "==":
                l, r = render(n["l"]), render(n["r"])
                for fld in ("name.namespace", "name.name"):
                    if l.endswith(fld) and r.endswith(fld):
                        cmps.add(fld)
        rep.ob("R27.3", "same-package test compares namespace and name", cmps == {"name.namespace", "name.name"}, f"{cmps}", f.loc())
        ands = [n for n in synq.walk(f.body) if n.get("k") == "binary" and n["op"] == "&&" and "name.namespace" in render(n)
                and "name.name" in render(n)]
        rep.ob("R27.3", "both comparisons are conjoined", len(ands) == 1, "", f.loc())
        # the counted collection has one element per same-named package, versioned or not: the only selection in the
        # chain `resolve.packages.iter()...collect()` is the namespace-and-name test
        counted = [(nm, init) for nm, init, st in synq.bindings(f.body) if init is not None and
                   init.get("k") == "mcall" and init["method"] == "collect" and "packages" in render(init)]
        rep.ob("R27.3", "one collection of the same-named packages is counted", len(counted) == 1, f"{[n for n, _ in counted]}", f.loc())
        if len(counted) == 1:
            root, ch = chain(counted[0][1])
            bad = []
            for m_, args in ch:
                if m_ in ("iter", "collect", "into_iter", "values"):
                    continue
                body = args[0]["body"] if args and args[0].get("k") == "closure" else None
                txt = render(body) if body is not None else ""
                is_pred = "name.namespace" in txt and "name.name" in txt
                if m_ == "filter" and is_pred and "version" not in txt:
                    continue
                if m_ == "filter_map" and body is not None:
                    b = body
                    while b.get("k") == "block" and len(b["stmts"]) == 1 and b["stmts"][0].get("k") == "expr_stmt":
                        b = b["stmts"][0]["e"]
                    if b.get("k") == "if" and is_pred and b.get("else") is not None:
                        then = render(b["then"])
                        els = render(b["else"])
                        cond = render(b["cond"])
                        if "version" not in cond and then.strip("{ }").startswith("Some(") and els.strip("{ }") == "None":
                            continue
                if m_ == "map" and body is not None:
                    continue
                bad.append(m_)
            rep.ob("R27.3", "every package with the same namespace and name is counted, whatever its version", not bad,
                   f"`{bad}` can drop a same-named package (e.g. the unversioned one) from the count, so a lone versioned "
                   "sibling keeps the bare name and collides with it", f.loc())
        # `if <count>.len() == 1 { return base }`
        early = []
        for n in synq.walk(f.body):
            if n.get("k") == "if" and n["cond"].get("k") == "binary" and n["cond"]["op"] == "==" and \
                    render(n["cond"]["l"]).endswith(".len()") and render(n["cond"]["r"]) == "1":
                rets = [r for r in synq.walk(n["then"]) if r.get("k") == "return"]
                early.append((n, rets))
        rep.ob("R27.3", "a package that is alone with its name keeps the bare name", len(early) == 1 and len(early[0][1]) == 1,
               "", f.loc())
        base_names = [nm for nm, init, st in synq.bindings(f.body) if init is not None and render(init).endswith("name.name.to_snake_case()")]
        rep.ob("R27.3", "the bare name is the snake-cased package name", len(base_names) == 1, f"{base_names}", f.loc())
        if early and base_names:
            rep.ob("R27.3", "the early return yields the bare name", all(render(r["e"]) == base_names[0] for r in early[0][1]), "", f.loc())
        # None version keeps the bare name
        m = synq.find_match(f.body, "Some", min_arms=1)
        none_arm = synq.arm_for(m, "None")
        rets = [r for r in synq.walk(none_arm.body) if r.get("k") == "return"] if none_arm else []
        rep.ob("R27.3", "the unversioned member keeps the bare name", bool(base_names) and len(rets) == 1 and
               render(rets[0]["e"]) == base_names[0], "", f.loc(none_arm.node if none_arm else None))
        # final value concatenates base and the mangled version
        fm = synq.fmts(f.body)
        mangled = [nm for nm, init, st in synq.bindings(f.body) if init is not None and any(m_ == "replace" for m_, _ in chain(init)[1])]
        finals = []
        for x in fm:
            if x.name != "format" or x.template is None:
                continue
            hs = x.hole_exprs()
            names = [key if e is None else render(e) for kind_, key, e, off in hs]
            import re as _re
            literal = _re.sub(r"\{[^{}]*\}", "", x.template)
            if len(names) == 2 and literal == "" and base_names and mangled and names == [base_names[0], mangled[0]]:
                finals.append(x)
        rep.ob("R27.3", "the versioned name is the bare name followed by the mangled version", len(finals) == 1,
               f"{[x.template for x in fm]}", f.loc())
    rep.guard("R27.3", "suffix policy", r3)
