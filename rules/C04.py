"""C04 — variant payload slot joining: `cast` is total on every joinable pair, typed as named, and dual."""
import os

from lib import facts, mir, synq
from lib.synq import render

ABI = "crates/core/src/abi.rs"
WT = ["I32", "I64", "F32", "F64", "Pointer", "PointerOrI64", "Length"]
ABBR = {"I32": "I32", "I64": "I64", "F32": "F32", "F64": "F64", "Pointer": "P", "PointerOrI64": "P64", "Length": "L"}
UNABBR = {v: k for k, v in ABBR.items()}

CLAIM = dict(
    level="proof", engine="synfacts", design="DESIGN.md §5 C04",
    technique="exhaustive evaluation of the `join` and `cast` match tables over the 7x7 WasmType domain "
              "(first-match pattern evaluation on the syntax tree), closure of joinable pairs, per-backend arm "
              "exhaustiveness and conversion-template evaluation",
    text="Finite obligation set discharged completely: for every (payload type, joined type) pair that wit-parser's "
         "`join` can produce from the flat types of any WIT type, `cast` is defined in both directions, yields the "
         "variant its name promises (or a type-chained Sequence), is the identity iff the types are equal, never "
         "narrows and keeps pointer provenance; every backend's cast table has an explicit arm per Bitcast variant. "
         "Trusted: wit-parser `join`/`push_flat`, the per-language conversion tables of lib/convsem.py.",
    note="syn")


def wit_parser_abi():
    d = facts.registry_src("wit-parser")
    if d is None:
        raise mir.AnchorMissing("wit-parser source not found in the cargo registry")
    p = os.path.join(d, "src/abi.rs")
    ast = facts.parse_snippet(open(p).read())
    if "error" in ast:
        raise mir.AnchorMissing("wit-parser abi.rs does not parse: " + ast["error"])
    return ast, p


def pat_matches(p, val):
    """Does pattern p match WasmType name `val` (a string) or a tuple of them?"""
    k = p.get("k")
    if k == "p_wild":
        return True
    if k == "p_ident":
        if p["name"] in WT:
            return p["name"] == val
        return True  # binding
    if k == "p_path":
        return synq.short(p["path"]) == val
    if k == "p_or":
        return any(pat_matches(c, val) for c in p["cases"])
    if k == "p_tuple":
        return isinstance(val, tuple) and len(val) == len(p["elems"]) and all(pat_matches(e, v) for e, v in zip(p["elems"], val))
    raise mir.AnchorMissing(f"pattern kind {k} not understood in a WasmType table")


def eval_table(fnnode, a, b, names, depth=0):
    """Evaluate a `match (x, y) { .. }` table function on (a, b). names = (param0, param1).
    Returns: a WasmType name, ('cast', name), ('seq', r1, r2), 'UNREACHABLE'."""
    m = synq.find_match(fnnode["body"], "(", min_arms=2)
    for arm in m["arms"]:
        if pat_matches(arm["pat"], (a, b)):
            return eval_body(arm["body"], a, b, names, fnnode, depth)
    return "NOARM"


def eval_body(e, a, b, names, fnnode, depth):
    k = e.get("k")
    if k == "block" and len(e["stmts"]) == 1 and e["stmts"][0]["k"] == "expr_stmt":
        return eval_body(e["stmts"][0]["e"], a, b, names, fnnode, depth)
    if k == "path":
        p = synq.short(e["path"])
        if p == names[0]:
            return a
        if p == names[1]:
            return b
        if e["path"].startswith("Bitcast::"):
            return ("cast", p)
        if p in WT:
            return p
    if k == "macro" and synq.short(e["name"]) in ("unreachable", "panic", "todo", "unimplemented"):
        return "UNREACHABLE"
    if k == "call" and render(e["func"]) == "Bitcast::Sequence":
        arr = [n for n in synq.walk(e) if n.get("k") == "array"]
        if arr and len(arr[0]["elems"]) == 2 and depth < 4:
            rs = []
            for c in arr[0]["elems"]:
                if c.get("k") == "call" and render(c["func"]) == "cast":
                    x = eval_arg(c["args"][0], a, b, names)
                    y = eval_arg(c["args"][1], a, b, names)
                    rs.append((x, y, eval_table(fnnode, x, y, names, depth + 1)))
            if len(rs) == 2:
                return ("seq", rs[0], rs[1])
    raise mir.AnchorMissing(f"table arm body not understood: {render(e)[:80]}")


def eval_arg(e, a, b, names):
    p = synq.short(render(e))
    if p == names[0]:
        return a
    if p == names[1]:
        return b
    if p in WT:
        return p
    raise mir.AnchorMissing(f"argument not understood: {render(e)}")


def fn_named(ast_items, name):
    for it in ast_items:
        if it.get("k") == "fn" and it["sig"]["name"] == name:
            return it
    raise mir.AnchorMissing(f"fn {name}")


def pnames(fnnode):
    return tuple(p["pat"]["name"] for p in fnnode["sig"]["params"] if not p.get("self"))


def width(t, pw):
    return {"I32": 4, "F32": 4, "I64": 8, "F64": 8, "PointerOrI64": 8, "Pointer": pw, "Length": pw}[t]


def cast_type(name):
    """'I32ToI64' -> ('I32','I64')"""
    if "To" not in name:
        return None
    x, y = name.split("To", 1)
    if x in UNABBR and y in UNABBR:
        return UNABBR[x], UNABBR[y]
    return None


BACKENDS_QUICK = {"rust": ("crates/rust/src/lib.rs", "perform_cast"), "c": ("crates/c/src/lib.rs", "perform_cast"),
                  "moonbit": ("crates/moonbit/src/lib.rs", "perform_cast")}
BACKENDS_MORE = {"csharp": ("crates/csharp/src/function.rs", "perform_cast"), "cpp": ("crates/cpp/src/lib.rs", "perform_cast"),
                 "d": ("crates/d/src/lib.rs", "perform_cast"), "go": ("crates/go/src/lib.rs", "cast")}


def run(rep, tier):
    rep.describe(
        "proof",
        "Exhaustive over the finite WasmType domain: (R4.1) for every pair (payload slot type t, joined slot type j) "
        "reachable through wit-parser's join from the flat types push_flat produces, cast(t,j) and cast(j,t) do not "
        "hit the unreachable arm; (R4.2) cast(a,b) is the Bitcast variant named AToB, None iff a=b, or a Sequence whose "
        "halves type-chain a->m->b, and cast(b,a) is its dual; (R4.3) j is at least as wide as t for 4- and 8-byte "
        "pointers and keeps provenance; (R4.4) every backend's cast function has an explicit arm for every Bitcast "
        "variant and composes Sequence in order, and each arm's template is discharged by the conversion evaluator "
        "(lib/convsem.py) where available. Not decided: run-time round trips of concrete values.",
        trusted_base=["wit-parser abi.rs `join` and `push_flat` (read from the cargo registry on every run)",
                      "syn parse of both files", "lib/convsem.py language tables"],
    )
    core = synq.load(ABI)
    cast_fn = fn_named(core["items"], "cast")
    wp, wp_path = wit_parser_abi()
    join_fn = fn_named(wp["items"], "join")
    rep.saw(f"{ABI}::cast")
    rep.saw("wit-parser/src/abi.rs::join")
    rep.saw(file=ABI)
    cn, jn = pnames(cast_fn), pnames(join_fn)

    # the enum the tables range over is the one we enumerate
    wt_enum = None
    for it in wp["items"]:
        if it.get("k") == "enum_def" and it["name"] == "WasmType":
            wt_enum = [v["name"] for v in it["variants"]]
    rep.ob("R4.1", "WasmType has exactly the 7 variants enumerated", wt_enum is not None and sorted(wt_enum) == sorted(WT),
           f"{wt_enum}", wp_path)

    join = {}
    for a in WT:
        for b in WT:
            join[(a, b)] = eval_table(join_fn, a, b, jn)
    rep.ob("R4.1", "join is total on 7x7", all(v in WT for v in join.values()), f"{[k for k, v in join.items() if v not in WT]}", wp_path)
    # base flat types (push_flat never produces PointerOrI64 by itself)
    base = ["I32", "I64", "F32", "F64", "Pointer", "Length"]
    S = set(base)
    changed = True
    while changed:
        changed = False
        for a in list(S):
            for b in list(S):
                j = join[(a, b)]
                if j in WT and j not in S:
                    S.add(j)
                    changed = True
    J = set()
    for t in S:
        reach = {t}
        ch = True
        while ch:
            ch = False
            for x in list(reach):
                for u in S:
                    for j in (join[(x, u)], join[(u, x)]):
                        if j in WT and j not in reach:
                            reach.add(j)
                            ch = True
        for j in reach:
            J.add((t, j))
    rep.floor("R4.1", "joinable (payload, joined) pairs", len(J), 20)
    cast = {}
    for a in WT:
        for b in WT:
            cast[(a, b)] = eval_table(cast_fn, a, b, cn)
    # R4.1 totality on J, both directions
    for (t, j) in sorted(J):
        for x, y, what in ((t, j, "lower"), (j, t, "lift")):
            r = cast[(x, y)]
            bad = r in ("UNREACHABLE", "NOARM") or (isinstance(r, tuple) and r[0] == "seq" and
                                                    any(h[2] in ("UNREACHABLE", "NOARM") for h in r[1:]))
            rep.ob("R4.1", f"cast({x},{y}) defined ({what} of payload {t} in slot {j})", not bad, f"cast yields {r}",
                   f"{ABI}:{synq.line(cast_fn)}")
    # R4.2 naming / identity / sequences / duality
    for (a, b), r in sorted(cast.items()):
        if r in ("UNREACHABLE", "NOARM"):
            rep.ob("R4.2", f"cast({a},{b}) outside the joinable set may be unreachable", (a, b) not in J and (b, a) not in J,
                   "a joinable pair has no conversion", f"{ABI}:{synq.line(cast_fn)}", nontrivial=False)
            continue
        if isinstance(r, tuple) and r[0] == "cast":
            if r[1] == "None":
                ok = a == b
            else:
                ok = cast_type(r[1]) == (a, b)
            rep.ob("R4.2", f"cast({a},{b}) = Bitcast::{r[1]} is the variant its name promises", ok,
                   f"Bitcast::{r[1]} converts {cast_type(r[1])}", f"{ABI}:{synq.line(cast_fn)}")
            if a == b:
                rep.ob("R4.2", f"cast({a},{a}) is the identity", r[1] == "None", f"{r}", f"{ABI}:{synq.line(cast_fn)}")
        elif isinstance(r, tuple) and r[0] == "seq":
            (x1, y1, r1), (x2, y2, r2) = r[1], r[2]
            ok = x1 == a and y2 == b and y1 == x2 and all(isinstance(h, tuple) and h[0] == "cast" and
                                                          cast_type(h[1]) == (hx, hy)
                                                          for h, hx, hy in ((r1, x1, y1), (r2, x2, y2)))
            rep.ob("R4.2", f"cast({a},{b}) = Sequence type-chains {a}->{y1}->{b}", ok, f"{r}", f"{ABI}:{synq.line(cast_fn)}")
        # duality
        back = cast[(b, a)]
        rep.ob("R4.2", f"cast({b},{a}) is defined whenever cast({a},{b}) is (dual)", back not in ("UNREACHABLE", "NOARM"),
               f"{back}", f"{ABI}:{synq.line(cast_fn)}")
    # R4.3 widths / provenance
    for (t, j) in sorted(J):
        for pw in (4, 8):
            rep.ob("R4.3", f"joined {j} at least as wide as payload {t} (pointer width {pw})", width(j, pw) >= width(t, pw),
                   "", wp_path, nontrivial=False)
        if t in ("Pointer", "PointerOrI64"):
            rep.ob("R4.3", f"joined {j} keeps the provenance of {t}", j in ("Pointer", "PointerOrI64"), "", wp_path)

    # R4.4 per-backend arm exhaustiveness + sequence composition
    bvars = [v["name"] for v in mir.load("ws", "wit_bindgen_core", "rlib").adt("abi::Bitcast")["variants"]]
    rep.ob("R4.4", "Bitcast variants = the 7x7 table's range", set(bvars) >= {r[1] for r in cast.values() if isinstance(r, tuple) and r[0] == "cast"},
           "", ABI)
    backends = dict(BACKENDS_QUICK)
    if tier == "thorough":
        backends.update(BACKENDS_MORE)
    for be, (rel, fname) in sorted(backends.items()):
        def chk(be=be, rel=rel, fname=fname):
            cands = [f for f in synq.all_fns(rel) if f.name == fname and f.body is not None]
            if len(cands) != 1:
                raise mir.AnchorMissing(f"{rel}: fn {fname}: {len(cands)} candidates")
            f = cands[0]
            rep.saw(f"{rel}::{fname}")
            rep.saw(file=rel)
            m = synq.find_match(f.body, "Bitcast::", min_arms=5)
            heads = [h for a in synq.arms(m) for h in a.heads]
            wild = "_" in heads
            for v in bvars:
                rep.ob("R4.4", f"{be}: explicit arm for Bitcast::{v}", ("Bitcast::" + v) in heads,
                       "swallowed by a wildcard arm" if wild else "no arm", f.loc(m))
            sa = synq.arm_for(m, "Bitcast::Sequence")
            rec = [c for c in synq.walk(sa.body) if (c.get("k") == "call" and synq.short(render(c["func"])) == fname)
                   or (c.get("k") == "mcall" and c["method"] == fname)]
            ok = False
            if len(rec) == 2:
                # which application feeds the other: nested in its arguments, or bound by `let` and used there
                def feeds(a_, b_):
                    if any(x is a_ for arg in b_["args"] for x in synq.walk(arg)):
                        return True
                    for nm, init, st in synq.bindings(sa.body):
                        if init is not None and any(x is a_ for x in synq.walk(init)):
                            return any(n_.get("k") == "path" and n_["path"] == nm for arg in b_["args"] for n_ in synq.walk(arg))
                    return False
                inner, outer = (rec[0], rec[1]) if feeds(rec[0], rec[1]) else (rec[1], rec[0]) if feeds(rec[1], rec[0]) else (None, None)
                # destructuring order of the two halves: `let [first, second] = ..`
                order = [b_["name"] for nm, init, st in synq.bindings(sa.body) for b_ in synq.walk(st["pat"])
                         if b_.get("k") == "p_ident" and st["pat"].get("k") in ("p_slice", "p_tuple")]
                order = list(dict.fromkeys(order))

                def half(call, exclude=None):
                    for arg in call["args"]:
                        if exclude is not None and any(x is exclude for x in synq.walk(arg)):
                            continue
                        for n_ in synq.walk(arg):
                            if n_.get("k") == "path" and n_["path"] in order:
                                return order.index(n_["path"])
                    return None
                if inner is not None and len(order) == 2:
                    ok = half(inner) == 0 and half(outer, exclude=inner) == 1
            rep.ob("R4.4", f"{be}: Sequence applies the first half, then the second to its result", ok,
                   f"{[render(x)[:60] for x in rec]}", f.loc(sa.node))
            try:
                from lib import convsem
            except ImportError:
                convsem = None
            if convsem is not None and hasattr(convsem, "check_bitcasts"):
                convsem.check_bitcasts(rep, "R4.4", be, f, m)
        rep.guard("R4.4", f"backend {be}", chk)
