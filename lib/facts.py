"""Build and cache the fact files (E1 mirfacts, E2 synfacts) from /repo's working tree.

The cache key is the sha256 of every input file of the current working tree
plus the configuration, so a changed tree can never be answered from stale
facts.  Cargo runs against /repo itself with an external target dir; the two
lines of Cargo.lock that offline resolution rewrites are restored afterwards.
"""
import fcntl
import hashlib
import json
import os
import shutil
import subprocess
import sys
import time
import uuid

VERIF = os.path.dirname(os.path.dirname(os.path.abspath(__file__)))
REPO = os.environ.get("VERIF_REPO", "/repo")
CACHE = os.environ.get("VERIF_CACHE") or os.path.join(VERIF, ".cache")
TARGET = os.path.join(CACHE, "target")
MIRFACTS = os.path.join(VERIF, "tools/mirfacts/target/debug/mirfacts")
SYNFACTS = os.path.join(VERIF, "tools/synfacts/target/debug/synfacts")

# feature sets of the runtime crate `wit-bindgen`
RT_CONFIGS = {
    "full": "async,std,inter-task-wakeup,async-spawn,futures-stream,realloc",
    "async_std": "async,std",
    "async_nostd": "async",
    "default": None,  # default features
}


def _env():
    e = dict(os.environ)
    e["CARGO_NET_OFFLINE"] = "true"
    e.setdefault("CARGO_TERM_COLOR", "never")
    return e


def nightly_sysroot():
    return subprocess.check_output(["rustc", "+nightly", "--print", "sysroot"], text=True, env=_env()).strip()


def repo_files():
    """All files of the working tree that can influence the build, sorted."""
    out = []
    skip_dirs = {".git", "target", "node_modules"}
    for root, dirs, files in os.walk(REPO):
        rel = os.path.relpath(root, REPO)
        dirs[:] = sorted(d for d in dirs if d not in skip_dirs and not (rel == "." and d == "tests"))
        for f in sorted(files):
            if f.endswith((".rs", ".toml", ".lock", ".wit", ".md", ".h", ".mbt", ".json", ".go", ".cs", ".c", ".d")):
                p = os.path.join(root, f)
                if os.path.relpath(p, REPO) == "Cargo.lock":
                    continue
                out.append(p)
    return out


_TREE_KEY = None


def tree_key():
    global _TREE_KEY
    if _TREE_KEY is None:
        h = hashlib.sha256()
        for p in repo_files():
            h.update(os.path.relpath(p, REPO).encode())
            h.update(b"\0")
            with open(p, "rb") as fh:
                h.update(hashlib.sha256(fh.read()).digest())
        for tool in ("tools/mirfacts/src/main.rs", "tools/synfacts/src/main.rs"):
            with open(os.path.join(VERIF, tool), "rb") as fh:
                h.update(hashlib.sha256(fh.read()).digest())
        _TREE_KEY = h.hexdigest()[:24]
    return _TREE_KEY


class Lock:
    def __init__(self, name="build"):
        os.makedirs(CACHE, exist_ok=True)
        self.path = os.path.join(CACHE, name + ".lock")

    def __enter__(self):
        self.fh = open(self.path, "w")
        fcntl.flock(self.fh, fcntl.LOCK_EX)
        return self

    def __exit__(self, *a):
        fcntl.flock(self.fh, fcntl.LOCK_UN)
        self.fh.close()


def ensure_tools():
    with Lock("tools"):
        for name, binp in (("mirfacts", MIRFACTS), ("synfacts", SYNFACTS)):
            src = os.path.join(VERIF, "tools", name, "src/main.rs")
            if os.path.exists(binp) and os.path.getmtime(binp) >= os.path.getmtime(src):
                continue
            r = subprocess.run(["cargo", "build", "--offline"], cwd=os.path.join(VERIF, "tools", name),
                               env=_env(), capture_output=True, text=True)
            if r.returncode != 0:
                sys.stderr.write(r.stdout + r.stderr)
                raise SystemExit(f"cannot build tool {name}")


def _restore_lock(snapshot):
    p = os.path.join(REPO, "Cargo.lock")
    try:
        with open(p, "rb") as fh:
            cur = fh.read()
    except FileNotFoundError:
        cur = None
    if snapshot is not None and cur != snapshot:
        with open(p, "wb") as fh:
            fh.write(snapshot)


def _member_names():
    names = set()
    for p in repo_files():
        if os.path.basename(p) == "Cargo.toml":
            in_pkg = False
            for line in open(p):
                s = line.strip()
                if s.startswith("["):
                    in_pkg = s == "[package]"
                elif in_pkg and s.startswith("name"):
                    names.add(s.split("=", 1)[1].strip().strip('"').strip("'"))
    return names


def _clear_member_fingerprints():
    fp = os.path.join(TARGET, "debug", ".fingerprint")
    if not os.path.isdir(fp):
        return
    names = _member_names()
    for d in os.listdir(fp):
        base = d.rsplit("-", 1)[0]
        if base in names:
            shutil.rmtree(os.path.join(fp, d), ignore_errors=True)


def _run_mir(outdir, tag, cargo_args, crates=None):
    nonce = uuid.uuid4().hex
    env = _env()
    env["LD_LIBRARY_PATH"] = nightly_sysroot() + "/lib:" + env.get("LD_LIBRARY_PATH", "")
    env["RUSTFLAGS"] = "-Zmir-opt-level=0 -Awarnings"
    env["RUSTC_WORKSPACE_WRAPPER"] = MIRFACTS
    env["CARGO_TARGET_DIR"] = TARGET
    env["MIRFACTS_OUT"] = outdir
    env["MIRFACTS_NONCE"] = nonce
    env["MIRFACTS_TAG"] = tag
    if crates:
        env["MIRFACTS_CRATES"] = crates
    lockp = os.path.join(REPO, "Cargo.lock")
    snap = open(lockp, "rb").read() if os.path.exists(lockp) else None
    try:
        _clear_member_fingerprints()
        r = subprocess.run(["cargo", "+nightly", "check", "--offline"] + cargo_args, cwd=REPO, env=env,
                           capture_output=True, text=True)
    finally:
        _restore_lock(snap)
    if r.returncode != 0:
        sys.stderr.write(r.stdout[-4000:] + r.stderr[-8000:])
        raise SystemExit(f"mirfacts: cargo check failed for config {tag} (the working tree does not compile?)")
    # every fact file of this run must carry the nonce
    n = 0
    for f in os.listdir(outdir):
        if f.endswith(".jsonl"):
            with open(os.path.join(outdir, f)) as fh:
                head = json.loads(fh.readline())
            if head.get("nonce") == nonce:
                n += 1
    if n == 0:
        raise SystemExit(f"mirfacts: no fact file written for config {tag} (wrapper skipped?)")
    return n


def mir_dir(config):
    """Return the directory with MIR fact files for `config` ('ws' or an RT_CONFIGS key)."""
    ensure_tools()
    d = os.path.join(CACHE, "facts", tree_key(), "mir-" + config)
    done = os.path.join(d, ".done")
    if os.path.exists(done):
        return d
    with Lock("build"):
        if os.path.exists(done):
            return d
        shutil.rmtree(d, ignore_errors=True)
        os.makedirs(d, exist_ok=True)
        t0 = time.time()
        if config == "ws":
            n = _run_mir(d, "ws", ["--workspace"])
        else:
            feats = RT_CONFIGS[config]
            args = ["-p", "wit-bindgen"]
            if feats is not None:
                args += ["--no-default-features", "--features", feats]
            n = _run_mir(d, "rt-" + config, args, crates="wit_bindgen")
        with open(done, "w") as fh:
            json.dump({"files": n, "wall_s": round(time.time() - t0, 2)}, fh)
        _gc()
    return d


def syn_sources():
    out = []
    for p in repo_files():
        rel = os.path.relpath(p, REPO)
        if not rel.endswith(".rs"):
            continue
        if rel.startswith("crates/") or rel.startswith("src/"):
            parts = rel.split("/")
            if "tests" in parts and not rel.startswith("crates/test/"):
                continue
            out.append(rel)
    return out


def syn_dir():
    ensure_tools()
    d = os.path.join(CACHE, "facts", tree_key(), "syn")
    done = os.path.join(d, ".done")
    if os.path.exists(done):
        return d
    with Lock("build"):
        if os.path.exists(done):
            return d
        shutil.rmtree(d, ignore_errors=True)
        os.makedirs(d, exist_ok=True)
        srcs = syn_sources()
        r = subprocess.run([SYNFACTS, d, REPO] + srcs, capture_output=True, text=True)
        if r.returncode != 0:
            sys.stderr.write(r.stderr)
            raise SystemExit("synfacts failed (a source file does not parse)")
        with open(done, "w") as fh:
            json.dump({"files": len(srcs)}, fh)
    return d


def parse_snippet(text):
    """Parse a Rust snippet (file, block contents or expression) with synfacts."""
    ensure_tools()
    os.makedirs(os.path.join(CACHE, "snip"), exist_ok=True)
    h = hashlib.sha256(text.encode()).hexdigest()[:20]
    outp = os.path.join(CACHE, "snip", h + ".json")
    if os.path.exists(outp):
        try:
            return json.load(open(outp))
        except Exception:
            pass
    inp = os.path.join(CACHE, "snip", h + ".rs")
    with open(inp, "w") as fh:
        fh.write(text)
    r = subprocess.run([SYNFACTS, "--snippet-file", inp], capture_output=True, text=True)
    v = json.loads(r.stdout)
    tmp = outp + ".%d" % os.getpid()
    with open(tmp, "w") as fh:
        json.dump(v, fh)
    os.replace(tmp, outp)
    return v


def _gc(keep=40):
    """Keep only the most recent fact directories."""
    base = os.path.join(CACHE, "facts")
    try:
        ds = sorted((os.path.getmtime(os.path.join(base, d)), d) for d in os.listdir(base))
    except FileNotFoundError:
        return
    for _, d in ds[:-keep]:
        if d != tree_key():
            shutil.rmtree(os.path.join(base, d), ignore_errors=True)


def registry_src(crate_prefix):
    """Locate a dependency's source directory in the cargo registry (version from Cargo.lock)."""
    import glob
    import re
    lock = open(os.path.join(REPO, "Cargo.lock")).read()
    vers = re.findall(r'name = "%s"\nversion = "([^"]+)"' % re.escape(crate_prefix), lock)
    home = os.environ.get("CARGO_HOME", os.path.expanduser("~/.cargo"))
    cands = []
    for v in vers:
        cands += glob.glob(os.path.join(home, "registry/src/*/%s-%s" % (crate_prefix, v)))
    if not cands:
        cands = sorted(glob.glob(os.path.join(home, "registry/src/*/%s-[0-9]*" % crate_prefix)))
    # the build offline actually uses the newest cached version satisfying the requirement
    return sorted(cands)[-1] if cands else None
