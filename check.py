#!/usr/bin/env python3
"""Runner: python3 /verif/check.py <Cxx> [--tier quick|thorough] [--replay <file>]

Builds (or reuses, keyed by the working tree's content hash) the fact files the
property's rule module needs, evaluates the rules on /repo's current working
tree, writes /verif/evidence/<Cxx>.json and follows the exit protocol.
"""
import importlib
import os
import sys

sys.path.insert(0, os.path.dirname(os.path.abspath(__file__)))
sys.dont_write_bytecode = True

from lib.report import Report  # noqa: E402


def main():
    args = sys.argv[1:]
    if not args:
        print(__doc__)
        return 2
    pid = args[0]
    tier = os.environ.get("VERIF_TIER", "quick")
    if "--tier" in args:
        tier = args[args.index("--tier") + 1]
    if tier not in ("quick", "thorough"):
        tier = "quick"
    if "--replay" in args:
        # a replay re-evaluates the whole rule set of the property on the current tree
        print(f"replaying {args[args.index('--replay') + 1]}: re-evaluating {pid} on the current tree")
    rep = Report(pid, tier)
    try:
        mod = importlib.import_module(f"rules.{pid}")
    except ModuleNotFoundError:
        print(f"no rule module for {pid}")
        return 2
    rep.guard("R0", "module", lambda: mod.run(rep, tier))
    return rep.finish()


if __name__ == "__main__":
    sys.exit(main())
