"""C13 — every backend's core import/export names are the names the component model assigns (structural clauses)."""
import os
import re

from lib import facts, mir, synq
from lib.synq import render

AnchorMissing = mir.AnchorMissing

CLAIM = dict(
    level="other", engine="synfacts", design="DESIGN.md §5 C13",
    technique="taint rule over format templates (holes in canonical-name positions must not derive from a case "
              "conversion), marker vocabulary read from the component encoder's source, def-use flow of export names "
              "from legacy_core_export_name / wasm_export_name",
    text="Decides on the syntax trees of the seven generators that wherever a canonical core name is written "
         "(import module / import name / export name attributes, templates with a canonical marker), no hole of the "
         "name derives from an identifier-mangling function, every bracket marker is one the pinned component encoder "
         "recognises, export-only intrinsics are imported from an `[export]` module, function export names flow from "
         "wit-parser's own name functions, and every backend has a destructor export. Partial: core signatures, the "
         "presence of every required export and values of unknown origin are not decided.",
    note="syn")

BACKENDS = {
    "c": ["crates/c/src/lib.rs"],
    "rust": ["crates/rust/src/interface.rs", "crates/rust/src/lib.rs", "crates/rust/src/bindgen.rs"],
    "moonbit": ["crates/moonbit/src/lib.rs", "crates/moonbit/src/async_support.rs", "crates/moonbit/src/ffi.rs"],
    "go": ["crates/go/src/lib.rs"],
    "cpp": ["crates/cpp/src/lib.rs"],
    "csharp": ["crates/csharp/src/interface.rs", "crates/csharp/src/function.rs", "crates/csharp/src/world_generator.rs"],
    "d": ["crates/d/src/lib.rs"],
}
QUICK = ["c", "rust", "moonbit", "go"]
ALL = ["c", "rust", "moonbit", "go", "cpp", "csharp", "d"]
RUNTIME_DIR = "crates/guest-rust/src/rt"

# functions of wit-parser whose result *is* the canonical name (clean sources)
SOURCES = {"legacy_core_export_name", "wasm_export_name", "wasm_import_name", "name_world_key", "core_export_name"}
EXPORT_SOURCES = {"legacy_core_export_name", "wasm_export_name", "core_export_name"}
# value-preserving wrappers
PASS = {"clone", "to_string", "to_owned", "as_str", "as_ref", "as_deref", "as_mut", "into", "unwrap", "expect", "borrow",
        "deref", "unwrap_or_default", "as_mut_string", "into_owned", "cloned", "copied", "iter", "to_str", "as_deref_mut",
        "into_string", "as_string", "unwrap_unchecked", "into_boxed_str"}
PASS_CALLS = {"String::from", "Some", "Ok", "Cow::Owned", "Cow::Borrowed", "Box::new", "From::from", "Into::into",
              "ToString::to_string", "String::from_str", "Rc::new", "Arc::new"}
CONV_EXPLICIT = {"make_external_component", "make_external_symbol", "escape_go_keyword", "escape_d_identifier",
                 "moonbit_identifier_stem", "mangle_name", "c_func_name", "to_rust_upper_camel_case", "to_lowercase_first",
                 "to_csharp_ident_upper",
                 # semver-canonicalised interface ids (`a:b/i@1` for `a:b/i@1.4.2`) belong to the cm32p2 "standard"
                 # mangling only; every backend here writes legacy names, which carry the full id (name_world_key)
                 "name_canonicalized_world_key", "canonicalized_id_of",
                 # Function::item_name() strips the `[method]r.` / `[static]r.` / `[constructor]` part of a function's
                 # name: it is a display name, never the name the component model uses for the core item
                 "item_name"}
CONV_RE = re.compile(r"^to_[a-z_]*(case|ident)$")
CASEFOLD = {"to_lowercase": str.lower, "to_uppercase": str.upper, "to_ascii_lowercase": str.lower,
            "to_ascii_uppercase": str.upper}


def is_conv(name):
    return name not in CASEFOLD and (name in CONV_EXPLICIT or bool(CONV_RE.match(name)))


# ============================================================================ spans / scopes
def sp(n):
    return n["sp"] if isinstance(n, dict) and "sp" in n else None


def contains(a, b):
    A, B = sp(a), sp(b)
    if not A or not B:
        return False
    return (A[0], A[1]) <= (B[0], B[1]) and (B[2], B[3]) <= (A[2], A[3])


def ends_before(a, b):
    A, B = sp(a), sp(b)
    return bool(A and B) and (A[2], A[3]) <= (B[0], B[1])


def binds(pat, name):
    return any(n.get("k") == "p_ident" and n.get("name") == name for n in synq.walk(pat))


def pat_path(pat, name):
    """position of binding `name` inside a pattern made of tuples only: [] / [i] / [i, j]; None if not projectable."""
    k = pat.get("k")
    if k == "p_ident":
        return [] if pat["name"] == name and not pat.get("sub") else None
    if k == "p_ref":
        return pat_path(pat["pat"], name)
    if k == "p_tuple":
        for i, e in enumerate(pat["elems"]):
            if binds(e, name):
                r = pat_path(e, name)
                return None if r is None else [i] + r
    return None


def lookup(fnnode, name, use):
    """Innermost binding of `name` visible at node `use` inside fnnode:
    ('let', stmt) | ('param', index) | ('closure', node, index) | ('pat', node) | None."""
    found = [None]
    for i, p in enumerate(fnnode["sig"]["params"]):
        if not p.get("self") and binds(p["pat"], name):
            found[0] = ("param", i)

    def desc(n):
        if isinstance(n, list):
            for x in n:
                if isinstance(x, (dict, list)) and (isinstance(x, list) or contains(x, use)):
                    desc(x)
                    if isinstance(x, dict):
                        return
            return
        if not isinstance(n, dict):
            return
        k = n.get("k")
        if k in ("block", "macro") and isinstance(n.get("stmts"), list):
            for s in n["stmts"]:
                if contains(s, use):
                    desc(s)
                    return
                if s.get("k") == "let" and binds(s["pat"], name) and ends_before(s, use):
                    found[0] = ("let", s)
            return
        if k == "let":
            for key in ("init", "else"):
                if n.get(key) is not None and contains(n[key], use):
                    desc(n[key])
            return
        if k == "item_stmt":
            found[0] = None  # nested items do not capture locals
            desc(n["item"])
            return
        if k == "fn":
            found[0] = None
            for i, p in enumerate(n["sig"]["params"]):
                if not p.get("self") and binds(p["pat"], name):
                    found[0] = ("param*", i)  # parameter of a nested fn: no caller analysis
            if n.get("body"):
                desc(n["body"])
            return
        if k == "for":
            if contains(n["body"], use):
                if binds(n["pat"], name):
                    found[0] = ("pat", n)
                desc(n["body"])
            elif contains(n["iter"], use):
                desc(n["iter"])
            return
        if k == "closure":
            if contains(n["body"], use):
                for i, p in enumerate(n["params"]):
                    if binds(p, name):
                        found[0] = ("closure", n, i)
                desc(n["body"])
            return
        if k == "match":
            if contains(n["scrut"], use):
                desc(n["scrut"])
                return
            for a in n["arms"]:
                if contains(a, use) or contains(a["body"], use) or (a.get("guard") and contains(a["guard"], use)):
                    if binds(a["pat"], name):
                        found[0] = ("pat", a)
                    desc(a["body"] if contains(a["body"], use) else a.get("guard"))
                    return
            return
        if k in ("if", "while"):
            cond = n["cond"]
            if contains(cond, use):
                desc(cond)
                return
            body = n.get("then") if k == "if" else n.get("body")
            if body is not None and contains(body, use):
                for c in synq.walk(cond):
                    if c.get("k") == "let_cond" and binds(c["pat"], name):
                        found[0] = ("pat", c)
                desc(body)
                return
            if n.get("else") is not None and contains(n["else"], use):
                desc(n["else"])
            return
        # generic: descend into the child that contains the use site
        for key, v in n.items():
            if key in ("sp", "k"):
                continue
            if isinstance(v, dict) and contains(v, use):
                desc(v)
                return
            if isinstance(v, list):
                for x in v:
                    if isinstance(x, dict) and contains(x, use):
                        desc(x)
                        return

    if fnnode.get("body"):
        desc(fnnode["body"])
    return found[0]


def tail_values(e, path):
    """Candidate value expressions of `e` (through if / match / block tails), projected along a tuple path.
    Unknown shapes yield None entries."""
    if e is None:
        return [None]
    k = e.get("k")
    if k == "block":
        st = e.get("stmts") or []
        if st and st[-1].get("k") == "expr_stmt" and not st[-1].get("semi"):
            return tail_values(st[-1]["e"], path)
        return [None]
    if k == "if":
        out = tail_values(e["then"], path)
        out += tail_values(e["else"], path) if e.get("else") is not None else [None]
        return out
    if k == "match":
        out = []
        for a in e["arms"]:
            b = a["body"]
            if b.get("k") == "macro" and synq.short(b["name"]) in ("unreachable", "panic", "todo", "unimplemented"):
                continue
            out += tail_values(b, path)
        return out or [None]
    if k == "macro" and synq.short(e["name"]) in ("unreachable", "panic", "todo", "unimplemented"):
        return []
    if k == "other" and e.get("src", "").startswith("("):
        return [None]
    if not path:
        return [e]
    if k == "tuple" and path[0] < len(e["elems"]):
        return tail_values(e["elems"][path[0]], path[1:])
    if k in ("call", "mcall"):
        return [{"k": "$component", "e": e, "sp": e.get("sp")}]   # one component of a tuple-valued call
    return [None]


# ============================================================================ origins of a value
class Org:
    """What a string value is made of: conversions applied, clean sources reached, literal alternatives."""
    __slots__ = ("convs", "srcs", "lits", "complete", "fields", "notes", "frags")

    def __init__(self, convs=(), srcs=(), lits=(), complete=False, fields=(), notes=(), frags=()):
        self.convs = list(convs)
        self.srcs = set(srcs)
        self.lits = set(lits)
        self.complete = complete
        self.fields = set(fields)
        self.notes = list(notes)
        self.frags = set(frags) | {x for x in self.lits if x}   # literal pieces seen anywhere in the value

    @staticmethod
    def lit(v):
        return Org(lits=[v], complete=True)

    @staticmethod
    def unknown(why):
        return Org(notes=[why])

    def alt(self, o):
        """either value (branches, call sites)"""
        return Org(self.convs + [c for c in o.convs if c not in self.convs], self.srcs | o.srcs, self.lits | o.lits,
                   self.complete and o.complete, self.fields | o.fields, self.notes + o.notes, self.frags | o.frags)

    def cat(self, o):
        """concatenation"""
        lits, complete = set(), False
        if self.complete and o.complete and len(self.lits) * len(o.lits) <= 256:
            lits = {a + b for a in self.lits for b in o.lits}
            complete = True
        return Org(self.convs + [c for c in o.convs if c not in self.convs], self.srcs | o.srcs, lits, complete,
                   self.fields | o.fields, self.notes + o.notes, self.frags | o.frags)

    def derived(self, why):
        """result of an unknown transformation of this value: taint survives, identity does not"""
        return Org(self.convs, (), (), False, (), self.notes + [why])

    def describe(self):
        bits = []
        if self.convs:
            bits.append("converted by " + ", ".join(self.convs))
        if self.srcs:
            bits.append("from " + "/".join(sorted(self.srcs)))
        if self.lits:
            bits.append("literal " + "|".join(repr(x) for x in sorted(self.lits)[:6]) + ("" if self.complete else "|…"))
        if self.fields:
            bits.append("field " + ", ".join(sorted(self.fields)[:3]))
        if not bits:
            bits.append("unknown origin" + (f" ({self.notes[0]})" if self.notes else ""))
        return "; ".join(bits)


EMPTY = Org(lits=[""], complete=True)


class Backend:
    """All non-test functions of a backend's files + a call index for one-level parameter resolution."""

    def __init__(self, name, rels):
        self.name = name
        self.rels = rels
        self.fns = []
        for rel in rels:
            for f in synq.all_fns(rel):
                if f.body is None or "tests" in f.mod or "test" in f.mod:
                    continue
                if any("test" in a for a in f.node.get("attrs", [])):
                    continue
                self.fns.append(f)
        self._calls = None
        self._consts = None

    def calls(self):
        if self._calls is None:
            idx = {}
            for f in self.fns:
                for n in synq.walk(f.body):
                    k = n.get("k")
                    if k == "mcall":
                        idx.setdefault(n["method"], []).append((n, f, True))
                    elif k == "call" and n["func"].get("k") == "path":
                        idx.setdefault(synq.short(n["func"]["path"]), []).append((n, f, False))
            self._calls = idx
        return self._calls

    def innermost(self, fn_list, node):
        best = None
        for f in fn_list:
            if contains(f.node, node) and (best is None or contains(best.node, f.node)):
                best = f
        return best

    def consts(self):
        if self._consts is None:
            self._consts = {}
            for rel in self.rels:
                for it in synq.items_of(rel, ("const", "static")):
                    self._consts.setdefault(it["name"], it.get("e"))
        return self._consts


class Eval:
    def __init__(self, be):
        self.be = be
        self.busy = set()

    def org(self, f, e, env=None, depth=0):
        """Origin of expression `e` evaluated inside function `f` (FnInfo)."""
        if e is None:
            return Org.unknown("no expression")
        if depth > 24:
            return Org.unknown("depth")
        env = env or {}
        k = e.get("k")
        R = lambda x, env_=env: self.org(f, x, env_, depth + 1)  # noqa: E731
        if k == "str":
            return Org.lit(e["v"])
        if k == "$component":
            o = R(e["e"])
            return Org(o.convs, o.srcs, (), False, (), o.notes + ["component of a tuple result"])
        if k == "char":
            return Org.lit(e["v"])
        if k in ("int", "float"):
            return Org.lit(str(e["v"]))
        if k in ("ref", "try", "await"):
            return R(e["e"])
        if k == "unary":
            return R(e["e"]) if e["op"] in ("*", "&") else Org.unknown("operator")
        if k == "cast":
            return R(e["e"])
        if k in ("if", "match", "block"):
            vals = tail_values(e, [])
            return self.alts(f, vals, env, depth)
        if k == "binary":
            if e["op"] == "+":
                return R(e["l"]).cat(R(e["r"]))
            return Org.unknown("operator " + e["op"])
        if k == "field":
            return Org(fields=[render(e)])
        if k == "index":
            return R(e["base"]).derived("indexed")
        if k == "macro":
            nm = synq.short(e["name"])
            if nm == "format" and e.get("args"):
                return self.fmt_org(f, synq.Fmt(e), env, depth)
            return Org.unknown(f"macro {nm}!")
        if k == "path":
            return self.path_org(f, e, env, depth)
        if k == "mcall":
            return self.mcall_org(f, e, env, depth)
        if k == "call":
            fn = e["func"]
            if fn.get("k") == "path":
                p = fn["path"]
                s = synq.short(p)
                if is_conv(s):
                    return Org(convs=[s])
                if s in SOURCES:
                    return Org(srcs=[s])
                if (p in PASS_CALLS or "::".join(p.split("::")[-2:]) in PASS_CALLS) and len(e["args"]) == 1:
                    return R(e["args"][0])
            return Org.unknown("call " + render(fn)[:40])
        if k == "tuple" and len(e["elems"]) == 1:
            return R(e["elems"][0])
        if k == "other":
            return Org.unknown("expression")
        return Org.unknown(k or "?")

    def alts(self, f, vals, env, depth):
        out = None
        for v in vals:
            o = self.org(f, v, env, depth + 1) if v is not None else Org.unknown("opaque branch")
            out = o if out is None else out.alt(o)
        return out if out is not None else Org.unknown("diverges")

    def fmt_org(self, f, fm, env, depth):
        if fm.template is None:
            return Org.unknown("format! without literal template")
        out = EMPTY
        pos = 0
        t = fm.template
        for kind, key, ex, off in fm.hole_exprs():
            out = out.cat(Org.lit(unbrace(t[pos:off])))
            end = t.index("}", off) + 1
            pos = end
            if ex is None and kind == "name":
                ex = {"k": "path", "path": key, "sp": fm.node["sp"]}
            out = out.cat(self.org(f, ex, env, depth + 1))
        return out.cat(Org.lit(unbrace(t[pos:])))

    def path_org(self, f, e, env, depth):
        name = e["path"]
        if "::" in name or name[:1].isupper():
            c = self.be.consts().get(synq.short(name))
            if c is not None:
                return self.org(f, c, {}, depth + 1)
            return Org.unknown("path " + name)
        b = lookup(f.node, name, e)
        if b is None:
            c = self.be.consts().get(name)
            return self.org(f, c, {}, depth + 1) if c is not None else Org.unknown("free name " + name)
        if b[0] == "let":
            st = b[1]
            key = ("let", id(st), name)
            if key in self.busy:
                return Org()  # the value being defined refers to an earlier value of itself
            self.busy.add(key)
            try:
                pth = pat_path(st["pat"], name)
                if pth is None:
                    out = Org.unknown("destructured binding")
                else:
                    out = self.alts(f, tail_values(st.get("init"), pth), env, depth)
                # later `x.push_str(..)` / `x.push(..)` / `x = ..` that precede the use site
                for n in synq.walk(f.body):
                    kk = n.get("k")
                    if kk == "mcall" and n["method"] in ("push_str", "push", "insert_str") and \
                            n["recv"].get("k") == "path" and n["recv"]["path"] == name and ends_before(st, n) and \
                            ends_before(n, e) and self.same_binding(f, name, n, st):
                        out = out.cat(self.org(f, n["args"][-1], env, depth + 1)) if out.complete else \
                            out.alt(self.org(f, n["args"][-1], env, depth + 1).derived("appended"))
                    elif kk in ("assign",) and n["l"].get("k") == "path" and n["l"]["path"] == name and \
                            ends_before(st, n) and self.same_binding(f, name, n, st):
                        out = out.alt(self.org(f, n["r"], env, depth + 1))
                    elif kk == "binary" and n["op"].endswith("=") and n["op"] not in ("==", "!=", "<=", ">=") and \
                            n["l"].get("k") == "path" and n["l"]["path"] == name and ends_before(st, n) and \
                            self.same_binding(f, name, n, st):
                        out = out.alt(Org.unknown("updated in place"))   # e.g. a counter: `index += 1`
                return out
            finally:
                self.busy.discard(key)
        if b[0] == "closure":
            o = env.get((id(b[1]), b[2]))
            return o if o is not None else Org.unknown("closure parameter")
        if b[0] == "param":
            return self.param_org(f, b[1], depth)
        if b[0] == "pat" and b[1].get("k") == "for":
            o = self.loop_var_org(f, b[1], name, env, depth)
            if o is not None:
                return o
        return Org.unknown("pattern binding")

    def loop_var_org(self, f, loop, name, env, depth):
        """`for x in v` / `for x in &v` / `for x in v.iter()` over a local Vec filled with `v.push(e)`: x is one of the e."""
        if loop["pat"].get("k") != "p_ident" or loop["pat"]["name"] != name:
            return None
        it = loop["iter"]
        while it.get("k") in ("ref", "mcall") and (it.get("k") == "ref" or (it["method"] in ("iter", "into_iter", "drain") or
                                                                             it["method"] in PASS)):
            it = it["e"] if it.get("k") == "ref" else it["recv"]
        if it.get("k") != "path" or "::" in it["path"]:
            return None
        vec = it["path"]
        b = lookup(f.node, vec, loop)
        if not b or b[0] != "let":
            return None
        key = ("loop", id(loop))
        if key in self.busy:
            return Org()
        self.busy.add(key)
        try:
            out = None
            for n in synq.walk(f.body):
                if n.get("k") == "mcall" and n["method"] == "push" and n["recv"].get("k") == "path" and \
                        n["recv"]["path"] == vec and len(n["args"]) == 1 and self.same_binding(f, vec, n, b[1]):
                    o = self.org(f, n["args"][0], env, depth + 1)
                    out = o if out is None else out.alt(o)
            if out is None:
                return None
            out.complete = False
            return out
        finally:
            self.busy.discard(key)

    def same_binding(self, f, name, at, st):
        b = lookup(f.node, name, at)
        return b is not None and b[0] == "let" and b[1] is st

    def param_org(self, f, idx, depth):
        if depth > 12:
            return Org.unknown("parameter (depth)")
        key = ("param", id(f.node), idx)
        if key in self.busy:
            return Org()
        params = f.node["sig"]["params"]
        has_self = bool(params and params[0].get("self"))
        sites = []
        for (n, caller, is_m) in self.be.calls().get(f.name, []):
            if contains(f.node, n) and caller is f:
                continue  # recursion
            if is_m:
                ai = idx - (1 if has_self else 0)
                if len(n["args"]) != len(params) - (1 if has_self else 0):
                    continue
            else:
                ai = idx
                if len(n["args"]) != len(params):
                    continue
            if 0 <= ai < len(n["args"]):
                inner = self.be.innermost(self.be.fns, n) or caller
                sites.append((n["args"][ai], inner))
        same = [x for x in self.be.fns if x.name == f.name and x is not f and not contains(x.node, f.node)
                and not contains(f.node, x.node)]
        if not sites:
            return Org.unknown("parameter (no caller in this backend)")
        self.busy.add(key)
        try:
            out = None
            for arg, caller in sites:
                o = self.org(caller, arg, {}, depth + 4)
                out = o if out is None else out.alt(o)
            if same:
                out = Org(out.convs, (), out.lits, False, out.fields, out.notes + ["ambiguous callee name"])
            return out
        finally:
            self.busy.discard(key)

    def mcall_org(self, f, e, env, depth):
        m = e["method"]
        R = lambda x, env_=env: self.org(f, x, env_, depth + 1)  # noqa: E731
        if is_conv(m):
            return Org(convs=[m])
        if m in SOURCES:
            return Org(srcs=[m])
        recv, args = e["recv"], e["args"]
        if m in PASS and not args:
            return R(recv)
        if m == "expect":
            return R(recv)
        if m == "unwrap_or" and len(args) == 1:
            return R(recv).alt(R(args[0]))
        if m in ("unwrap_or_else", "or_else") and len(args) == 1 and args[0].get("k") == "closure":
            return R(recv).alt(R(args[0]["body"]))
        if m in ("map", "and_then", "map_or", "map_or_else") and args and args[-1].get("k") == "closure":
            cl = args[-1]
            env2 = dict(env)
            if len(cl["params"]) == 1:
                env2[(id(cl), 0)] = R(recv)
            out = self.org(f, cl["body"], env2, depth + 1)
            if m == "map_or":
                out = out.alt(R(args[0]))
            elif m == "map_or_else" and args[0].get("k") == "closure":
                out = out.alt(R(args[0]["body"]))
            elif m in ("map", "and_then"):
                pass
            return out
        if m in CASEFOLD:
            o = R(recv)
            if o.complete and not o.convs:
                return Org(lits=[CASEFOLD[m](x) for x in o.lits], complete=True)
            o = o.derived(m)
            o.convs.append(m)
            return o
        if m == "replace" and len(args) == 2:
            o = R(recv)
            a, b = args
            if o.complete and a.get("k") in ("str", "char") and b.get("k") in ("str", "char"):
                return Org(o.convs, (), [x.replace(a["v"], b["v"]) for x in o.lits], True)
            o = o.derived("replace")
            if b.get("k") in ("str", "char") and b["v"] == "_":
                o.convs.append(f"replace({render(a)}, \"_\")")
            return o
        # anything else: a value computed from the receiver
        return R(recv).derived("." + m + "()")


def unbrace(s):
    return s.replace("{{", "{").replace("}}", "}")


# ============================================================================ the encoder's vocabulary (oracle)
class Vocab:
    """Name vocabulary of wit-component's legacy mangling, read from `impl [NameMangling for] Legacy`."""

    TAILS = {"prefixed_payload": r"(unit|\d+)", "maybe_async_lowered_payload": r"(unit|\d+)",
             "parse_context_name": r"((i32|i64)-)?\d+", "match_with_optional_type_suffix": r"(-i32|-i64)?"}

    def __init__(self):
        d = facts.registry_src("wit-component")
        if d is None:
            raise AnchorMissing("wit-component source not found in the cargo registry")
        self.path = os.path.join(d, "src/validation.rs")
        ast = facts.parse_snippet(open(self.path).read())
        if "error" in ast or "items" not in ast:
            raise AnchorMissing("wit-component validation.rs does not parse")
        self.ast = ast
        self.methods = {}   # method name -> fn node (both impls of Legacy)
        for it in ast["items"]:
            if it.get("k") == "impl" and synq.base_name(it["self_ty"]) == "Legacy":
                for m in it["items"]:
                    if m.get("k") == "fn":
                        self.methods[m["sig"]["name"]] = m
        if len(self.methods) < 40:
            raise AnchorMissing(f"impl NameMangling for Legacy: only {len(self.methods)} methods found")
        self.entries = []   # (literal, kind, tail_re, method)
        for name, fn in self.methods.items():
            self._scan(name, fn)
        # wrappers: the prefix literals of strip_async_lowered_prefix / strip_cancellable_prefix / exported prefix
        self.async_lower = self._one("strip_async_lowered_prefix")
        self.cancellable = self._one("strip_cancellable_prefix")
        self.export_prefix = self._const("import_exported_intrinsic_prefix")
        self.root = self._const("import_root")
        self.post_return = self._one("strip_post_return")
        self.realloc = self._const("export_realloc")
        self.wrappers_of = {m: self._wrappers(m) for m in self.methods}
        self.export_only = self._names_under_not_import()
        self.root_only = self._names_under_root()
        # groups: every bracket group that occurs in an encoder literal
        self.closed = {}    # '[xyz]' -> set(kinds)
        self.open = []      # ('[future-new-', tail_re, method)
        for lit, kind, tail, meth in self.entries:
            if kind == "open":
                self.open.append((lit, tail, meth))
                continue
            for g in re.findall(r"\[[^\[\]]*\]", lit):
                self.closed.setdefault(g, set()).add(kind)
        self.dtor = [lit for lit, k, t, m in self.entries if m == "match_wit_resource_dtor" and "[" in lit]

    def _scan(self, mname, fn):
        def visit(n, ctx):
            if isinstance(n, list):
                for x in n:
                    visit(x, ctx)
                return
            if not isinstance(n, dict):
                return
            k = n.get("k")
            if k == "str":
                v = n["v"]
                if not v or v[0] not in "[#$" and not re.match(r"^[a-z_]+$", v):
                    return
                kind, tail = "exact", None
                if ctx and ctx[0] == "pat":
                    kind = "exact"
                elif ctx and ctx[0] == "call":
                    c = ctx[1]
                    if c in ("starts_with", "ends_with", "contains"):
                        return  # a discriminator inside a helper, not a name of the vocabulary
                    if c == "strip_prefix":
                        kind = "prefix"
                    elif c in self.TAILS:
                        kind, tail = "open", self.TAILS[c]
                    elif c in ("match_with_async_lowered_prefix", "match_with_cancellable_prefix"):
                        kind = "exact"
                    elif v.startswith("[") and not v.endswith("]"):
                        kind, tail = "open", r"[^\]]*"
                if v.startswith("[") and not v.endswith("]") and kind != "open":
                    kind, tail = "open", r"[^\]]*"
                self.entries.append((v, kind, tail, mname))
                return
            if k == "p_lit":
                visit(n.get("lit"), ("pat",))
                return
            if k == "mcall":
                visit(n["recv"], ctx)
                visit(n["args"], ("call", n["method"]))
                return
            if k == "call":
                visit(n["args"], ("call", synq.short(render(n["func"]))))
                return
            if k == "binary" and n["op"] == "==":
                visit(n["l"], ("pat",))
                visit(n["r"], ("pat",))
                return
            for key, v in n.items():
                if key not in ("sp", "k", "sig") and isinstance(v, (dict, list)):
                    visit(v, ctx)
        visit(fn.get("body"), None)

    def _one(self, meth):
        ls = [l for l, k, t, m in self.entries if m == meth]
        if len(ls) != 1:
            raise AnchorMissing(f"Legacy::{meth}: expected one literal, found {ls}")
        return ls[0]

    def _const(self, meth):
        fn = self.methods.get(meth)
        vals = [v for v in tail_values(fn["body"], []) if v is not None] if fn else []
        if len(vals) == 1 and vals[0].get("k") == "str":
            return vals[0]["v"]
        raise AnchorMissing(f"Legacy::{meth} is not a literal constant")

    def _wrappers(self, meth, seen=None):
        seen = seen or set()
        if meth in seen or meth not in self.methods:
            return set()
        seen.add(meth)
        out = set()
        for n in synq.walk(self.methods[meth].get("body") or {}):
            c = None
            if n.get("k") == "mcall" and render(n["recv"]) == "self":
                c = n["method"]
            elif n.get("k") == "call" and render(n["func"]).startswith(("Legacy::", "Self::")):
                c = synq.short(render(n["func"]))
            if c == "strip_async_lowered_prefix":
                out.add("async-lower")
            elif c == "strip_cancellable_prefix":
                out.add("cancellable")
            elif c:
                out |= self._wrappers(c, seen)
        return out

    def _fn(self, name):
        for it in self.ast["items"]:
            if it.get("k") == "impl":
                for m in it["items"]:
                    if m.get("k") == "fn" and m["sig"]["name"] == name and m.get("body"):
                        return m
        raise AnchorMissing(f"wit-component: fn {name}")

    def _lits_of_calls(self, node):
        out = set()
        for n in synq.walk(node):
            if n.get("k") == "mcall" and render(n["recv"]) == "names" and n["method"] in self.methods:
                out |= {l for l, k, t, m in self.entries if m == n["method"] and l.startswith("[")}
        return out

    def _names_under_not_import(self):
        fn = self._fn("maybe_classify_wit_intrinsic")
        for n in synq.walk(fn["body"]):
            if n.get("k") == "if" and render(n["cond"]) == "!import":
                s = self._lits_of_calls(n["then"])
                if s:
                    return s
        raise AnchorMissing("maybe_classify_wit_intrinsic: `if !import` block not found")

    def _names_under_root(self):
        fn = self._fn("classify_component_model_import")
        for n in synq.walk(fn["body"]):
            if n.get("k") == "if" and render(n["cond"]) == "(module == names.import_root())":
                return self._lits_of_calls(n["then"])
        raise AnchorMissing("classify_component_model_import: `module == names.import_root()` block not found")

    # ---- recognition
    def group_ok(self, g, extra_closed=()):
        """g: a bracket group whose unknown holes are written as \\x00.  -> (ok, why)"""
        rx = re.compile("".join(r"[A-Za-z0-9+.-]+" if c == "\x00" else re.escape(c) for c in g))
        for c in list(self.closed) + list(extra_closed):
            if rx.fullmatch(c):
                return True, f"encoder literal {c}"
        for pre, tail, meth in self.open:
            if "\x00" not in g:
                if g.startswith(pre) and g.endswith("]") and re.fullmatch(tail, g[len(pre):-1]):
                    return True, f"encoder prefix {pre}"
            else:
                # does the pattern admit `pre + tail + ]` for some tail the encoder parses?
                for t in ("", "0", "7", "unit", "-i32", "-i64", "i32-0", "i64-0"):
                    if re.fullmatch(tail, t) and rx.fullmatch(pre + t + "]"):
                        return True, f"encoder prefix {pre}"
        return False, "no literal or prefix of `impl NameMangling for Legacy` matches"

    def full_name_ok(self, name):
        """A hole-free import name made only of markers (an intrinsic): wrappers* then one exact / prefix / open name."""
        rest = name
        used = []
        while True:
            if rest.startswith(self.async_lower):
                used.append("async-lower")
                rest = rest[len(self.async_lower):]
            elif rest.startswith(self.cancellable):
                used.append("cancellable")
                rest = rest[len(self.cancellable):]
            else:
                break
        for lit, kind, tail, meth in self.entries:
            if not lit.startswith("["):
                continue
            ok = False
            if kind == "exact" and rest == lit:
                ok = True
            elif kind == "prefix" and rest.startswith(lit) and lit not in (self.async_lower, self.cancellable):
                ok = True
            elif kind == "open" and rest.startswith(lit):
                m = re.match(tail + r"\]", rest[len(lit):])
                ok = bool(m)
            if ok:
                bad = [w for w in used if w not in self.wrappers_of.get(meth, set())]
                if bad:
                    return False, f"{lit} ({meth}) does not accept the [{bad[0]}] wrapper"
                return True, f"{meth}"
        return False, "not an intrinsic name of the encoder"


def wit_item_prefixes():
    """`[method]`, `[static]`, `[constructor]` … : bracket prefixes of WIT function names (wit-parser ast/resolve.rs)."""
    d = facts.registry_src("wit-parser")
    if d is None:
        raise AnchorMissing("wit-parser source not found")
    out = set()
    for rel in ("src/ast/resolve.rs", "src/lib.rs"):
        p = os.path.join(d, rel)
        txt = open(p).read()
        for m in re.finditer(r'format!\(\s*"(\[[a-z][a-z0-9 -]*\])', txt if rel.endswith("ast/resolve.rs") else ""):
            out.add(m.group(1))
    return out


# ============================================================================ name sites in a backend
MARK = re.compile(r"\[[A-Za-z{][A-Za-z0-9{}+:._ -]*\]")
SINK_RX = [
    (re.compile(r'__import_module__\(\s*"([^"\n]*)"'), "module"),
    (re.compile(r'__import_name__\(\s*"([^"\n]*)"'), "import"),
    (re.compile(r'__export_name__\(\s*"([^"\n]*)"'), "export"),
    (re.compile(r'\bimport_module\(\s*"([^"\n]*)"'), "module"),
    (re.compile(r'\bimport_name\(\s*"([^"\n]*)"'), "import"),
    (re.compile(r'wasm_import_module\s*=\s*"([^"\n]*)"'), "module"),
    (re.compile(r'link_name\s*=\s*"([^"\n]*)"'), "import"),
    (re.compile(r'export_name\s*=\s*"([^"\n]*)"'), "export"),
    (re.compile(r'DllImportAttribute\(\s*"([^"\n]*)"'), "module"),
    (re.compile(r'EntryPoint\s*=\s*"([^"\n]*)"'), "entry"),
    (re.compile(r'@wasmImport!\(\s*"([^"\n]*)"'), "module"),
    (re.compile(r'@wasmImport!\(\s*"[^"\n]*"\s*,\s*"([^"\n]*)"'), "import"),
    (re.compile(r'@wasmExport!\(\s*"([^"\n]*)"'), "export"),
    (re.compile(r'=\s*"([^"\n]*)"[ \t]+"[^"\n]*"'), "module"),            # MoonBit  fn f(..) = "module" "name"
    (re.compile(r'=\s*"[^"\n]*"[ \t]+"([^"\n]*)"'), "import"),
    (re.compile(r'//go:wasmimport[ \t]+(\S+)'), "module"),
    (re.compile(r'//go:wasmimport[ \t]+\S+[ \t]+(\S+)'), "import"),
    (re.compile(r'//go:wasmexport[ \t]+(\S+)'), "export"),
]
FRAGMENT = re.compile(r'^(\[[a-z][a-z0-9+-]*\])+[^\s"]*$|^cabi_post_[^\s"]*$|^[^\s"]*#\[dtor\][^\s"]*$')


class Seg:
    """One canonical-name string written by a backend: text (with holes), role, holes [(key, expr|None, offset)]."""

    def __init__(self, be, f, rel, node, text, role, holes, macro=None, start=0):
        self.be, self.f, self.rel, self.node = be, f, rel, node
        self.text, self.role, self.holes, self.macro, self.start = text, role, holes, macro, start
        self.module = None   # paired module segment for import names

    @property
    def fn(self):
        return self.f.name if self.f is not None else "<item>"

    def loc(self):
        return f"{self.rel}:{synq.line(self.node)}"

    def ident(self):
        return f'{self.be}: {self.fn} "{self.text}"'


def hole_spans(template):
    """[(start, end, key)] of holes in a format template ('{{' / '}}' skipped)."""
    out = []
    pos = 0
    for m in re.finditer(r"\{\{|\}\}|\{([^{}]*)\}", template):
        if m.group(0) in ("{{", "}}"):
            continue
        name = m.group(1).split(":", 1)[0].strip()
        if name == "":
            out.append((m.start(), m.end(), ("pos", pos)))
            pos += 1
        elif name.isdigit():
            out.append((m.start(), m.end(), ("pos", int(name))))
        else:
            out.append((m.start(), m.end(), ("name", name)))
    return out


def hole_expr(key, ex, fm):
    """the expression bound to a hole; an implicit capture `{x}` becomes a path node located at its macro"""
    if ex is None and key[0] == "name" and fm is not None:
        return {"k": "path", "path": key[1], "sp": fm.node["sp"], "$implicit": True}
    return ex


def template_holes(fm):
    """[(key, expr, offset)] of a Fmt's template"""
    exprs = {off: ex for kind, key, ex, off in fm.hole_exprs()}
    return [(key, hole_expr(key, exprs.get(s), fm), s) for (s, e_, key) in hole_spans(fm.template)]


def single_template(f, e, depth=0):
    """(template text, holes) when expression `e` is, through value-preserving wrappers and single-valued `let`s,
    one string literal / format! / `a + b` concatenation; None otherwise.  A name that is first built in a local and
    then printed is thereby judged exactly like the same name built inline."""
    if e is None or depth > 6:
        return None
    k = e.get("k")
    if k in ("ref", "try"):
        return single_template(f, e["e"], depth)
    if k == "unary" and e["op"] in ("*", "&"):
        return single_template(f, e["e"], depth)
    if k == "mcall" and e["method"] in PASS and not e["args"]:
        return single_template(f, e["recv"], depth)
    if k == "call" and e["func"].get("k") == "path" and len(e["args"]) == 1:
        p = e["func"]["path"]
        if p in PASS_CALLS or "::".join(p.split("::")[-2:]) in PASS_CALLS:
            return single_template(f, e["args"][0], depth)
        return None
    if k == "str":
        return e["v"].replace("{", "{{").replace("}", "}}"), []
    if k == "macro" and synq.short(e["name"]) == "format" and e.get("args"):
        fm = synq.Fmt(e)
        if fm.template is None or '"' in fm.template or "\n" in fm.template:
            return None
        return inline_holes(f, fm.template, template_holes(fm), depth + 1)
    if k == "binary" and e["op"] == "+":
        parts = flatten_plus(e)
        subs = [single_template(f, p, depth + 1) for p in parts]
        if subs[0] is None:
            return None
        text, holes = "", []
        for p, sub in zip(parts, subs):
            if sub is None:
                holes.append((("pos", len(holes)), p, len(text)))
                text += "{}"
            else:
                holes += [(k_, e_, o + len(text)) for k_, e_, o in sub[1]]
                text += sub[0]
        return text, holes
    if k == "path" and "::" not in e["path"] and not e["path"][:1].isupper():
        b = lookup(f.node, e["path"], e)
        if not b or b[0] != "let":
            return None
        st = b[1]
        if any(n.get("k") == "p_ident" and n.get("mut") for n in synq.walk(st["pat"])):
            return None   # may be appended to / reassigned: left to the origin analysis
        pth = pat_path(st["pat"], e["path"])
        if pth is None:
            return None
        vals = tail_values(st.get("init"), pth)
        if len(vals) != 1 or vals[0] is None or vals[0].get("k") == "$component":
            return None
        return single_template(f, vals[0], depth + 1)
    return None


def inline_holes(f, text, holes, depth=0):
    """Substitute every hole whose value is a single template (see single_template) by that template."""
    out_text, out_holes, pos = "", [], 0
    for key, ex, off in sorted(holes, key=lambda h: h[2]):
        end = text.index("}", off) + 1
        out_text += text[pos:off]
        sub = None
        if ex is not None and ":" not in text[off:end] and ex.get("k") == "path":
            sub = single_template(f, ex, depth)
        if sub is None:
            out_holes.append((key, ex, len(out_text)))
            out_text += text[off:end]
        else:
            out_holes += [(k_, e_, o + len(out_text)) for k_, e_, o in sub[1]]
            out_text += sub[0]
        pos = end
    return out_text + text[pos:], out_holes


def segments_of_string(be, f, rel, strnode, fm):
    """Name segments inside one string literal (fm = its Fmt when the string is a format template)."""
    t = strnode["v"]
    spans = hole_spans(t) if fm is not None else []
    exprs = {}
    if fm is not None:
        for kind, key, ex, off in fm.hole_exprs():
            exprs[off] = ex

    def mk(a, b, role):
        hs = []
        for (s, e_, key) in spans:
            if a <= s and e_ <= b:
                hs.append((key, hole_expr(key, exprs.get(s), fm), s - a))
        text = t[a:b]
        if f is not None and hs:
            text, hs = inline_holes(f, text, hs)
        sg = Seg(be, f, rel, strnode, text, role, hs, fm, a)
        sg.raw_len = b - a
        return sg

    out = []
    taken = []
    for rx, role in SINK_RX:
        for m in rx.finditer(t):
            a, b = m.span(1)
            if any(a == x.start and x.role == role for x in out):
                continue
            out.append(mk(a, b, role))
            taken.append((a, b))
    if not out and fm is not None and '"' not in t and "\n" not in t and FRAGMENT.match(t) and spans:
        out.append(mk(0, len(t), "fragment"))
    # quoted strings with a marker that no sink pattern claimed (unknown attribute syntax): still a name position
    for m in re.finditer(r'"([^"\n]*)"', t):
        a, b = m.span(1)
        if any(a < y and x < b for x, y in taken):
            continue
        inner = t[a:b]
        if re.match(r"^(\{[^{}]*\})*(\[[a-z][a-z0-9{}+-]*\])", inner) or inner.startswith("cabi_post_"):
            out.append(mk(a, b, "quoted"))
    out.sort(key=lambda s: s.start)
    # pair module + import, resolve C# 'entry'
    pending = None
    for s in out:
        if s.role == "module":
            pending = s
        elif s.role in ("import", "entry"):
            if pending is not None and "\n" not in t[pending.start:s.start].replace("\n __attribute__", " "):
                s.module = pending
                s.role = "import"
            elif s.role == "entry":
                s.role = "export"
            pending = None
    return out


def collect(be_name, B):
    """All name segments + concat sites of a backend."""
    segs, concats = [], []
    seen = set()
    fns = sorted(B.fns, key=lambda f: (f.node["sp"][2] - f.node["sp"][0], f.node["sp"][0]))
    for f in fns:
        tmpl = {}
        for fm in synq.fmts(f.body):
            if fm.template_node is not None:
                tmpl[id(fm.template_node)] = fm
        for n in synq.walk(f.body):
            k = n.get("k")
            if k == "str" and id(n) not in seen:
                seen.add(id(n))
                segs += segments_of_string(be_name, f, f.file, n, tmpl.get(id(n)))
            elif k == "binary" and n["op"] == "+" and id(n) not in seen:
                seen.add(id(n))
                concats.append((f, n))
    for rel in B.rels:
        for it in synq.items_of(rel, ("const", "static")):
            for n in synq.walk(it.get("e") or {}):
                if n.get("k") == "str" and id(n) not in seen:
                    seen.add(id(n))
                    segs += segments_of_string(be_name, None, rel, n, None)
    return segs, concats


def hole_label(key, ex):
    if key[0] == "name":
        return "{" + key[1] + "}"
    return "{} = " + (render(ex)[:60] if ex is not None else f"#{key[1]}")


def hole_org(ev, seg, key, ex):
    if seg.f is None:
        return Org.unknown("item-level string")
    if ex is None:
        return Org.unknown("missing argument")
    return ev.org(seg.f, ex)


class Uniq:
    def __init__(self):
        self.n = {}

    def __call__(self, s):
        c = self.n.get(s, 0) + 1
        self.n[s] = c
        return s if c == 1 else f"{s} (#{c})"


# ============================================================================ rules
def r13_1(rep, be, segs, concats, ev, uniq):
    """taint: no hole of a canonical name derives from an identifier conversion"""
    n = 0
    for s in segs:
        for key, ex, off in s.holes:
            o = hole_org(ev, s, key, ex)
            n += 1
            inst = uniq(f"{s.ident()} hole {hole_label(key, ex)}")
            rep.ob("R13.1", inst, not o.convs,
                   ("the name position is filled with a mangled identifier: " if o.convs else "origin: ") + o.describe(),
                   s.loc(), nontrivial=bool(o.convs or o.srcs or o.lits or o.fields))
    for f, node in concats:
        parts = flatten_plus(node)
        lead = ev.org(f, parts[0])
        if not (lead.lits and all(re.match(r"^\[[a-z][a-z0-9+-]*\]$", x) for x in lead.lits)):
            continue
        for p in parts[1:]:
            o = ev.org(f, p)
            n += 1
            inst = uniq(f'{be}: {f.name} "{"|".join(sorted(lead.lits))}" + {render(p)[:50]}')
            rep.ob("R13.1", inst, not o.convs,
                   ("the name position is filled with a mangled identifier: " if o.convs else "origin: ") + o.describe(),
                   f.loc(node), nontrivial=True)
    return n


def flatten_plus(n):
    if n.get("k") == "binary" and n["op"] == "+":
        return flatten_plus(n["l"]) + flatten_plus(n["r"])
    return [n]


def inst_groups(ev, seg, a, b):
    """Instantiations of the bracket group seg.text[a:b]: holes with a complete literal set are enumerated, others
    become \\x00."""
    outs = [""]
    pos = a
    for key, ex, off in seg.holes:
        if not (a <= off < b):
            continue
        end = seg.text.index("}", off) + 1
        lit = unbrace(seg.text[pos:off])
        o = hole_org(ev, seg, key, ex)
        vals = sorted(o.lits) if (o.complete and o.lits and len(o.lits) <= 8) else ["\x00"]
        outs = [x + lit + v for x in outs for v in vals]
        pos = end
    return [x + unbrace(seg.text[pos:b]) for x in outs]


_SRC_TEXT = {}


def crate_text(rel):
    """raw text of every file in the crate directory of `rel` (sources and embedded assets)"""
    root = os.path.join(facts.REPO, *rel.split("/")[:2])
    key = (root, facts.tree_key())
    if key not in _SRC_TEXT:
        buf = []
        for d, _, fs in os.walk(root):
            if "/tests" in d or "/target" in d:
                continue
            for fn in fs:
                try:
                    buf.append(open(os.path.join(d, fn), errors="replace").read())
                except OSError:
                    pass
        _SRC_TEXT[key] = "\n".join(buf)
    return _SRC_TEXT[key]


def dead_declaration(seg):
    """The symbol declared right after an import attribute, when no other text of the crate mentions it.
    -> symbol text, or None when the symbol is referenced / cannot be identified."""
    t = seg.node["v"]
    after = t[seg.start + getattr(seg, "raw_len", len(seg.text)):]
    m = re.search(r"([A-Za-z_{][A-Za-z0-9_{}]*)\s*\(", after)
    if not m:
        return None
    sym = m.group(1)
    frags = [x for x in re.split(r"\{[^{}]*\}", sym) if len(x) >= 6]
    if not frags:
        return None
    frag = max(frags, key=len)
    if crate_text(seg.rel).count(frag) == t.count(frag) == 1:
        return sym
    return None


def r13_2(rep, be, segs, concats, ev, V, wit_prefixes, uniq):
    """every bracket marker is one the encoder recognises"""
    n = 0
    for s in segs:
        text = s.text
        # ---- bracket groups
        for m in MARK.finditer(text):
            g = m.group(0)
            # a group that is nothing but a hole (`[{}]`, array syntax) is not a marker
            if re.fullmatch(r"\[(\{[^{}]*\})+\]", g) or not re.search(r"[a-z]", re.sub(r"\{[^{}]*\}", "", g)):
                continue
            if s.role in ("quoted",) and not re.match(r"^\[[a-z{]", g):
                continue
            for inst_g in inst_groups(ev, s, m.start(), m.end()):
                extra = set(wit_prefixes)
                if m.start() > 0 and text[m.start() - 1] == "#":
                    extra |= {d[1:] for d in V.dtor if d.startswith("#")}
                ok, why = V.group_ok(inst_g, extra)
                n += 1
                shown = inst_g.replace("\x00", "*")
                dead = dead_declaration(s) if (not ok and s.role == "import") else None
                if dead:
                    # the property speaks of imports the generated code references; an unreferenced declaration is
                    # never linked, so this is reported as information, not as a violation
                    rep.ob("R13.2", uniq(f"{s.ident()} marker {shown}"), True,
                           f"NOT a name the encoder recognises ({why}), but the declared symbol `{dead}` is referenced "
                           "nowhere in the crate: dead declaration, outside the property", s.loc(), nontrivial=False)
                    continue
                rep.ob("R13.2", uniq(f"{s.ident()} marker {shown}"), ok, why, s.loc())
            # wrappers are only stripped at the very start of a name (after another wrapper or unknown holes)
            if g in (V.async_lower, V.cancellable, V.export_prefix) and s.role in ("import", "module", "export", "fragment"):
                before = text[:m.start()]
                leads = before in ("", V.async_lower, V.cancellable) or re.fullmatch(r"(\{[^{}]*\})+", before) is not None
                rep.ob("R13.2", uniq(f"{s.ident()} wrapper {g} leads the name"), leads,
                       "the encoder strips this wrapper only as a prefix", s.loc(), nontrivial=m.start() != 0)
        # ---- hole-free intrinsic names: the whole name must be one the encoder classifies
        if s.role == "import" and not s.holes and text.startswith("["):
            ok, why = V.full_name_ok(text)
            n += 1
            rep.ob("R13.2", uniq(f"{s.ident()} is an intrinsic the encoder classifies"), ok, why, s.loc())
            if ok and s.module is not None and not s.module.holes:
                base = text
                for w in (V.async_lower, V.cancellable):
                    if base.startswith(w):
                        base = base[len(w):]
                if any(base == l or base.startswith(l) for l in V.export_only):
                    want = V.export_prefix + V.root
                    rep.ob("R13.5", uniq(f"{s.ident()} imported from {want}"), s.module.text == want,
                           f"module is \"{s.module.text}\"", s.loc())
                elif base in V.root_only or any(base.startswith(p) for p, t, m_ in V.open):
                    rep.ob("R13.5", uniq(f"{s.ident()} imported from {V.root}"),
                           s.module.text in (V.root, V.export_prefix + V.root), f"module is \"{s.module.text}\"", s.loc())
        # ---- literal values that reach a hole of the name (e.g. the "[async-lower]" / "" pair, "$root")
        for key, ex, off in s.holes:
            o = hole_org(ev, s, key, ex)
            for lit in sorted(o.lits):
                for g in MARK.findall(lit):
                    ok, why = V.group_ok(g, set(wit_prefixes))
                    n += 1
                    rep.ob("R13.2", uniq(f"{s.ident()} hole {hole_label(key, ex)} value \"{lit}\" marker {g}"), ok, why,
                           s.loc())
                if s.role == "module" or (s.role == "fragment" and s.text.startswith(V.export_prefix)):
                    for m in re.finditer(r"\$[a-z]+", lit):
                        n += 1
                        rep.ob("R13.2", uniq(f"{s.ident()} hole {hole_label(key, ex)} root module {m.group(0)}"),
                               m.group(0) == V.root, f"the encoder's root module is {V.root}", s.loc())
        # ---- `$name` modules
        for m in re.finditer(r"\$[a-z]+", text):
            if s.role in ("module",):
                n += 1
                rep.ob("R13.2", uniq(f"{s.ident()} root module {m.group(0)}"), m.group(0) == V.root,
                       f"the encoder's root module is {V.root}", s.loc())
        # ---- the dtor separator
        for m in re.finditer(r"\[dtor\]", text):
            if s.role in ("export", "quoted", "fragment") and m.start() > 0:
                pre = text[:m.start()]
                ok, why = True, "separator is #"
                if pre.endswith("#"):
                    pass
                elif pre.endswith("}"):
                    # a hole: accept when its value provably ends with '#', or is unknown
                    hs = [h for h in s.holes if text.index("}", h[2]) + 1 == m.start()]
                    o = hole_org(ev, s, hs[0][0], hs[0][1]) if hs else Org.unknown("?")
                    ends = self_ends_with_hash(ev, s, hs[0]) if hs else None
                    if ends is False:
                        ok, why = False, "the value before [dtor] does not end with '#': " + o.describe()
                    else:
                        why = "preceded by a hole (" + o.describe() + ")"
                else:
                    ok, why = False, f"[dtor] must follow '<interface>#', found {pre[-8:]!r}"
                n += 1
                rep.ob("R13.2", uniq(f"{s.ident()} [dtor] follows '<interface>#'"), ok, why, s.loc())
    # ---- concat sites: their leading literal
    for f, node in concats:
        parts = flatten_plus(node)
        lead = ev.org(f, parts[0])
        if not (lead.lits and all(re.match(r"^\[[a-z][a-z0-9+-]*\]$", x) for x in lead.lits)):
            continue
        for g in sorted(lead.lits):
            ok, why = V.group_ok(g, set(wit_prefixes) | {d[1:] for d in V.dtor if d.startswith("#")})
            n += 1
            rep.ob("R13.2", uniq(f"{be}: {f.name} \"{g}\" + … marker {g}"), ok, why, f.loc(node))
    return n


def self_ends_with_hash(ev, seg, hole):
    """True / False / None(unknown): does the hole's value end with '#'?"""
    key, ex, off = hole
    o = hole_org(ev, seg, key, ex)
    if o.complete and o.lits:
        return all(x.endswith("#") or x == "" for x in o.lits)
    # a format! whose template ends with '#'
    e = ex
    if e is not None and e.get("k") == "path" and key[0] == "name" and seg.f is not None:
        b = lookup(seg.f.node, key[1], e)
        if b and b[0] == "let":
            for n in synq.walk(b[1].get("init") or {}):
                if n.get("k") == "macro" and synq.short(n["name"]) == "format" and n.get("args") and \
                        n["args"][0].get("k") == "str":
                    return n["args"][0]["v"].endswith("#")
    return None


def r13_5_templates(rep, be, segs, ev, V, uniq):
    """export-only intrinsics (`[resource-new]`, `[resource-rep]`, `[task-return]` …) are imported from `[export]…`"""
    n = 0
    for s in segs:
        if s.role != "import" or s.module is None or not s.holes and not s.module.holes:
            continue
        base = s.text
        for w in (V.async_lower, V.cancellable):
            if base.startswith(w):
                base = base[len(w):]
        hit = [l for l in V.export_only if base.startswith(l)]
        if not hit:
            continue
        mt = s.module.text
        ok, why = None, ""
        if mt.startswith(V.export_prefix):
            ok, why = True, "module literal starts with " + V.export_prefix
        elif mt.startswith("{"):
            key, ex, off = s.module.holes[0]
            o = hole_org(ev, s.module, key, ex)
            bad_lits = sorted(x for x in o.lits if not x.startswith(V.export_prefix))
            has_prefix = any(x.startswith(V.export_prefix) for x in o.frags)
            if bad_lits:
                ok, why = False, f"module can be \"{bad_lits[0]}\" (no {V.export_prefix} prefix): " + o.describe()
            elif o.srcs and not has_prefix:
                ok, why = False, "module is the plain interface name (" + o.describe() + ")"
            elif o.lits or o.srcs:
                ok, why = True, "module value: " + o.describe()
            else:
                ok, why = True, "module of unknown origin (" + o.describe() + ")"
        else:
            ok, why = False, f"module \"{mt}\" lacks the {V.export_prefix} prefix"
        n += 1
        rep.ob("R13.5", uniq(f"{s.ident()} imported from an {V.export_prefix} module"), ok, why, s.loc())
    return n


def r13_3(rep, be, B, segs, ev, V, uniq):
    """function export names flow from legacy_core_export_name / wasm_export_name"""
    n = 0
    for s in segs:
        if s.role != "export":
            continue
        if "[dtor]" in s.text:
            continue
        if not s.holes:
            rep.ob("R13.3", uniq(f"{s.ident()} fixed export"), s.text in (V.realloc, "_initialize", "memory"),
                   "a hole-free export name must be one of the encoder's fixed exports", s.loc(), nontrivial=False)
            continue
        orgs = [(key, ex, hole_org(ev, s, key, ex)) for key, ex, off in s.holes]
        flows = [o for _, _, o in orgs if o.srcs & EXPORT_SOURCES]
        n += 1
        if flows:
            rep.ob("R13.3", uniq(f"{s.ident()} name flows from wit-parser's export name"), True,
                   "; ".join(f"{hole_label(k, e)}: {o.describe()}" for k, e, o in orgs), s.loc())
            continue
        # structural equivalent: <module>#<func.name> with clean parts (C++)
        fields = set().union(*[o.fields for _, _, o in orgs])
        fn_name = any(re.search(r"\bfunc\.name$|\bfunc_name$|\.name$", x) for x in fields)
        mod_ok = True
        hashed = "#" in s.text or any("#" in l for _, _, o in orgs for l in o.frags) or \
            any(pushes_hash(s.f, k, s) for k, e, o in orgs)
        ok = fn_name and mod_ok and hashed   # (a conversion on one alternative is R13.1's finding)
        rep.ob("R13.3", uniq(f"{s.ident()} name flows from wit-parser's export name"), ok,
               ("structural equivalent `<wasm_import_module>#<func.name>`: " if ok else
                "neither legacy_core_export_name/wasm_export_name nor `<module>#<func.name>` reaches the attribute: ") +
               "; ".join(f"{hole_label(k, e)}: {o.describe()}" for k, e, o in orgs), s.loc())
    return n


def pushes_hash(f, key, seg):
    """`res.push('#')` inside the initialiser of the variable bound to the hole (C++ module_prefix)."""
    if f is None or key[0] != "name":
        return False
    ex = next((e for k_, e, o in seg.holes if k_ == key and e is not None), None)
    if ex is None:
        return False
    b = lookup(f.node, key[1], ex)
    if not b or b[0] != "let":
        return False
    for n in synq.walk(b[1].get("init") or {}):
        if n.get("k") == "mcall" and n["method"] in ("push", "push_str") and n["args"] and \
                n["args"][0].get("k") in ("char", "str") and n["args"][0]["v"] == "#":
            return True
    return False


def moonbit_exports(rep, B, ev, uniq):
    """MoonBit keeps exports in a map: every `.export.insert(name, ..)` key flows from wasm_export_name."""
    n = 0
    for f in B.fns:
        for c in synq.method_calls(f.body, "insert"):
            r = render(c["recv"])
            if not r.endswith(".export") or len(c["args"]) != 2:
                continue
            o = ev.org(f, c["args"][0])
            n += 1
            rep.ob("R13.3", uniq(f"moonbit: {f.name} export map key {render(c['args'][0])}"),
                   bool(o.srcs & EXPORT_SOURCES) and not o.convs, o.describe(), f.loc(c))
    return n


def post_return_sites(rep, be, B, segs, V, uniq):
    """a backend that asks `guest_export_needs_post_return` writes an export `<encoder's post-return prefix><export>`"""
    asks = [f for f in B.fns if synq.fn_calls(f.body, "guest_export_needs_post_return")]
    cands = [s for s in segs if s.role in ("export", "fragment", "quoted") and re.search(r"(?i)post", s.text)]
    n = 0
    for s in cands:
        n += 1
        rep.ob("R13.2", uniq(f"{s.ident()} post-return export is named {V.post_return}<export>"),
               re.match(r"^(\{[^{}]*\})?" + re.escape(V.post_return) + r"\{", s.text) is not None,
               "the encoder recognises a post-return function only as " + V.post_return + "<core export name>", s.loc())
    if be == "moonbit":
        n += len([1 for f in B.fns for c in synq.walk(f.body) if c.get("k") == "path" and
                  c["path"].endswith("WasmExportKind::PostReturn")])
    if asks or be == "moonbit":
        rep.floor("R13.2", f"{be}: post-return export sites", n, 1)
    return n


def dtor_sites(be, B, segs, concats, ev):
    """(kind, function, text, loc, name-hole origin list) for every destructor export site of a backend."""
    out = []
    for s in segs:
        if "[dtor]" in s.text and s.role in ("export", "quoted", "fragment"):
            at = s.text.index("[dtor]") + len("[dtor]")
            hs = [(k, e, off) for k, e, off in s.holes if off >= at]
            out.append(("template", s.f, s.text, s.loc(), [(hole_label(k, e), hole_org(ev, s, k, e)) for k, e, off in hs], s))
    for f, node in concats:
        parts = flatten_plus(node)
        lead = ev.org(f, parts[0])
        if "[dtor]" in lead.lits:
            out.append(("concat", f, '"[dtor]" + ' + render(parts[1])[:40], f.loc(node),
                        [(render(p)[:40], ev.org(f, p)) for p in parts[1:]], None))
    if be == "moonbit":
        for f in B.fns:
            for c in synq.method_calls(f.body, "wasm_export_name"):
                if any(n.get("k") == "struct" and n["path"].endswith("ResourceDtor") for n in synq.walk(c["args"])):
                    out.append(("wit-parser", f, "wasm_export_name(.., WasmExport::ResourceDtor)", f.loc(c), [], None))
    return out


_CACHE = {}


def analysed(be):
    key = (be, facts.tree_key())
    if key not in _CACHE:
        B = Backend(be, BACKENDS[be])
        segs, concats = collect(be, B)
        _CACHE[key] = (B, segs, concats, Eval(B))
    return _CACHE[key]


def dtor_name_obligations(rep, rule_id, backend="c"):
    """Used by C11 (R11.1): the destructor export name of `backend` interpolates the WIT resource name itself."""
    B, segs, concats, ev = analysed(backend)
    sites = dtor_sites(backend, B, segs, concats, ev)
    rep.floor(rule_id, f"{backend}: destructor export name sites", len(sites), 1)
    for kind, f, text, loc, holes, seg in sites:
        rep.saw(f"{f.file}::{f.name}")
        if kind == "wit-parser":
            rep.ob(rule_id, f"{backend}: {f.name} destructor export name comes from wit-parser", True, text, loc)
            continue
        if not holes:
            rep.ob(rule_id, f'{backend}: {f.name} "{text}" names a resource', False,
                   "no hole follows [dtor]: the export cannot name the resource", loc)
        for label, o in holes:
            rep.ob(rule_id, f'{backend}: {f.name} "{text}" resource-name hole {label}', not o.convs,
                   ("the encoder looks the text after `#[dtor]` up in the interface's WIT type names; this is a "
                    "mangled identifier: " if o.convs else "origin: ") + o.describe(), loc)
    return len(sites)


# ---------------------------------------------------------------------------- oracle cross-check, runtime, assets
def oracle_crosscheck(rep, V):
    """wit-parser's own legacy names use only markers the encoder recognises (the two oracles agree)."""
    d = facts.registry_src("wit-parser")
    p = os.path.join(d, "src/resolve/mod.rs")
    ast = facts.parse_snippet(open(p).read())
    if "items" not in ast:
        raise AnchorMissing("wit-parser resolve/mod.rs does not parse")
    lib = facts.parse_snippet(open(os.path.join(d, "src/lib.rs")).read())
    fns = {}
    for a in (ast, lib):
        for it in a.get("items", []):
            if it.get("k") == "impl":
                for m in it["items"]:
                    if m.get("k") == "fn" and m["sig"]["name"] in ("wasm_import_name", "wasm_export_name", "import_prefix",
                                                                     "export_prefix", "core_export_name", "task_return_import"):
                        fns[m["sig"]["name"]] = m
    for need in ("wasm_import_name", "wasm_export_name", "core_export_name"):
        if need not in fns:
            raise AnchorMissing(f"wit-parser: fn {need}")
    n = 0
    seen = set()
    for name, fn in sorted(fns.items()):
        rep.saw(f"wit-parser::{name}")
        body = fn["body"]
        scope = body
        if name in ("wasm_import_name", "wasm_export_name"):
            m = synq.find_match(body, "ManglingAndAbi::")
            arm = synq.arm_for(m, "ManglingAndAbi::Legacy")
            if arm is None or "_" in arm.heads:
                raise AnchorMissing(f"{name}: no ManglingAndAbi::Legacy arm")
            scope = arm.body
        for s in synq.strings(scope):
            for g in MARK.findall(s["v"]):
                if not re.match(r"^\[[a-z]", g):
                    continue
                gi = re.sub(r"\{[^{}]*\}", "\x00", g)
                if (name, gi) in seen:
                    continue
                seen.add((name, gi))
                ok, why = V.group_ok(gi, {"[dtor]"} if "#" + g in s["v"] else ())
                n += 1
                rep.ob("R13.2", f"oracle: wit-parser {name} marker {gi.replace(chr(0), '*')} is recognised by the encoder",
                       ok, why, f"wit-parser/src:{synq.line(s)}")
    rep.floor("R13.2", "wit-parser legacy markers cross-checked", n, 9)


def runtime_link_names(rep, V):
    """Rust runtime: every #[link_name] of an extern block with a wasm_import_module is an encoder intrinsic."""
    n = 0
    for rel in synq.files():
        if not rel.startswith(RUNTIME_DIR):
            continue
        ast = synq.load(rel)
        for fm in (x for x in synq.walk(ast) if x.get("k") == "foreign_mod"):
            mod = None
            for a in fm.get("attrs", []):
                m = re.search(r'wasm_import_module\s*=\s*"([^"]*)"', a)
                if m:
                    mod = m.group(1)
            if mod is None:
                continue
            rep.saw(file=rel)
            for it in fm.get("items", []):
                if it.get("k") != "foreign_fn":
                    continue
                ln = None
                for a in it.get("attrs", []):
                    m = re.search(r'link_name\s*=\s*"([^"]*)"', a)
                    if m:
                        ln = m.group(1)
                fname = it["sig"]["name"]
                if ln is None:
                    ln = fname
                n += 1
                ok, why = V.full_name_ok(ln)
                loc = f"{rel}:{synq.line(it)}"
                rep.ob("R13.2", f'runtime: {os.path.basename(rel)} {fname} link_name "{ln}" is an intrinsic the encoder classifies',
                       ok, why, loc)
                base = ln
                for w in (V.async_lower, V.cancellable):
                    if base.startswith(w):
                        base = base[len(w):]
                if any(base == l or base.startswith(l) for l in V.export_only):
                    want = V.export_prefix + V.root
                else:
                    want = V.root
                rep.ob("R13.5", f'runtime: {os.path.basename(rel)} {fname} "{ln}" imported from {want}', mod == want,
                       f"module is \"{mod}\"", loc)
    rep.floor("R13.2", "runtime link_name declarations", n, 23)


def embedded_assets(rep, be, B, V):
    """Files pulled in with include_str!/include_bytes!: their quoted bracket names are encoder intrinsics."""
    n = 0
    for rel in B.rels:
        base = os.path.dirname(os.path.join(facts.REPO, rel))
        for mac in synq.macros(synq.load(rel), ["include_str", "include_bytes"]):
            args = mac.get("args") or []
            if not args or args[0].get("k") != "str":
                continue
            p = os.path.normpath(os.path.join(base, args[0]["v"]))
            if not os.path.exists(p):
                continue
            txt = open(p, errors="replace").read()
            arel = os.path.relpath(p, facts.REPO)
            for i, line in enumerate(txt.splitlines(), 1):
                for m in re.finditer(r'"((?:\[[a-z][a-z0-9+-]*\])+[^"\s]*)"', line):
                    name = m.group(1)
                    if name.startswith(V.export_prefix):
                        ok, why = name == V.export_prefix + V.root, "exported-intrinsic module"
                    else:
                        ok, why = V.full_name_ok(name)
                    n += 1
                    rep.ob("R13.2", f'{be}: asset {os.path.basename(p)} name "{name}" is one the encoder classifies',
                           ok, why, f"{arel}:{i}", key=f"C13|R13.2|{be}: asset {os.path.basename(p)} name \"{name}\"")
            rep.saw(file=arel)
    return n


# ---------------------------------------------------------------------------- floors (counts confirmed by reading the code)
FLOORS = {
    # backend: (name segments, holes checked, dtor sites, export-name flows)
    "c": dict(segs=80, holes=42, dtor=1, flows=3),
    "rust": dict(segs=20, holes=36, dtor=1, flows=3),
    "moonbit": dict(segs=24, holes=24, dtor=1, flows=4),
    "go": dict(segs=24, holes=36, dtor=1, flows=3),
    "cpp": dict(segs=6, holes=12, dtor=1, flows=2),
    "csharp": dict(segs=33, holes=48, dtor=1, flows=3),
    "d": dict(segs=12, holes=12, dtor=1, flows=2),
}


def backend(rep, be, V, wit_prefixes, tier):
    B, segs, concats, ev = analysed(be)
    for rel in B.rels:
        rep.saw(file=rel)
    for s in segs:
        if s.f is not None:
            rep.saw(f"{s.rel}::{s.fn}")
    uniq = Uniq()
    nh = r13_1(rep, be, segs, concats, ev, uniq)
    r13_2(rep, be, segs, concats, ev, V, wit_prefixes, Uniq())
    r13_5_templates(rep, be, segs, ev, V, Uniq())
    nf = r13_3(rep, be, B, segs, ev, V, Uniq())
    if be == "moonbit":
        nf += moonbit_exports(rep, B, ev, Uniq())
    post_return_sites(rep, be, B, segs, V, Uniq())
    nd = len(dtor_sites(be, B, segs, concats, ev))
    fl = FLOORS[be]
    rep.floor("R13.1", f"{be}: canonical-name strings found", len(segs), fl["segs"])
    rep.floor("R13.1", f"{be}: name-position holes examined", nh, fl["holes"])
    rep.floor("R13.3", f"{be}: function export attributes traced", nf, fl["flows"])
    rep.floor("R13.4", f"{be}: destructor export name sites", nd, fl["dtor"])
    if tier == "thorough":
        embedded_assets(rep, be, B, V)


def run(rep, tier):
    rep.describe(
        "other",
        "Structural clauses of C13 decided on the syntax trees of the generators: (R13.1) in every string a backend "
        "writes into an import-module / import-name / export-name position, or that carries a canonical marker, no "
        "hole is bound to a value derived from an identifier conversion (to_snake_case, to_upper_camel_case, "
        "to_*_ident, make_external_*, replace(.., \"_\") …; def-use through lets, tuple destructuring, format!, "
        "Option combinators and one level of callers); (R13.2) every bracket marker, `$root`, `cabi_post_` and "
        "`#[dtor]` spelling is one that `impl NameMangling for Legacy` of the pinned wit-component recognises, "
        "wit-parser's own legacy names agree with it, and (thorough) so do the Rust runtime's link_names and the "
        "embedded runtime assets; (R13.3) function export attributes are fed by legacy_core_export_name / "
        "wasm_export_name (or the literal equivalent `<module>#<func.name>`); (R13.4) each backend has a destructor "
        "export site; (R13.5) export-only intrinsics are imported from an `[export]` module. NOT decided: core "
        "signatures, that every export the world requires is generated, values whose origin is a struct field, a "
        "trait-method parameter or a loop variable (reported as unknown, never as violations), which imports the "
        "target language's linker keeps (an unrecognised import name whose declared symbol is referenced nowhere in "
        "the crate is reported as information: the property speaks of imports the generated code references).",
        trusted_base=["syn parse of the generator sources", "wit-component validation.rs (`impl NameMangling for "
                      "Legacy`) and wit-parser resolve/mod.rs read from the cargo registry on every run",
                      "tail grammars of the encoder's three prefix parsers transcribed in Vocab.TAILS"],
        assumptions=["every arm of a conditional that computes a name is live (a conversion in one arm is reported)"],
    )
    rep.rule("R13.1", "no hole in a canonical-name position derives from an identifier/case conversion")
    rep.rule("R13.2", "every marker / fixed name is in the component encoder's legacy vocabulary")
    rep.rule("R13.3", "function export names flow from legacy_core_export_name / wasm_export_name")
    rep.rule("R13.4", "each backend has a destructor export name site")
    rep.rule("R13.6", "future/stream intrinsic indices are positions in Function::find_futures_and_streams")
    rep.rule("R13.5", "export-only intrinsics are imported from an [export] module, root intrinsics from $root")
    holder = {}

    def oracle():
        holder["V"] = Vocab()
        holder["W"] = wit_item_prefixes()
        V = holder["V"]
        rep.saw("wit-component::impl NameMangling for Legacy")
        rep.floor("R13.2", "encoder vocabulary: closed markers", len(V.closed), 35)
        rep.floor("R13.2", "encoder vocabulary: open prefixes", len(V.open), 18)
        rep.ob("R13.2", "oracle: export-only intrinsics read from maybe_classify_wit_intrinsic",
               {"[resource-new]", "[resource-rep]", "[task-return]"} <= V.export_only, f"{sorted(V.export_only)}", V.path)
        rep.ob("R13.2", "oracle: WIT item prefixes read from wit-parser", {"[method]", "[static]", "[constructor]"} <= holder["W"],
               f"{sorted(holder['W'])}", "wit-parser/src/ast/resolve.rs")
        oracle_crosscheck(rep, V)
    rep.guard("R13.2", "oracle", oracle)
    if "V" not in holder:
        return
    V, W = holder["V"], holder["W"]
    for be in (ALL if tier == "thorough" else QUICK):
        rep.guard("R13", f"backend {be}", lambda be=be: backend(rep, be, V, W, tier))
        from .C13_index import index_obligations
        rep.guard("R13.6", f"future/stream index {be}", lambda be=be: index_obligations(rep, "R13.6", [be]))
    if tier == "thorough":
        rep.guard("R13.2", "runtime link_name vocabulary", lambda: runtime_link_names(rep, V))
